"""Exact models of C integer semantics + the in-runner batch driver for typed kernel tables (engine E3).

SELF-CONTAINED (stdlib only): this file is imported by the checks AND loaded by path into the runner
subprocess (runner.run_cases(..., support=(VSUPPORT, cintmodel.__file__))), where it appears as the name
`cintmodel`.  The runner then evaluates ONE case expression per input batch:

    cintmodel.run(M, '<json spec>')   ->  json string {n, skip, nt, bad: [...], cls: {...}, ntkeys: [...]}

so that a million kernel calls need neither a million JSON cases nor a million outcomes on the wire.
The oracle ("judge") runs in the runner as plain CPython code on Python ints; only the kernels are compiled.

Data model is LP64 (long = 64 bit), asserted by checks through a compiled sizeof table.
"""
import json
import cmath
import math
import random
import warnings

# ------------------------------------------------------------------------------------------------ types
CTYPES = {
    # name: (bits, signed)
    "char": (8, True),            # plain char is signed on x86-64 / aarch64-linux is unsigned: checked via sizeof/probe kernel
    "signed char": (8, True),
    "unsigned char": (8, False),
    "short": (16, True),
    "unsigned short": (16, False),
    "int": (32, True),
    "unsigned int": (32, False),
    "long": (64, True),
    "unsigned long": (64, False),
    "long long": (64, True),
    "unsigned long long": (64, False),
    "Py_ssize_t": (64, True),
    "size_t": (64, False),
    "Py_hash_t": (64, True),
}
PYOBJ_TYPEOFS = ("Python object", "int object")


def bounds(bits, signed):
    if signed:
        return -(1 << (bits - 1)), (1 << (bits - 1)) - 1
    return 0, (1 << bits) - 1


def type_range(name):
    """(lo, hi) of a C integer type given its cython.typeof() spelling, None for Python objects."""
    if name in PYOBJ_TYPEOFS:
        return None
    return bounds(*CTYPES[name])


def ident(tname):
    return tname.replace(" ", "_")


def boundary_values(lo, hi, dense=True):
    """0, +-1, +-2, bounds, bounds -+1, +-2**k +-1 clipped to [lo, hi]."""
    vals = {0, 1, 2, 3, -1, -2, -3, 7, -7, 10, -10, lo, lo + 1, lo + 2, hi, hi - 1, hi - 2, hi // 2, hi // 2 + 1, lo // 2,
            lo // 2 - 1, hi // 3, lo // 3}
    k = 2
    while (1 << k) <= hi + 1:
        if dense or k in (7, 8, 15, 16, 30, 31, 32, 33, 62, 63) or k % 5 == 0:
            for d in (-1, 0, 1):
                vals.add((1 << k) + d)
                vals.add(-(1 << k) + d)
        k += 1
    return sorted(v for v in vals if lo <= v <= hi)


def rand_value(rng, lo, hi):
    """Magnitude-uniform random integer in [lo, hi] (bit length uniform, then value, then sign)."""
    while True:
        r = rng.random()
        if r < 0.04:
            return rng.choice((lo, hi, lo + 1, hi - 1, 0, 1, -1 if lo < 0 else 1))
        top = max(abs(lo), abs(hi)).bit_length()
        bl = rng.randint(0, top)
        v = rng.getrandbits(bl) if bl else 0
        if lo < 0 and rng.random() < 0.5:
            v = -v
        if lo <= v <= hi:
            return v


# ----------------------------------------------------------------------------------------------- inputs
def inputs(spec):
    """Materialise an input spec into a list of argument tuples (deterministic).

    {"kind": "list", "items": [[a, b], ...]}
    {"kind": "grid", "ranges": [[lo, hi], ...]}                 exhaustive product of inclusive ranges
    {"kind": "product", "axes": [[v...], [v...]]}               product of explicit value lists
    {"kind": "rand", "seed": s, "n": n, "ranges": [[lo, hi], ...], "small_b": bool}
    {"kind": "cat", "parts": [spec, ...]}
    optional "drop": [[a, b], ...]  argument tuples removed from the result
    """
    kind = spec["kind"]
    if kind == "list":
        out = [tuple(x) for x in spec["items"]]
    elif kind == "grid":
        out = [()]
        for lo, hi in spec["ranges"]:
            out = [t + (v,) for t in out for v in range(lo, hi + 1)]
    elif kind == "product":
        out = [()]
        for axis in spec["axes"]:
            out = [t + (v,) for t in out for v in axis]
    elif kind == "rand":
        rng = random.Random(spec["seed"])
        rs = spec["ranges"]
        out = []
        seen = set()
        for _ in range(spec["n"]):
            t = tuple(rand_value(rng, lo, hi) for lo, hi in rs)
            if spec.get("small_b") and len(t) == 2 and rng.random() < 0.3:
                # small divisors / second operands make quotients and remainders interesting
                lo, hi = rs[1]
                t = (t[0], max(lo, min(hi, rng.randint(-20, 20))))
            if t not in seen:
                seen.add(t)
                out.append(t)
    elif kind == "near":
        # operand pairs whose exact result lies within +-2 of a bound of the result range (both sides of the edge)
        rng = random.Random(spec["seed"])
        op = spec["op"]
        (alo, ahi), (blo, bhi), (rlo, rhi) = spec["ra"], spec["rb"], spec["res"]
        out = []
        seen = set()
        for _ in range(spec["n"]):
            x = rand_value(rng, alo, ahi)
            edge = rng.choice((rlo, rhi))
            d = rng.randint(-2, 2)
            if op == "+":
                y = edge - x + d
            elif op == "-":
                y = x - edge + d
            elif op == "*":
                if x == 0:
                    continue
                y = edge // x + d
            elif op == "<<":
                y = rng.randint(0, max(abs(rlo), rhi).bit_length() + 2)
                x = (edge >> y) + d
                if not alo <= x <= ahi:
                    continue
            elif op == "//":
                y = rng.choice((-1, 1, -2, 2, 3, -3))
            else:
                raise ValueError(op)
            if blo <= y <= bhi and (x, y) not in seen:
                seen.add((x, y))
                out.append((x, y))
    elif kind == "cat":
        out = []
        seen = set()
        for p in spec["parts"]:
            for t in inputs(p):
                if t not in seen:
                    seen.add(t)
                    out.append(t)
    else:
        raise ValueError(kind)
    drop = spec.get("drop")
    if drop:
        d = {tuple(x) for x in drop}
        out = [t for t in out if t not in d]
    return out


# ------------------------------------------------------------------------------------------------ model
def c_divmod(a, b):
    """C99 truncating division and remainder on exact integers (b != 0)."""
    q = abs(a) // abs(b)
    if (a < 0) != (b < 0):
        q = -q
    return q, a - q * b


class Exc(str):
    """Outcome marker for an exception of the named type ('!TypeName')."""


ZDE = Exc("!ZeroDivisionError")
OVF = Exc("!OverflowError")
TYE = Exc("!TypeError")
SKIP = ("skip",)


def outcome(f, args):
    try:
        return f(*args)
    except Exception as e:      # noqa - every exception type is an outcome
        return Exc("!" + type(e).__name__)


def _is_exact_int(v):
    return type(v) is int


# A judge factory gets the params dict and returns an object with
#   expect(args)  -> (want, nontrivial, class_label); want is SKIP when the input is outside the property's
#                    domain (the kernel is then NOT called: such inputs may be undefined behaviour in C)
#   verdict(args, got, want) -> None (agrees) | str (problem class; becomes part of the violation bucket)
JUDGES = {}


def judge(name):
    def deco(fn):
        JUDGES[name] = fn
        return fn
    return deco


class Judge:
    def __init__(self, expect, verdict):
        self.expect = expect
        self.verdict = verdict

    def want(self, args):
        return self.expect(tuple(args))[0]


@judge("divmod")
def make_divmod_judge(p):
    """C03: // and % on C integers.

    p: op in {"//", "%", "dm"}; mode "py" (cdivision off) | "c" (cdivision on);
       opnd: [lo, hi] range of the C type both operands are converted to, or None if the operation is a
             Python-object operation (then Python semantics regardless of cdivision);
       res: [lo, hi] range the result has to fit (result type, intersected with an assignment target);
       constb: the compile-time constant divisor, or None (then args = (a, b)).
    """
    op, mode, opnd, res, constb = p["op"], p["mode"], p.get("opnd"), p.get("res"), p.get("constb")
    pyobj = opnd is None
    floor = pyobj or mode == "py"

    olo, ohi = opnd if opnd else (0, 0)
    signed_c = (not pyobj) and olo < 0

    def want(args):
        a = args[0]
        b = constb if constb is not None else args[1]
        if not pyobj and not (olo <= a <= ohi and olo <= b <= ohi):
            return SKIP, False, "excluded:operand-conversion-not-value-preserving"
        if b == 0:
            if floor:
                return ZDE, True, "b=0"
            return SKIP, False, "excluded:cdivision-b=0-is-C-UB"
        q, r = divmod(a, b)                      # Python: floor quotient, remainder with the divisor's sign
        nt = r != 0 and ((a < 0) != (b < 0))     # the only inputs where C and Python semantics differ
        if signed_c and b == -1 and a == olo:
            # MIN / -1: the quotient is not representable in the computation type: // is outside the statement
            # (C04), and in C both / and % are undefined behaviour for it; with cdivision off the remainder 0 fits.
            if op != "%" or not floor:
                return SKIP, False, "excluded:MIN/-1"
        if not floor and nt:
            q, r = q + 1, r - b                  # C99: truncation towards zero, remainder with the dividend's sign
        if res is not None:
            if op != "%" and not (res[0] <= q <= res[1]):
                return SKIP, False, "excluded:quotient-does-not-fit"
            if op != "//" and not (res[0] <= r <= res[1]):
                return SKIP, False, "excluded:remainder-does-not-fit"
        cl = "signs-differ,rem!=0" if nt else ("rem=0" if r == 0 else "same-sign,rem!=0")
        if op == "//":
            return q, nt, cl
        if op == "%":
            return r, nt, cl
        return (q, r), nt, cl

    def verdict(args, got, w):
        if type(got) is type(w) and got == w and (type(got) is not tuple or all(type(x) is int for x in got)):
            return None
        if isinstance(got, Exc):
            return "raises:" + got[1:]
        if isinstance(w, Exc):
            return "no-" + w[1:]
        if type(got) is not type(w):
            return "result-type:" + type(got).__name__
        if not floor:
            return "wrong-c-value"
        b = constb if constb is not None else args[1]
        pq, pr = c_divmod(args[0], b)
        if got == {"//": pq, "%": pr, "dm": (pq, pr)}[op]:
            return "c-semantics-instead-of-python"
        return "wrong-value"

    return Judge(want, verdict)


# ------------------------------------------------------------------------------- C05: conversions
class IntSub(int):
    pass


class Idx:
    """__index__ only"""
    def __init__(self, v):
        self.v = v

    def __index__(self):
        if isinstance(self.v, BaseException):
            raise self.v
        return self.v


class IntOnly:
    """__int__ only"""
    def __init__(self, v):
        self.v = v

    def __int__(self):
        if isinstance(self.v, BaseException):
            raise self.v
        return self.v


class Both(Idx):
    def __int__(self):
        return self.v


class Plain:
    pass


class Marker(RuntimeError):
    """raised by __index__/__int__ of the *_raise values; must propagate unchanged"""


INT_LIKE = ("int", "bool", "sub", "idx", "both", "idx_sub")
INT_ONLY = ("io", "float", "dec", "frac", "io_sub", "io_bool")
NON_NUMERIC = ("none", "str", "bytes", "list", "obj")


def decode_value(v):
    """Encoded value (JSON list) -> the Python object handed to the kernel."""
    k = v[0]
    if k == "int":
        return v[1]
    if k == "bool":
        return bool(v[1])
    if k == "sub":
        return IntSub(v[1])
    if k == "idx":
        return Idx(v[1])
    if k == "both":
        return Both(v[1])
    if k == "io":
        return IntOnly(v[1])
    if k == "float":
        return float.fromhex(v[1]) if v[1] not in ("nan", "inf", "-inf") else float(v[1])
    if k == "dec":
        import decimal
        return decimal.Decimal(v[1])
    if k == "frac":
        import fractions
        return fractions.Fraction(v[1], v[2])
    if k == "none":
        return None
    if k == "str":
        return v[1]
    if k == "bytes":
        return v[1].encode("ascii")
    if k == "list":
        return [1]
    if k == "obj":
        return Plain()
    if k == "idx_raise":
        return Idx(Marker("idx"))
    if k == "idx_str":
        return Idx("5")
    if k == "idx_float":
        return Idx(5.0)
    if k == "idx_sub":
        return Idx(IntSub(v[1]))
    if k == "io_raise":
        return IntOnly(Marker("io"))
    if k == "io_str":
        return IntOnly("5")
    if k == "io_float":
        return IntOnly(5.0)
    if k == "io_sub":
        return IntOnly(IntSub(v[1]))
    if k == "io_bool":
        return IntOnly(bool(v[1]))
    raise ValueError(v)


def _near_boundary(n, lo, hi):
    if min(abs(n - lo), abs(n - hi)) <= 2:
        return True
    m = abs(n)
    for d in (-1, 0, 1):
        x = m + d
        if x > 0 and x & (x - 1) == 0 and (x.bit_length() - 1) % 15 == 0 and x > 1:
            return True
    return False


class Accept(tuple):
    """want-value: any of the contained outcomes is acceptable"""


@judge("conv")
def make_conv_judge(p):
    """C05: Python object -> C integer type [lo, hi] -> Python int round trip (DESIGN C05 classes i/ii/iii).

    p: lo, hi; index_only: True if the conversion is documented to go through __index__ (Py_ssize_t, Py_hash_t:
       then __int__-only numerics must give TypeError); intlike: result may be an int subclass (cpdef enum).
    Outcomes are compared by exception TYPE only (the statement names types).
    """
    lo, hi = p["lo"], p["hi"]
    intlike = p.get("intlike", False)
    MARK = Exc("!Marker")
    VAL = Exc("!ValueError")

    def fit(n):
        return n if lo <= n <= hi else OVF

    def expect(args):
        v = args[0]
        k = v[0]
        if k in ("int", "bool", "sub", "idx", "both", "idx_sub"):
            n = int(v[1])
            return Accept((fit(n),)), (k != "int" or _near_boundary(n, lo, hi)), "i:" + k + (":fits" if lo <= n <= hi else ":overflow")
        if k in NON_NUMERIC:
            return Accept((TYE,)), True, "ii:" + k
        if k == "idx_raise":
            return Accept((MARK,)), True, "i:idx_raise"
        if k in ("idx_str", "idx_float"):
            return Accept((TYE,)), True, "i:" + k
        # class iii: __int__-only numerics: TypeError, or what int(x) gives (value if it fits, OverflowError if not,
        # or the exception int(x) itself raises: ValueError for nan, OverflowError for inf, Marker for io_raise)
        if k in ("io_str", "io_float"):
            return Accept((TYE,)), True, "iii:" + k
        if k == "io_raise":
            return Accept((TYE, MARK)), True, "iii:io_raise"
        obj = decode_value(v)
        import warnings
        try:
            with warnings.catch_warnings():
                warnings.simplefilter("ignore")
                n = int(obj)
        except Exception as e:      # noqa
            return Accept((TYE, Exc("!" + type(e).__name__))), True, "iii:" + k + ":int()-raises"
        return Accept((TYE, fit(n))), True, "iii:" + k

    def verdict(args, got, w):
        for x in w:
            if isinstance(x, Exc):
                if isinstance(got, Exc) and got == x:
                    return None
            elif not isinstance(got, Exc) and got == x and (type(got) is int or (intlike and isinstance(got, int))):
                return None
        k = args[0][0]
        if isinstance(got, Exc):
            first = w[-1]
            return "%s:%s-instead-of-%s" % (k, got[1:], first[1:] if isinstance(first, Exc) else "value")
        if not isinstance(got, int) or type(got) is bool:
            return "%s:result-type-%s" % (k, type(got).__name__)
        exp = [x for x in w if not isinstance(x, Exc)]
        if exp:
            return "%s:wrong-value" % k
        if k in INT_LIKE or k in INT_ONLY:
            return "%s:value-instead-of-%s" % (k, w[-1][1:])
        return "%s:value-instead-of-%s" % (k, w[0][1:])

    return Judge(expect, verdict)


# ------------------------------------------------------------------------ C04: overflow-checked trees
class _Overflow(Exception):
    pass


class _Skip(Exception):
    pass


class _ZeroDiv(Exception):
    pass


def tree_source(t):
    k = t[0]
    if k == "var":
        return t[1]
    if k == "const":
        return str(t[1]) if t[1] >= 0 else "(%d)" % t[1]
    if k == "neg":
        return "(-%s)" % tree_source(t[1])
    return "(%s %s %s)" % (tree_source(t[2]), t[1], tree_source(t[3]))


def tree_nodes(t, out=None):
    """post-order list of the operator nodes of a tree (the nodes whose type is read back)"""
    if out is None:
        out = []
    k = t[0]
    if k == "neg":
        tree_nodes(t[1], out)
        out.append(t)
    elif k == "bin":
        tree_nodes(t[2], out)
        tree_nodes(t[3], out)
        out.append(t)
    return out


@judge("ovf")
def make_ovf_judge(p):
    """C04: expression tree over C integer variables under overflowcheck=True.

    p: tree - nested lists ["var", name] | ["const", n] | ["neg", x] | ["bin", op, l, r], op in + - * << // /
       types - list parallel to tree_nodes(tree): [lo, hi] range of the C result type of that operator node,
               None for a Python-object operation, "double" for true division
       vars - argument names in call order
       target - optional [lo, hi]: the result is stored to a narrower C variable (in-place ops); inputs whose exact
                result does not fit it are outside the statement (C assignment truncation, not arithmetic)
    Oracle: if every operator node's exact result fits its C type -> exact value (OverflowError tolerated and
    counted as spurious); if some node's exact result does not fit -> OverflowError.  b == 0 -> ZeroDivisionError.
    Skipped (outside the domain): an operand whose conversion to the node's C type changes its value (mixed
    signedness), negative shift counts (no integer result; undefined in C).
    """
    tree, types, names, target = p["tree"], p["types"], p["vars"], p.get("target")
    nodes = tree_nodes(tree)
    tyof = {id(n): (types[i] if types[i] is None or isinstance(types[i], str) else tuple(types[i])) for i, n in enumerate(nodes)}

    def ev(t, env, st):
        k = t[0]
        if k == "var":
            return env[t[1]]
        if k == "const":
            return t[1]
        R = tyof[id(t)]
        if k == "neg":
            x = ev(t[1], env, st)
            if R is None:
                return -x
            if not R[0] <= x <= R[1]:
                raise _Skip("operand-conversion")
            v = -x
        else:
            op = t[1]
            l = ev(t[2], env, st)
            r = ev(t[3], env, st)
            if R == "double":
                if r == 0:
                    raise _ZeroDiv()
                return ("double", l, r)
            if isinstance(l, tuple) or isinstance(r, tuple):
                raise _Skip("double-operand")
            if R is not None and not (R[0] <= l <= R[1] and R[0] <= r <= R[1]):
                raise _Skip("operand-conversion")
            if op == "+":
                v = l + r
            elif op == "-":
                v = l - r
            elif op == "*":
                v = l * r
            elif op == "<<":
                if r < 0:
                    raise _Skip("negative-shift-count")
                if r > 300:
                    if R is None:
                        raise _Skip("huge-python-shift")
                    v = 0 if l == 0 else (1 << 300) * (1 if l > 0 else -1)
                else:
                    v = l << r
            elif op == "//":
                if r == 0:
                    raise _ZeroDiv()
                v = l // r
            else:
                raise ValueError(op)
            if R is None:
                return v
        if not R[0] <= v <= R[1]:
            st["ovf"] = True
            raise _Overflow()
        if min(v - R[0], R[1] - v) <= 2:
            st["near"] = True
        return v

    def expect(args):
        env = dict(zip(names, args))
        st = {}
        try:
            v = ev(tree, env, st)
        except _Skip as e:
            return SKIP, False, "excluded:" + str(e)
        except _ZeroDiv:
            return Accept((ZDE, OVF)), True, "zero-divisor"
        except _Overflow:
            return Accept((OVF,)), True, "overflows"
        if isinstance(v, tuple):
            _, l, r = v
            vals = {l / r}
            try:
                vals.add(float(l) / float(r))
            except (OverflowError, ZeroDivisionError):
                pass
            return Accept(tuple(sorted(vals))), False, "true-division"
        if target is not None and not target[0] <= v <= target[1]:
            return SKIP, False, "excluded:does-not-fit-assignment-target"
        return Accept((v, OVF)), bool(st.get("near")), "fits:near-bound" if st.get("near") else "fits"

    top = tyof[id(nodes[-1])] if nodes else None

    def verdict(args, got, w):
        for x in w:
            if isinstance(x, Exc):
                if isinstance(got, Exc) and got == x:
                    if x == OVF and len(w) == 2 and not isinstance(w[0], Exc):
                        return "~spurious-overflow"
                    return None
            elif not isinstance(got, Exc) and type(got) is type(x) and got == x:
                return None
        if isinstance(got, Exc):
            return "raises:" + got[1:]
        exact = [x for x in w if not isinstance(x, Exc)]
        if not exact:
            if w[0] == ZDE:
                return "value-instead-of-ZeroDivisionError"
            return "value-instead-of-OverflowError"
        if type(got) is not type(exact[0]):
            return "result-type:" + type(got).__name__
        return "wrong-value"

    return Judge(expect, verdict)


# --------------------------------------------------------------------------------- C07: power operator
def decode_num(v):
    """JSON-able number encoding: int/float as is, ["c", re, im] complex, ["f", "hex"|"nan"|"inf"|"-inf"] float."""
    if isinstance(v, list):
        if v[0] == "c":
            return complex(decode_num(v[1]), decode_num(v[2]))
        if v[0] == "f":
            return float.fromhex(v[1]) if v[1] not in ("nan", "inf", "-inf") else float(v[1])
        if v[0] == "sub":
            return IntSub(v[1])
        if v[0] == "wc":
            return WithComplex(decode_num(v[1]))
        raise ValueError(v)
    return v


def encode_num(x):
    if isinstance(x, complex):
        return ["c", encode_num(x.real), encode_num(x.imag)]
    if isinstance(x, float):
        return ["f", "nan" if x != x else ("inf" if x == float("inf") else "-inf" if x == float("-inf") else x.hex())]
    return x


def _same_float(x, y, rel):
    if x != x or y != y:
        return x != x and y != y
    if x == y:
        return rel is not None or (math.copysign(1.0, x) == math.copysign(1.0, y))
    if rel is None or x in (float("inf"), float("-inf")) or y in (float("inf"), float("-inf")):
        return False
    return abs(x - y) <= rel * max(abs(x), abs(y))


def same_number(got, want, rel=None):
    """type-exact comparison; floats by value incl. sign of zero and nan==nan (rel: relative tolerance or None)"""
    if type(got) is not type(want):
        return False
    if type(want) is float:
        return _same_float(got, want, rel)
    if type(want) is complex:
        if _same_float(got.real, want.real, rel) and _same_float(got.imag, want.imag, rel):
            return True
        if rel is None:
            return False
        try:
            return abs(got - want) <= rel * abs(want)       # tolerance relative to the modulus, not per component
        except OverflowError:
            return False
    return got == want


@judge("pow")
def make_pow_judge(p):
    """C07: a ** b.

    p: akind/bkind in {"int", "float", "obj", "complex"} (static kind of the operand in the kernel);
       consta/constb: literal operand (encoded) or None (then taken from args in order);
       res: "object" | "double" | "float" | "soft" | "complex" | [lo, hi] (C integer result type);
       cpow: bool.
    Oracle (DESIGN C07 ii/iii): object result -> CPython's operator.pow on the same Python values, exactly;
    C double result -> CPython's float result / exception where Python also yields a float (int base with a
    non-negative int exponent is the documented exception: Python would give an int, compared with
    float(a) ** float(b)); NaN where the result would be complex (cpow=True row); soft complex -> CPython's
    float or complex result; C integer result -> exact when b >= 0 and a**b fits, otherwise unspecified.
    """
    akind, bkind, res, cpow = p["akind"], p["bkind"], p["res"], p["cpow"]
    consta = decode_num(p["consta"]) if p.get("consta") is not None else None
    constb = decode_num(p["constb"]) if p.get("constb") is not None else None
    rel = p.get("rel")

    def operands(args):
        it = iter(args)
        a = consta if consta is not None else decode_num(next(it))
        b = constb if constb is not None else decode_num(next(it))
        return a, b

    def pyres(a, b):
        try:
            return a ** b
        except Exception as e:      # noqa
            return Exc("!" + type(e).__name__)

    def expect(args):
        a, b = operands(args)
        nt = False
        try:
            nt = (b != b) or b < 0 or b == 0 or b > 3 or a <= 0
        except TypeError:
            nt = True
        if isinstance(res, list):
            if not (type(b) is int and type(a) is int) or b < 0:
                return SKIP, False, "excluded:int-result-negative-exponent"
            if b > 200 and abs(a) > 1:
                return SKIP, False, "excluded:int-result-does-not-fit"
            v = a ** b
            if not res[0] <= v <= res[1]:
                return SKIP, False, "excluded:int-result-does-not-fit"
            return v, nt, "int-result"
        if res == "object":
            if type(b) is int and b > 5000 and type(a) is int and abs(a) > 1:
                return SKIP, False, "excluded:huge"
            return pyres(a, b), nt, "object-result"
        if res == "complex" or isinstance(a, complex) or isinstance(b, complex):
            ca, cb = complex(a), complex(b)
            if a == 0 or any(x != x or abs(x) == float("inf") for x in (ca.real, ca.imag, cb.real, cb.imag)):
                return SKIP, False, "excluded:complex-special-values"      # special values of complex pow are C08's
            r = pyres(complex(a), b)
            if isinstance(r, Exc):
                return SKIP, False, "excluded:complex-exception"
            if r.real != r.real or r.imag != r.imag or abs(r.real) == float("inf") or abs(r.imag) == float("inf"):
                return SKIP, False, "excluded:complex-nonfinite"
            return r, nt, "complex-result"
        # real or soft-complex C result: operands are C numbers -> Python float semantics
        if type(a) is int and type(b) is int and b >= 0:
            # Python would produce an int here, Cython documents a C double: compare with the C computation
            try:
                r = float(a) ** float(b)
            except OverflowError:
                return SKIP, False, "excluded:double-for-python-int-overflow"
            return r, nt, "double-for-python-int"
        try:
            fa, fb = float(a), float(b)
        except OverflowError:
            return SKIP, False, "excluded:operand-not-a-double"
        if cpow and res != "soft" and fa < 0 and fa != float("-inf") and fb == fb and abs(fb) != float("inf") and fb != int(fb):
            return float("nan"), True, "real-result:nan-for-complex"      # documented: NaN if the result would be complex
        r = pyres(fa, fb)
        if isinstance(r, complex):
            if res == "soft":
                return r, True, "soft-complex:complex"
            return float("nan"), True, "real-result:nan-for-complex"
        if isinstance(r, Exc):
            return r, True, "float-pow:" + r[1:]
        if res == "float":
            return r, nt, "float32-result"
        return r, nt, ("soft-complex:real" if res == "soft" else "double-result")

    def verdict(args, got, w):
        tol = rel
        if res == "float" or res == "complex":
            tol = tol or (1e-5 if res == "float" else 1e-12)
        elif res == "double":
            # C07 claims the result TYPE for C results and exact values only for integer powers (judged by the integer
            # model) and for Python-typed results: a C double may be computed by a different but equivalent C
            # expression (x ** -1 -> 1.0 / x, x ** 2 -> x * x), i.e. differ from libm's pow() in the last bit or two
            tol = tol or 1e-15
        if res in ("soft", "complex") and type(w) is complex and type(got) is float and w.imag == 0 and _same_float(got, w.real, 1e-12):
            return None
        if res == "soft" and type(w) is complex:
            # complex pow is computed by a different formula than CPython's (exactness of complex arithmetic is C08's);
            # a complex whose imaginary part is exactly zero (underflow) is numerically equal to the float Cython returns
            tol = tol or 1e-12
            if w.imag == 0 and type(got) is float and _same_float(got, w.real, tol):
                return None
        if isinstance(w, Exc):
            if isinstance(got, Exc):
                return None if got == w else "raises:%s-instead-of-%s" % (got[1:], w[1:])
            if type(got) is float and abs(got) == float("inf"):
                return "inf-instead-of-" + w[1:]
            if type(got) is complex:
                return "complex-instead-of-" + w[1:]
            return "value-instead-of-" + w[1:]
        if isinstance(got, Exc):
            return "raises:" + got[1:]
        if res == "float" and type(got) is float and type(w) is float:
            if w != w or got != got:
                return None if (w != w and got != got) else "wrong-value"
            if abs(w) > 3.4e38 or (w != 0 and abs(w) < 1.2e-38):
                return None        # outside float32's normal range: inf / 0 / denormal by design
        if same_number(got, w, tol):
            return None
        if type(got) is not type(w):
            return "result-type:%s-instead-of-%s" % (type(got).__name__, type(w).__name__)
        if type(w) in (float, complex) and same_number(got, w, 1e-9):
            return "last-digits-differ"
        return "wrong-value"

    return Judge(expect, verdict)


# ------------------------------------------------------------------------------ C08: complex arithmetic
class WithComplex:
    def __init__(self, z):
        self.z = z

    def __complex__(self):
        return self.z


def _special(x):
    return x != x or x in (float("inf"), float("-inf")) or x == 0 or abs(x) >= 1e300 or abs(x) <= 1e-300


CPLX_OPS = {
    "add": lambda a, b: a + b, "sub": lambda a, b: a - b, "mul": lambda a, b: a * b, "div": lambda a, b: a / b,
    "pow": lambda a, b: a ** b, "neg": lambda a: -a, "abs": lambda a: abs(a), "eq": lambda a, b: a == b,
    "ne": lambda a, b: a != b, "real": lambda a: a.real, "imag": lambda a: a.imag, "conj": lambda a: a.conjugate(),
    "id": lambda a: complex(a), "bool": lambda a: bool(a),
}


@judge("cplx")
def make_cplx_judge(p):
    """C08: C double complex arithmetic vs Python complex.

    p: op (key of CPLX_OPS); cdivision (bool, for div); consta/constb: literal operand (encoded) or None;
       tol: None = exact (float.hex equality incl. sign of zero, nan == nan) | relative tolerance on the modulus;
       finite_only: skip operands / results with non-finite components (native C99 _Complex build);
       soft: result may be a float when the imaginary part is exactly zero (soft complex).
    Skipped: inputs for which Python raises OverflowError or a pow ZeroDivisionError (no Python value to compare);
    division by zero under cdivision (C semantics, unspecified).
    """
    op, cdiv, tol, finite_only, soft = p["op"], p.get("cdivision", False), p.get("tol"), p.get("finite_only", False), p.get("soft", False)
    consta = decode_num(p["consta"]) if p.get("consta") is not None else None
    constb = decode_num(p["constb"]) if p.get("constb") is not None else None
    fn = CPLX_OPS[op]
    nargs = fn.__code__.co_argcount

    def comps(x):
        if isinstance(x, complex):
            return (x.real, x.imag)
        if isinstance(x, float):
            return (x,)
        return ()

    def expect(args):
        it = iter(args)
        vals = []
        a = consta if consta is not None else decode_num(next(it))
        vals.append(a)
        if nargs == 2:
            vals.append(constb if constb is not None else decode_num(next(it)))
        cs = [c for v in vals for c in comps(v)]
        nonfinite = any(c != c or abs(c) == float("inf") for c in cs)
        if finite_only and nonfinite:
            return SKIP, False, "excluded:non-finite-operand(native-complex-build)"
        if p.get("skip_extreme") and any(c != 0 and (abs(c) >= 1e60 or abs(c) <= 1e-60) for c in cs):
            return SKIP, False, "excluded:extreme-magnitude-operand(native-complex-build)"
        nt = any(_special(c) for c in cs)
        if op == "div":
            b = vals[1]
            if b == 0:
                if cdiv:
                    return SKIP, False, "excluded:cdivision-zero-divisor"
                return ZDE, True, "zero-divisor"
            bc = complex(b)
            if bc.real != 0 and bc.imag != 0:
                nt = nt or True
        try:
            r = fn(*vals)
        except OverflowError:
            return SKIP, False, "excluded:python-raises-OverflowError"
        except ZeroDivisionError:
            return SKIP, False, "excluded:python-pow-ZeroDivisionError"
        if finite_only and any(c != c or abs(c) == float("inf") for c in comps(r)):
            return SKIP, False, "excluded:non-finite-result(native-complex-build)"
        return r, nt, "special-component" if nt else "ordinary"

    skip_extreme = p.get("skip_extreme", False)

    def _operands(args):
        it = iter(args)
        vals = [consta if consta is not None else decode_num(next(it))]
        if nargs == 2:
            vals.append(constb if constb is not None else decode_num(next(it)))
        return vals

    def verdict(args, got, w):
        if isinstance(w, Exc):
            if isinstance(got, Exc) and got == w:
                return None
            return ("raises:" + got[1:]) if isinstance(got, Exc) else "value-instead-of-" + w[1:]
        if isinstance(got, Exc):
            return "raises:" + got[1:]
        if soft and type(w) is complex and type(got) is float:
            got = complex(got, w.imag if w.imag == 0 else 0.0)      # soft complex collapses a zero imaginary part
        if same_number(got, w, tol):
            return None
        if type(got) is not type(w):
            return "result-type:%s-instead-of-%s" % (type(got).__name__, type(w).__name__)
        vals = _operands(args)
        cs = [c for v in vals for c in comps(v)]
        cg, cw = comps(got), comps(w)
        if op == "pow" and vals[0] == 0:
            return "pow-zero-base"
        if all(x == y or (x != x and y != y) for x, y in zip(cg, cw)):
            return "zero-sign"
        if any(c != c or abs(c) == float("inf") for c in cs):
            return "nonfinite-operand"
        if any(c != 0 and (abs(c) >= 1e60 or abs(c) <= 1e-60) for c in cs):
            return "extreme-magnitude-operand"
        if op == "pow" and isinstance(vals[0], complex) and vals[0].imag == 0 and vals[0].real < 0 \
                and math.copysign(1.0, vals[0].imag) < 0:
            return "branch-cut-negative-zero-imag"
        if type(w) is complex and type(got) is complex and w.imag != 0 and got.imag != 0 and (w.imag < 0) != (got.imag < 0) \
                and abs(w.imag) > 1e-9 * abs(w) and same_number(got, w.conjugate(), 1e-13):
            return "conjugate"
        if same_number(got, w, 1e-13):
            return "last-bits-differ"
        if any(x != x or abs(x) == float("inf") for x in cg + cw):
            return "nonfinite-result"        # finite operands, overflowing / invalid intermediate on one side
        if any(x != 0 and abs(x) < 1e-290 for x in cg + cw) and same_number(got, w, 1e-9):
            # result in the gradual-underflow range: intermediate products are subnormal, a few more bits are lost
            return None if finite_only else "last-bits-differ"
        if op == "pow" and len(vals) == 2:
            if all(x == 0 for x in cw) and all(abs(x) < 1e-100 for x in cg):
                # CPython's formula pow(|a|, b.real) * exp(-b.imag * arg(a)) underflows in the first factor and returns 0
                # although the mathematical result is a tiny normal number (which the C library computes)
                return "python-underflows-to-zero"
            try:
                cond = abs(complex(vals[1]) * cmath.log(complex(vals[0])))
            except (ValueError, OverflowError, ZeroDivisionError):
                cond = 0.0
            if cond > 1e6:
                # a ** b = exp(b * log(a)): a rounding error of one ulp in log(a) is amplified by |b * log(a)|; beyond 1e6
                # the two implementations legitimately disagree in more than the last 10 digits (the phase b.imag*ln|a|
                # of a 1e20 exponent is noise on both sides)
                return "ill-conditioned-exponent"
        return "wrong-value"

    return Judge(expect, verdict)


# ------------------------------------------------------------------------------------- C38: cython.cast
def cast_want(target, v):
    """C semantics of cython.cast(target, v) for an in-range value v (pure-mode type names)."""
    if target in ("cython.int", "cython.long", "cython.short", "cython.longlong", "cython.schar", "TD_INT"):
        return int(v)                       # C: truncation toward zero
    if target in ("cython.double", "cython.float", "TD_DBL"):
        return float(v)
    if target == "cython.bint":
        return bool(v)
    return v


@judge("purecast")
def make_purecast_judge(p):
    target = p["target"]

    def expect(args):
        v = decode_num(args[0])
        nt = isinstance(v, float) and v != int(v)
        return ("want", cast_want(target, v), v), bool(nt), "cast"

    def verdict(args, got, w):
        _, want, v = w
        if isinstance(got, Exc):
            return "raises:" + got[1:]
        if target == "object":
            return None if (got == want and type(got) is type(want)) else "wrong-value"
        if type(got) is not type(want):
            return "result-type:" + type(got).__name__
        return None if same_number(got, want) else "wrong-value"
    return Judge(expect, verdict)


@judge("cdivabs")
def make_cdivabs_judge(p):
    """C38: cython.cdiv(a, abs(b) + 1) / cython.cmod(a, abs(b) + 1): exact C99 semantics on in-range values."""
    idx = 0 if p["fn"] == "cdiv" else 1

    def expect(args):
        a, b = args
        w = c_divmod(a, abs(b) + 1)[idx]
        nt = a < 0 and a % (abs(b) + 1) != 0
        return w, nt, "signs-differ,rem!=0" if nt else "other"

    def verdict(args, got, w):
        if isinstance(got, Exc):
            return "raises:" + got[1:]
        if type(got) is not int:
            return "result-type:" + type(got).__name__
        if got == w:
            return None
        a, b = args
        q, r = divmod(a, abs(b) + 1)
        return "python-semantics-instead-of-c" if got == (q, r)[idx] else "wrong-value"
    return Judge(expect, verdict)


# ----------------------------------------------------------------------------------------------- driver
def run(M, spec_json):
    """Runner entry point: drive kernel spec["k"] of module M over spec["inputs"], judge every outcome."""
    spec = json.loads(spec_json)
    f = getattr(M, spec["k"])
    jf = JUDGES[spec["judge"][0]](spec["judge"][1])
    expect, verdict = jf.expect, jf.verdict
    maxbad = spec.get("maxbad", 12)
    maxnt = spec.get("maxnt", 24)
    n = skip = nt = nbad = 0
    bad = []
    cls = {}
    ntkeys = []
    enc = spec.get("enc")
    for args in inputs(spec["inputs"]):
        w, isnt, cl = expect(args)
        cls[cl] = cls.get(cl, 0) + 1
        if w is SKIP:
            skip += 1
            continue
        try:
            if enc == "num":
                got = f(*[decode_num(v) for v in args])
            elif enc:
                with warnings.catch_warnings():
                    warnings.simplefilter("ignore")
                    got = f(*[decode_value(v) for v in args])
            else:
                got = f(*args)
        except Exception as e:      # noqa
            got = Exc("!" + type(e).__name__)
        n += 1
        if isnt:
            nt += 1
            if len(ntkeys) < maxnt and ((nt & (nt - 1)) == 0 or nt % 997 == 0):
                ntkeys.append(list(args))
        v = verdict(args, got, w)
        if v is not None and v[0] == "~":
            cls[v] = cls.get(v, 0) + 1       # tolerated, counted (e.g. spurious OverflowError)
        elif v is not None:
            nbad += 1
            if len(bad) < maxbad or not any(b[0] == v for b in bad):
                bad.append([v, list(args), repr(got), repr(w)])
    return json.dumps({"n": n, "skip": skip, "nt": nt, "nbad": nbad, "bad": bad, "cls": cls, "ntkeys": ntkeys})
