"""Source-only view of the tree under test (DESIGN.md §2.1).

/repo is a develop install with *compiled* compiler modules; Python prefers the
.so files, so edits to e.g. Code.py would be invisible.  prepare() builds a
pure-source copy of the current working tree and puts it first on sys.path.
"""
import atexit
import os
import shutil
import subprocess
import sys
import tempfile

REPO = os.environ.get("VERIF_REPO", "/repo")
_state = {}


def workdir():
    """Per-process-tree scratch directory; removed at exit of the creating process."""
    w = os.environ.get("CYVERIF_WORK")
    if w and os.path.isdir(w):
        return w
    w = tempfile.mkdtemp(prefix="cyverif.", dir=os.environ.get("CYVERIF_TMP", "/tmp"))
    os.environ["CYVERIF_WORK"] = w
    owner = os.getpid()

    def _cleanup():
        if os.getpid() == owner and not os.environ.get("CYVERIF_KEEP"):
            shutil.rmtree(w, ignore_errors=True)
    atexit.register(_cleanup)
    return w


def prepare(activate=True):
    """Create (once) the source view and return its path ($W/cy)."""
    w = workdir()
    view = os.path.join(w, "cy")
    if not os.path.isdir(os.path.join(view, "Cython")):
        os.makedirs(view, exist_ok=True)
        subprocess.run(
            ["rsync", "-a", "--exclude", "*.so", "--exclude", "__pycache__",
             "--exclude", "*.pyc", "--exclude", "/Cython/*.c", "--exclude", "/Cython/Compiler/*.c",
             "--exclude", "/Cython/Plex/*.c", "--exclude", "/Cython/Tempita/*.c",
             "--exclude", "/Cython/Runtime/*.c", "--exclude", "/Cython/Build/*.c",
             "--exclude", "/Cython/Tests", "--exclude", "/Cython/*/Tests",
             "--exclude", "/Cython/Debugger",
             os.path.join(REPO, "Cython"), view + "/"], check=True)
        shutil.copy(os.path.join(REPO, "cython.py"), view)
        if os.path.isdir(os.path.join(REPO, "pyximport")):
            shutil.copytree(os.path.join(REPO, "pyximport"), os.path.join(view, "pyximport"),
                            ignore=shutil.ignore_patterns("__pycache__", "test"))
    if activate:
        activate_view(view)
    os.environ["CYVERIF_VIEW"] = view
    return view


def activate_view(view=None):
    view = view or os.environ["CYVERIF_VIEW"]
    if view in sys.path:
        sys.path.remove(view)
    sys.path.insert(0, view)
    # drop an already imported (stale, compiled) Cython
    for name in list(sys.modules):
        if name == "Cython" or name.startswith("Cython.") or name == "cython":
            mod = sys.modules[name]
            f = getattr(mod, "__file__", "") or ""
            if not f.startswith(view):
                del sys.modules[name]
    pp = os.environ.get("PYTHONPATH", "")
    parts = [p for p in pp.split(os.pathsep) if p and p != view]
    os.environ["PYTHONPATH"] = os.pathsep.join([view] + parts)
    return view


def assert_source_view():
    import Cython.Compiler.Code as C
    import Cython.Compiler.Parsing as P
    view = os.environ["CYVERIF_VIEW"]
    for m in (C, P):
        assert m.__file__.startswith(view) and m.__file__.endswith(".py"), m.__file__
