"""Runner subprocess: loads one module (compiled .so or Python source) and executes cases.

usage: python runner_main.py job.json
Protocol (job["out"], line oriented, flushed):  "B i" before case i, "R i <json>" after.
A missing R after a B means the process died in case i (crash isolation, DESIGN §2.3).
"""
import gc
import importlib.machinery
import importlib.util
import json
import os
import re
import sys

_ADDR = re.compile(r"0x[0-9a-fA-F]+")


def canon(v, depth=0):
    if depth > 12:
        return ["deep"]
    t = type(v)
    if v is None:
        return ["None"]
    if t is bool:
        return ["bool", repr(v)]
    if t is int:
        return ["int", repr(v) if abs(v) < 10**300 else hex(v)]
    if t is float:
        return ["float", "nan" if v != v else v.hex()]
    if t is complex:
        return ["complex", canon(v.real), canon(v.imag)]
    if t is str:
        return ["str", ascii(v)]
    if t is bytes or t is bytearray:
        return [t.__name__, ascii(bytes(v))]
    if t is tuple or t is list:
        return [t.__name__, [canon(x, depth + 1) for x in v]]
    if t is dict:
        return ["dict", [[canon(k, depth + 1), canon(x, depth + 1)] for k, x in v.items()]]
    if t is set or t is frozenset:
        items = [canon(x, depth + 1) for x in v]
        items.sort(key=lambda c: json.dumps(c, sort_keys=True))
        return [t.__name__, items]
    if v is Ellipsis:
        return ["Ellipsis"]
    if v is NotImplemented:
        return ["NotImplemented"]
    if isinstance(v, BaseException):
        return ["excval", t.__qualname__, canon(v.args, depth + 1)]
    if isinstance(v, type):
        return ["type", v.__qualname__]
    if t in (range, slice):
        return [t.__name__, repr(v)]
    if t is memoryview:
        return ["memoryview", ascii(v.tobytes()), v.format, list(v.shape or ())]
    c = getattr(v, "__canon__", None)
    if c is not None and not isinstance(v, type):
        try:
            return ["objc", t.__qualname__, canon(c(), depth + 1)]
        except Exception as e:  # pragma: no cover
            return ["objc-err", t.__qualname__, type(e).__name__]
    tn = t.__name__
    if tn in ("function", "cython_function_or_method", "builtin_function_or_method", "method",
              "fused_cython_function", "method_descriptor", "wrapper_descriptor"):
        return ["callable", getattr(v, "__name__", "?")]
    if tn in ("generator", "coroutine", "async_generator"):
        return ["obj", tn]
    # subclasses of builtins
    for base, nm in ((bool, "bool"), (int, "int"), (float, "float"), (complex, "complex"), (str, "str"),
                     (bytes, "bytes"), (bytearray, "bytearray"), (tuple, "tuple"), (list, "list"),
                     (dict, "dict"), (set, "set"), (frozenset, "frozenset")):
        if isinstance(v, base):
            try:
                inner = canon(base(v), depth + 1)
            except Exception as e:
                inner = ["conv-err", type(e).__name__]
            return ["sub", t.__qualname__, inner]
    try:
        if t.__repr__ is not object.__repr__:
            return ["obj", t.__qualname__, _ADDR.sub("0x", ascii(v))[:400]]
    except Exception as e:
        return ["obj", t.__qualname__, "repr-err:" + type(e).__name__]
    return ["obj", t.__qualname__]


def outcome_of(thunk):
    try:
        v = thunk()
    except BaseException as e:
        if isinstance(e, (KeyboardInterrupt, SystemExit)):
            return ["exc", type(e).__qualname__, canon(e.args)]
        return ["exc", type(e).__qualname__, canon(e.args)]
    return ["ok", canon(v)]


def load_module(mode, path, name):
    if mode == "so":
        loader = importlib.machinery.ExtensionFileLoader(name, path)
    else:
        loader = importlib.machinery.SourceFileLoader(name, path)
    spec = importlib.util.spec_from_file_location(name, path, loader=loader)
    mod = importlib.util.module_from_spec(spec)
    sys.modules[name] = mod
    spec.loader.exec_module(mod)
    if mode == "so":
        assert mod.__file__.endswith(".so"), mod.__file__
    return mod


def main():
    sys.dont_write_bytecode = True
    job = json.load(open(sys.argv[1]))
    for p in job.get("syspath", []):
        if p not in sys.path:
            sys.path.insert(0, p)
    sys.setrecursionlimit(job.get("recursionlimit", 3000))
    if job.get("mem_limit"):
        import resource
        resource.setrlimit(resource.RLIMIT_AS, (job["mem_limit"], job["mem_limit"]))
    out = open(job["out"], "a", buffering=1)
    ns = {}
    exec("import sys, math, gc, operator, collections, fractions, decimal, itertools, functools\n"
         "from fractions import Fraction\nfrom decimal import Decimal\n", ns)
    for sp in job.get("support", []):
        spec = importlib.util.spec_from_file_location(os.path.splitext(os.path.basename(sp))[0], sp)
        m = importlib.util.module_from_spec(spec)
        sys.modules[spec.name] = m
        spec.loader.exec_module(m)
        ns[spec.name] = m
        if spec.name == "vsupport":
            ns["S"] = m
    start = job.get("start", 0)
    if start == 0 or not job.get("import_failed"):
        out.write("B -1\n")
        try:
            M = load_module(job["mode"], job["path"], job["name"])
        except BaseException as e:
            out.write("R -1 %s\n" % json.dumps(["exc", type(e).__qualname__, canon(e.args)]))
            return
        out.write("R -1 %s\n" % json.dumps(["ok", ["None"]]))
    ns["M"] = M
    if job.get("setup"):
        exec(job["setup"], ns)
    cases = job["cases"]
    import signal
    case_timeout = int(job.get("case_timeout", 20))
    log_attr = job.get("log_attr", "LOG")
    for i in range(start, len(cases)):
        c = cases[i]
        out.write("B %d\n" % i)
        signal.alarm(case_timeout)     # default action kills the process: hang -> "timeout" outcome for case i
        log = getattr(M, log_attr, None)
        if isinstance(log, list):
            del log[:]
        if "pre" in c:
            try:
                exec(c["pre"], ns)
            except BaseException as e:
                out.write("R %d %s\n" % (i, json.dumps(["pre-exc", type(e).__qualname__, canon(e.args)])))
                continue
        code = c["expr"]
        res = outcome_of(lambda: eval(code, ns))
        log = getattr(M, log_attr, None)
        if isinstance(log, list) and (log or job.get("always_log")):
            res.append(["log", [canon(x) for x in log]])
        if "post" in c:
            res.append(["post", outcome_of(lambda: eval(c["post"], ns))])
        out.write("R %d %s\n" % (i, json.dumps(res)))
        signal.alarm(0)
    out.close()
    sys.stdout.flush()
    sys.stderr.flush()
    if job.get("fast_exit", True):
        os._exit(0)


if __name__ == "__main__":
    main()
