"""Check-side half of engine E3 (typed kernel tables): run batches of inputs against compiled kernels in a
runner subprocess (one runner case per batch, judged inside the runner by vlib/cintmodel.py or another
self-contained model module), decode the summaries, record them into a harness.Part, localise crashes by
bisection, and replay single inputs.

A *spec* is a dict:
    k        kernel (function) name in the compiled module
    judge    [judge name, params]              (see cintmodel.JUDGES)
    inputs   input spec                        (see cintmodel.inputs)
    label    class-histogram label of the kernel ("T=int|op=//|mode=py|div=var")
    bucket   root-cause bucket prefix for violations of this kernel
    src      self-contained module source containing (at least) this kernel, for the replay file
    build    {"ext": ".pyx", "directives": {...}, "defines": [...]}  build parameters for the replay
    risky    True if a crash is a plausible outcome (single input per spec!)
"""
import ast
import json
import os

from . import cintmodel, cybuild, runner

MODEL_PATH = os.path.abspath(cintmodel.__file__)
if MODEL_PATH.endswith(".pyc"):
    MODEL_PATH = MODEL_PATH[:-1]


def _wire(spec):
    return {"k": spec["k"], "judge": spec["judge"], "inputs": spec["inputs"], "enc": spec.get("enc"),
            "maxbad": spec.get("maxbad", 12), "maxnt": spec.get("maxnt", 24)}


def _expr(spec, model="cintmodel"):
    return "%s.run(M, %r)" % (model, json.dumps(_wire(spec)))


def _decode(outcome):
    """runner outcome -> summary dict | ("crash", sig, tail) | ("timeout",) | ("error", text)"""
    if outcome[0] == "ok" and outcome[1][0] == "str":
        return json.loads(ast.literal_eval(outcome[1][1]))
    if outcome[0] == "crash":
        return ("crash", outcome[1], outcome[2][-400:] if len(outcome) > 2 else "")
    if outcome[0] == "timeout":
        return ("timeout",)
    return ("error", json.dumps(outcome)[:600])


def run_raw(so, modname, specs, support=(), model="cintmodel", env=None, case_timeout=120, timeout=1800):
    cases = [{"expr": _expr(s, model)} for s in specs]
    imp, outs = runner.run_cases("so", so, modname, cases, env=env, case_timeout=case_timeout, timeout=timeout,
                                 support=(runner.VSUPPORT, MODEL_PATH) + tuple(support), max_restarts=len(cases) + 5)
    if imp[0] != "ok":
        raise RuntimeError("kernel module %s failed to import: %r" % (modname, imp))
    return [_decode(o) for o in outs]


def replay_case_of(spec, args):
    return {"kind": "kernel", "k": spec["k"], "judge": spec["judge"], "args": list(args), "src": spec["src"],
            "build": spec.get("build", {"ext": ".pyx"}), "label": spec["label"], "enc": spec.get("enc")}


def locate_crash(so, modname, spec, env=None):
    """Bisect the input list of a crashing batch down to one input (<= ~20 runner launches)."""
    items = cintmodel.inputs(spec["inputs"])
    if not items:
        return None

    def crashes(sub):
        s = dict(spec, inputs={"kind": "list", "items": [list(t) for t in sub]})
        r = run_raw(so, modname, [s], env=env)[0]
        return isinstance(r, tuple) and r[0] == "crash"
    if len(items) > 1 and not crashes(items):
        return None
    while len(items) > 1:
        half = items[:len(items) // 2]
        if crashes(half):
            items = half
        else:
            items = items[len(items) // 2:]
    return items[0]


def run_specs(so, modname, specs, part, env=None, keyprefix=None):
    """Run specs, record evaluations / classes / sampled non-trivial keys / violations into part.

    Returns the number of (kernel, input) evaluations.  Exact non-trivial counts go to
    part.counters["nt_exact"] (inputs are de-duplicated per spec, so the sum over specs is the number of
    distinct non-trivial (kernel, input) cases); part.nt receives a bounded sample of them (the harness keeps a
    hash per distinct case, which is not affordable for 10^7 cases)."""
    results = run_raw(so, modname, specs, env=env)
    total = 0
    for spec, res in zip(specs, results):
        label = spec["label"]
        if isinstance(res, tuple):
            if res[0] == "crash":
                where = None
                if spec.get("risky") or len(cintmodel.inputs(spec["inputs"])) == 1:
                    it = cintmodel.inputs(spec["inputs"])
                    where = it[0] if it else None
                else:
                    where = locate_crash(so, modname, spec, env=env)
                part.count("crashes")
                part.evaluations += 1
                cl = spec.get("crash_class") or ("input=%s" % ("located" if where is not None else "unlocated"))
                part.violation("crash:%s|%s|%s" % (res[1], spec["bucket"], cl),
                               replay_case_of(spec, where if where is not None else ()),
                               "kernel %s%r killed the process with %s (%s) %s" % (
                                   spec["k"], tuple(where) if where is not None else "(?)", res[1], label, res[2][-200:]))
            elif res[0] == "timeout":
                part.count("timeouts")
            else:
                raise RuntimeError("driver error for %s: %s" % (label, res[1]))
            continue
        n = res["n"]
        total += n
        part.evaluations += n
        part.counters["nt_exact"] += res["nt"]
        part.counters["excluded_out_of_domain"] += res["skip"]
        part.classes[label] += n
        for cl, c in res["cls"].items():
            part.classes["in:" + cl] += c
        for i, args in enumerate(res["ntkeys"]):
            part.evaluations -= 1      # part.case adds it back
            part.case([keyprefix or modname, spec["k"], args], True, None,
                      sample={"kernel": label, "source": kernel_text(spec), "args": args,
                              "expected": "judged by %s%s" % (spec["judge"][0], json.dumps(spec["judge"][1]))[:300]})
        seen = set()
        for verdict, args, got, want in res["bad"]:
            bucket = "%s|%s" % (spec["bucket"], verdict)
            if bucket in seen:
                continue
            seen.add(bucket)
            part.violation(bucket, replay_case_of(spec, args),
                           "%s: %s%r returned %s, expected %s (%d of %d inputs of this batch disagree)" % (
                               label, spec["k"], tuple(args), got, want, res["nbad"], n))
    return total


def kernel_text(spec):
    return spec.get("ktext") or spec["k"]


def replay(ctx, case, model="cintmodel"):
    """Rebuild the one-kernel module of a saved case and re-judge the single input in a fresh runner."""
    b = case.get("build") or {}
    outdir = os.path.join(ctx.work, "ktreplay", cybuild.sha12(json.dumps(case, sort_keys=True, default=repr)))
    name = "ktr_" + cybuild.sha12(case["src"])
    so = cybuild.build(case["src"], name, outdir, ext=b.get("ext", ".pyx"), directives=b.get("directives"),
                       defines=b.get("defines"), cplus=b.get("cplus", False))
    spec = {"k": case["k"], "judge": case["judge"], "inputs": {"kind": "list", "items": [case["args"]]},
            "label": case.get("label", "?"), "enc": case.get("enc")}
    res = run_raw(so, name, [spec], model=model)[0]
    if isinstance(res, tuple):
        if res[0] == "crash":
            return True, "%s%r killed the process with %s" % (case["k"], tuple(case["args"]), res[1])
        return False, "inconclusive: %r" % (res,)
    if res["bad"]:
        v, args, got, want = res["bad"][0]
        return True, "%s: %s%r returned %s, expected %s [%s]" % (case.get("label"), case["k"], tuple(args), got, want, v)
    return False, "agrees with the model (n=%d, skipped=%d)" % (res["n"], res["skip"])
