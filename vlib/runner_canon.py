"""Expose runner_main.canon to setup code running inside the runner (the runner is __main__ there)."""
import sys

canon = sys.modules["__main__"].canon
