"""Generic greedy reducer over Python source (statement deletion / block hoisting) - DESIGN §2.4 step 3."""
import ast


def _stmt_lists(tree):
    out = []
    for node in ast.walk(tree):
        for field in ("body", "orelse", "finalbody"):
            lst = getattr(node, field, None)
            if isinstance(lst, list) and lst and isinstance(lst[0], ast.stmt):
                out.append(lst)
        if isinstance(node, ast.Try):
            for h in node.handlers:
                pass  # handlers' bodies are reached through walk (ExceptHandler has body)
    return out


def reduce_source(src, predicate, budget=40, keep_names=()):
    """Greedily delete statements from src while predicate(new_src) stays True.
    predicate is expensive (recompile); at most `budget` calls."""
    try:
        tree = ast.parse(src)
    except SyntaxError:
        return src
    calls = [0]
    best = src

    def attempt(t):
        if calls[0] >= budget:
            return False
        try:
            text = ast.unparse(t)
            compile(text, "<reduce>", "exec")
        except Exception:
            return False
        calls[0] += 1
        try:
            return bool(predicate(text))
        except Exception:
            return False

    progress = True
    while progress and calls[0] < budget:
        progress = False
        for lst in _stmt_lists(tree):
            i = len(lst) - 1
            while i >= 0 and calls[0] < budget:
                node = lst[i]
                if isinstance(node, (ast.FunctionDef, ast.ClassDef)) and node.name in keep_names:
                    i -= 1
                    continue
                if isinstance(node, ast.Return) and lst is not None and i == len(lst) - 1 and False:
                    i -= 1
                    continue
                removed = lst.pop(i)
                placeholder = None
                if not lst:
                    placeholder = ast.Pass()
                    lst.append(placeholder)
                if attempt(tree):
                    best = ast.unparse(tree)
                    progress = True
                else:
                    if placeholder is not None:
                        lst.remove(placeholder)
                    lst.insert(i, removed)
                    # try hoisting the body of a compound statement
                    inner = getattr(removed, "body", None)
                    if isinstance(removed, (ast.If, ast.For, ast.While, ast.With, ast.Try)) and isinstance(inner, list):
                        lst[i:i + 1] = inner
                        if attempt(tree):
                            best = ast.unparse(tree)
                            progress = True
                            tree = ast.parse(best)
                            break
                        lst[i:i + len(inner)] = [removed]
                i -= 1
            else:
                continue
            break
    return best
