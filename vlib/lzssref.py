"""Independent model of Cython's LZSS-like string-table stream (written from the format description in
Cython/LZSS.py and the comments of __pyx_lzss_decompress; shares no code with either).

Stream = groups of [flag byte][up to 8 items]; flag bits are consumed LSB first; bit 1 = one literal byte; bit 0 =
back-reference:
    lo < 0x80                : 2 bytes  gap = lo (7 bit)                          length = hi + 3        ("7bit")
    lo >= 0x80, hi < 0x80    : 2 bytes  gap = 0x80 + ((hi & 0x60) << 2 | lo&0x7f) length = (hi & 0x1f)+3 ("9bit")
    lo >= 0x80, hi >= 0x80   : 3 bytes  gap = 0x80 + ((hi & 0x7f) << 7 | lo&0x7f) length = third + 3     ("14bit")
`gap` is the distance between the END of the earlier occurrence and the current output position.  Decoding stops as
soon as `n` output bytes exist; unused flag bits of the last group are padding.
"""


class StreamError(Exception):
    pass


def decode(stream, n):
    """-> (output bytes, consumed, tokens) with tokens = [(kind, out_start, length, gap)], kind in
    "lit" / "7bit" / "9bit" / "14bit".  Raises StreamError on a stream that cannot be decoded to n bytes."""
    out = bytearray()
    tokens = []
    pos = 0
    L = len(stream)
    if n == 0:
        return b"", 0, tokens
    while True:
        if pos >= L:
            raise StreamError("stream ends before %d bytes are produced (have %d)" % (n, len(out)))
        flags = stream[pos]
        pos += 1
        for bit in range(8):
            if (flags >> bit) & 1:
                if pos >= L:
                    raise StreamError("literal beyond end of stream")
                tokens.append(("lit", len(out), 1, None))
                out.append(stream[pos])
                pos += 1
            else:
                if pos + 1 >= L:
                    raise StreamError("back-reference beyond end of stream")
                lo = stream[pos]
                hi = stream[pos + 1]
                pos += 2
                if lo < 0x80:
                    kind, gap, length = "7bit", lo, hi + 3
                elif hi < 0x80:
                    kind, gap, length = "9bit", 0x80 + (((hi & 0x60) << 2) | (lo & 0x7F)), (hi & 0x1F) + 3
                else:
                    if pos >= L:
                        raise StreamError("3-byte back-reference beyond end of stream")
                    kind, gap, length = "14bit", 0x80 + (((hi & 0x7F) << 7) | (lo & 0x7F)), stream[pos] + 3
                    pos += 1
                start = len(out) - gap - length
                if start < 0:
                    raise StreamError("back-reference before start of output (gap %d, length %d at %d)" % (gap, length, len(out)))
                tokens.append((kind, len(out), length, gap))
                out += out[start:start + length]
            if len(out) >= n:
                return bytes(out), pos, tokens
