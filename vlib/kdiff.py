"""E3 (differential flavour): kernel tables compared call-by-call against a reference *inside the runner*.

One module with MANY tiny kernels is compiled once; a driver function (exec'd in the runner through `setup`)
loops over kernels x input tuples inside the runner, calls the compiled kernel and the reference kernel on the
same operands and reports only the disagreements (plus a compact summary of the reference outcomes), so a
million calls are one JSON case.  (vlib/ktable.py is the model-judged sibling used by the C-integer checks.)

Reference kernels ("R"):
  * ref="source": the same module source exec'd by CPython inside the runner (pure-Python-valid kernels);
  * ref=<python source text>: a hand-written oracle module defining functions with the kernels' names
    (for .pyx kernels).

spec (JSON-able dict):
  values : list of python expression strings (evaluated once in the runner namespace: S, sys, math, Fraction,
           Decimal, ...) or {"fresh": "expr"} (evaluated anew for every call and for each side: mutable operands)
  inputs : {setname: [[value_index, ...], ...]}   argument tuples (indices into values)
  kernels: [{"name": "k0", "inputs": setname, "post": bool}]   post=True -> the (fresh) arguments after the call
           are part of the outcome (mutation check)
  exc_args: bool (default True)  compare exception args too; False -> exception TYPE only
  split_msg: bool (default False) with exc_args=True: disagreements that are only exception args/message text (same type,
           same post state) are reported separately (nmsg, msgmism) from real disagreements (nmis, mism)
  prelude : python source exec'd once in the runner namespace before the values are evaluated (helper classes)
Outcome tokens: type-tagged text (floats by hex, nan, big ints by hex, subclasses by qualname), exceptions as
"E:<Type>:<repr(args)>".
"""
import ast
import json
import os

from . import cybuild, runner, tree

DRIVER = r'''
import json as _kt_json, importlib.machinery as _kt_mach, importlib.util as _kt_util, sys as _kt_sys, re as _kt_re
_kt_addr = _kt_re.compile(r" at 0x[0-9a-fA-F]+")


def _kt_tok(v, _d=0):
    t = type(v)
    if t is int:
        return "i:%d" % v if -10**18 < v < 10**18 else "i:%x" % v
    if t is float:
        return "f:nan" if v != v else "f:" + v.hex()
    if t is bool:
        return "b:%r" % v
    if t is str:
        return "s:" + (_kt_addr.sub("", ascii(v)) if " at 0x" in v else ascii(v))
    if v is None:
        return "None"
    if t is bytes or t is bytearray:
        return t.__name__ + ":" + ascii(bytes(v))
    if t is tuple or t is list:
        if _d > 8:
            return "deep"
        return t.__name__ + "(" + ",".join([_kt_tok(x, _d + 1) for x in v]) + ")"
    if t is complex:
        return "c:" + _kt_tok(v.real) + "," + _kt_tok(v.imag)
    if t is dict:
        return "d{" + ",".join([_kt_tok(k, _d + 1) + "=" + _kt_tok(x, _d + 1) for k, x in v.items()]) + "}"
    if t is set or t is frozenset:
        return t.__name__ + "{" + ",".join(sorted([_kt_tok(x, _d + 1) for x in v])) + "}"
    c = getattr(v, "__canon__", None)
    if c is not None and not isinstance(v, type):
        return "o:" + t.__qualname__ + ":" + _kt_tok(c(), _d + 1)
    for base in (int, float, str, bytes, bytearray, tuple, list, dict, set, frozenset):
        if isinstance(v, base):
            return "sub:" + t.__qualname__ + ":" + _kt_tok(base(v), _d + 1)
    if isinstance(v, type):
        return "type:" + v.__qualname__
    try:
        return "o:" + t.__qualname__ + ":" + _kt_addr.sub("", ascii(v))[:300]
    except Exception as e:
        return "o:" + t.__qualname__ + ":repr-err"


def _kt_out(f, args, exc_args=True):
    try:
        v = f(*args)
    except Exception as e:
        if not exc_args:
            return "E:" + type(e).__qualname__ + ":"
        try:
            a = _kt_tok(e.args)
        except Exception:
            a = "?"
        return "E:" + type(e).__qualname__ + ":" + a
    return _kt_tok(v)


def _kt_load_ref(spec):
    if spec["ref_kind"] == "source":
        loader = _kt_mach.SourceFileLoader(spec["ref_name"], spec["ref_path"])
        sp = _kt_util.spec_from_file_location(spec["ref_name"], spec["ref_path"], loader=loader)
        mod = _kt_util.module_from_spec(sp)
        loader.exec_module(mod)
        return mod
    ns = dict(globals())
    exec(compile(open(spec["ref_path"]).read(), spec["ref_path"], "exec"), ns)
    class _R: pass
    r = _R()
    r.__dict__.update(ns)
    return r


_kt_state = {}


def _kt_drive(spec_path, lo, hi, journal=None, resume=None):
    """journal: path; progress ("P ki ti"), mismatches ("M ki ti json") and kernel summaries ("K json") are appended
    line by line so that the parent can continue after a crash with resume=[ki, ti] (first input NOT yet tried)."""
    st = _kt_state.get(spec_path)
    if st is None:
        spec = _kt_json.load(open(spec_path))
        R = _kt_load_ref(spec)
        g = globals()
        if spec.get("prelude"):
            exec(spec["prelude"], g)
        vals = []
        for ve in spec["values"]:
            if isinstance(ve, dict):
                vals.append(("fresh", compile(ve["fresh"], "<value>", "eval")))
            else:
                vals.append(("shared", eval(ve, g)))
        st = _kt_state[spec_path] = (spec, R, vals)
    spec, R, vals = st
    g = globals()
    exc_args = spec.get("exc_args", True)
    maxmis = spec.get("max_mismatch", 12)
    split_msg = spec.get("split_msg", False)
    jf = open(journal, "a", buffering=1) if journal else None
    out = []
    for ki in range(lo, hi):
        first = 0
        if resume is not None:
            if ki < resume[0]:
                continue
            if ki == resume[0]:
                first = resume[1]
        k = spec["kernels"][ki]
        fm = getattr(M, k["name"])
        fr = getattr(R, k["name"])
        post = k.get("post", False)
        tuples = spec["inputs"][k["inputs"]]
        mism = []
        nmis = 0
        nmsg = 0
        msgmism = []
        summ = ["?"] * first
        exc = {}
        for ti in range(first, len(tuples)):
            tup = tuples[ti]
            any_fresh = False
            a1 = []
            for i in tup:
                kind, v = vals[i]
                if kind == "fresh":
                    any_fresh = True
                    a1.append(eval(v, g))
                else:
                    a1.append(v)
            if any_fresh:
                a2 = [eval(vals[i][1], g) if vals[i][0] == "fresh" else vals[i][1] for i in tup]
            else:
                a2 = a1
            want = _kt_out(fr, a1, exc_args)
            if post:
                want += " | " + _kt_tok(a1)
            if jf is not None:
                jf.write("P %d %d\n" % (ki, ti))
            got = _kt_out(fm, a2, exc_args)
            if post:
                got += " | " + _kt_tok(a2)
            if want[:2] == "E:":
                summ.append("E")
                tn = want.split(":", 2)[1]
                exc[tn] = exc.get(tn, 0) + 1
            else:
                summ.append("o")
            if want != got:
                if split_msg and want[:2] == "E:" and got[:2] == "E:" and want.split(":", 2)[1] == got.split(":", 2)[1] \
                        and (not post or want.split(" | ")[-1] == got.split(" | ")[-1]):
                    # same exception type (and same state), only the args/message differ: counted apart so that these
                    # cannot crowd real disagreements out of the capped list
                    nmsg += 1
                    if len(msgmism) < 4:
                        msgmism.append([ti, want, got])
                    continue
                nmis += 1
                if len(mism) < maxmis:
                    mism.append([ti, want, got])
                    if jf is not None:
                        jf.write("M %d %d %s\n" % (ki, ti, _kt_json.dumps([want, got])))
        rec = {"k": ki, "n": len(tuples), "nmis": nmis, "mism": mism, "summ": "".join(summ), "exc": exc,
               "nmsg": nmsg, "msgmism": msgmism}
        if jf is not None:
            jf.write("K %s\n" % _kt_json.dumps(rec))
        out.append(rec)
    if jf is not None:
        jf.close()
    return _kt_json.dumps(out)
'''


# cybuild.SAN_CFLAGS contains -fno-sanitize=function,vptr which gcc rejects ("function" is clang-only)
SAN_FLAGS = [f for f in cybuild.SAN_CFLAGS if not f.startswith("-fno-sanitize=")]


def san_env():
    """cybuild.san_env() + shorter reports (the runner keeps only the last 3000 bytes of stderr) + system malloc so that
    ASan also sees PyMem_Malloc'ed buffers."""
    env = cybuild.san_env()
    env["ASAN_OPTIONS"] = env.get("ASAN_OPTIONS", "") + ":print_legend=0"
    env["PYTHONMALLOC"] = "malloc"
    return env


class KTResult:
    def __init__(self):
        self.status = "ok"          # ok | cyerror | ccerror | import-error
        self.detail = None
        self.kernels = []           # per kernel dict: k, n, nmis, mism [[ti, want, got]], summ, exc, crashes [[ti, what]]
        self.so_path = None
        self.src_path = None


def _parse(outcome):
    if outcome[0] != "ok":
        return None
    return json.loads(ast.literal_eval(outcome[1][1]))


def run_table(src, name, outdir, spec, ext=".py", ref="source", directives=None, defines=None, cplus=False,
              sanitize=False, chunk=None, timeout=900, flags=None, max_crashes=6, so_path=None, ranges=None):
    """Build `src` (unless so_path given), run all kernels of `spec` against the reference. Returns KTResult."""
    res = KTResult()
    d = os.path.join(outdir, name)
    os.makedirs(d, exist_ok=True)
    src_path = os.path.join(d, name + ext)
    if sanitize and flags is None:
        flags = SAN_FLAGS
    if so_path is None:
        try:
            so_path = cybuild.build(src, name, d, ext=ext, cplus=cplus, directives=directives, defines=defines,
                                    sanitize=sanitize, flags=flags)
        except cybuild.CythonError as e:
            res.status = "cyerror"
            res.detail = e.errors[:30]
            return res
        except cybuild.CCError as e:
            res.status = "ccerror"
            res.detail = str(e)[-3000:]
            return res
    elif not os.path.exists(src_path):
        with open(src_path, "w", encoding="utf-8", newline="") as f:
            f.write(src)
    res.so_path = so_path
    res.src_path = src_path
    spec = dict(spec)
    if ref == "source":
        spec["ref_kind"] = "source"
        spec["ref_path"] = src_path
        spec["ref_name"] = name + "_ref"
    else:
        spec["ref_kind"] = "oracle"
        spec["ref_path"] = os.path.join(d, name + "_oracle.py")
        with open(spec["ref_path"], "w") as f:
            f.write(ref)
    spec_path = os.path.join(d, name + ".spec.json")
    with open(spec_path, "w") as f:
        json.dump(spec, f)
    nk = len(spec["kernels"])
    chunk = chunk or nk
    if ranges is None:      # explicit [(lo, hi), ...] kernel ranges = runner cases (crash isolation units)
        ranges = [(lo, min(nk, lo + chunk)) for lo in range(0, nk, chunk)]
    env = san_env() if sanitize else None
    cases = [{"expr": "_kt_drive(%r, %d, %d)" % (spec_path, lo, hi)} for lo, hi in ranges]
    imp, outs = runner.run_cases("so", so_path, name, cases, env=env, setup=DRIVER, timeout=timeout,
                                 case_timeout=timeout)
    if imp[0] != "ok":
        res.status = "import-error"
        res.detail = imp
        return res
    per = {}
    for (lo, hi), o in zip(ranges, outs):
        parsed = _parse(o)
        if parsed is not None:
            for r in parsed:
                r["crashes"] = []
                per[r["k"]] = r
            continue
        if o[0] == "exc":
            res.status = "import-error"
            res.detail = ["driver raised", o]
            return res
        # crash / timeout inside this chunk: re-run with a journal, then resume after every crashing input (bounded)
        journal = os.path.join(d, "%s.journal.%d" % (name, lo))
        if os.path.exists(journal):
            os.unlink(journal)
        resume = None
        crashes = []
        fatal = None
        for attempt in range(max_crashes + 1):
            case = {"expr": "_kt_drive(%r, %d, %d, journal=%r, resume=%r)" % (spec_path, lo, hi, journal, resume)}
            imp2, o2 = runner.run_cases("so", so_path, name, [case], env=env, setup=DRIVER, timeout=timeout,
                                        case_timeout=timeout)
            if o2[0][0] == "ok":
                break
            if o2[0][0] == "exc":
                res.status = "import-error"
                res.detail = ["driver raised", o2[0]]
                return res
            last = None
            try:
                with open(journal) as jf:
                    for line in jf:
                        if line.startswith("P "):
                            parts = line.split()
                            if len(parts) == 3:
                                last = (int(parts[1]), int(parts[2]))
            except OSError:
                pass
            if last is None or (resume is not None and tuple(last) < tuple(resume)):
                res.status = "import-error"
                res.detail = ["unlocatable crash", o2[0]]
                return res
            what = "timeout" if o2[0][0] == "timeout" else "%s: %s" % (o2[0][1], crash_summary(o2[0][2] if len(o2[0]) > 2 else ""))
            crashes.append((last[0], last[1], what))
            resume = [last[0], last[1] + 1]
        else:
            fatal = "more than %d crashing inputs in kernels %d..%d; the rest of this range was not evaluated" % (max_crashes, lo, hi)
        # collect from the journal: last K line per kernel, all M lines
        kjson = {}
        mlines = {}
        try:
            with open(journal) as jf:
                for line in jf:
                    if line.startswith("K "):
                        try:
                            r = json.loads(line[2:])
                        except ValueError:
                            continue
                        prev = kjson.get(r["k"])
                        if prev is not None:
                            r["nmis"] += prev["nmis"]
                            for t, c in prev["exc"].items():
                                r["exc"][t] = r["exc"].get(t, 0) + c
                        kjson[r["k"]] = r
                    elif line.startswith("M "):
                        parts = line.split(" ", 3)
                        try:
                            w, g = json.loads(parts[3])
                        except (ValueError, IndexError):
                            continue
                        mlines.setdefault(int(parts[1]), []).append([int(parts[2]), w, g])
        except OSError:
            pass
        for ki in range(lo, hi):
            r = kjson.get(ki) or {"k": ki, "n": 0, "nmis": 0, "mism": [], "summ": "", "exc": {}, "incomplete": True}
            r["mism"] = mlines.get(ki, r["mism"])
            r["nmis"] = max(r["nmis"], len(r["mism"]))
            r["crashes"] = [list(c[1:]) for c in crashes if c[0] == ki]
            if fatal:
                r["incomplete"] = True
            per[ki] = r
        if fatal:
            res.detail = fatal
    res.kernels = [per[k] for k in sorted(per)]
    return res


def crash_summary(tail):
    import re
    tail = tail or ""
    m = re.search(r"(ERROR: AddressSanitizer: [^\n]*|SUMMARY: AddressSanitizer: [^\n]*|runtime error: [^\n]*|Fatal Python error: [^\n]*)", tail)
    frames = re.findall(r"#\d+ 0x[0-9a-f]+ in (\S+)", tail)
    frames = [f for f in frames if f.startswith("__Pyx") or f.startswith("__pyx")][:3]
    s = (m.group(1) if m else tail[-200:].replace("\n", " | "))
    s = re.sub(r"0x[0-9a-f]+", "0x", s)
    return s[:300] + ((" in " + " < ".join(frames)) if frames else "")


def replay_one(src, kernel, arg_exprs, outdir, ext=".py", ref="source", post=False, directives=None, defines=None,
               cplus=False, sanitize=False, name="kdreplay", exc_args=True):
    """Re-run ONE kernel call. Returns (want, got) tokens; ("same","same") if they agree;
    ("?", "CRASH:<what>") for a dead runner; ("BUILD", text) if the module does not build."""
    spec = {"values": list(arg_exprs), "inputs": {"one": [list(range(len(arg_exprs)))]},
            "kernels": [{"name": kernel, "inputs": "one", "post": post}], "exc_args": exc_args}
    res = run_table(src, name, outdir, spec, ext=ext, ref=ref, directives=directives, defines=defines, cplus=cplus,
                    sanitize=sanitize, max_crashes=1)
    if res.status != "ok":
        return "BUILD", "%s: %s" % (res.status, str(res.detail)[:400])
    k = res.kernels[0]
    if k["crashes"]:
        return "?", "CRASH:" + k["crashes"][0][1]
    if k["mism"]:
        return k["mism"][0][1], k["mism"][0][2]
    return "same", "same"
