"""Process-side helpers for C46 file-level histories.

Used in two ways:
  * imported by a check worker and called in a FORKED child (fork mode: the worker has Cython imported and warmed
    up; the child clears every Cython function cache and the global dependency tree first);
  * run as a script in a FRESH interpreter:  python c46_child.py <build|depsets> <root> <out.json> module...
"""
import contextlib
import io
import json
import os
import sys


def _fresh_state():
    from Cython import Utils
    from Cython.Build import Dependencies
    Utils.clear_function_caches()
    Dependencies._dep_tree = None


def do_build(root, modules):
    """cythonize(modules) in cwd=root; -> {"out": stdout text, "err": None|repr, "stderr": text}"""
    os.chdir(root)
    _fresh_state()
    os.environ.pop("CYTHON_FORCE_REGEN", None)
    from Cython.Build import cythonize
    out, errs = io.StringIO(), io.StringIO()
    err = None
    with contextlib.redirect_stdout(out), contextlib.redirect_stderr(errs):
        try:
            cythonize(list(modules), quiet=False, language_level=3)
        except BaseException as e:          # CompileError, SystemExit ...
            err = "%s: %s" % (type(e).__name__, e)
    return {"out": out.getvalue(), "err": err, "stderr": errs.getvalue()[-2000:]}


_opened = []
_hook_root = [None]
_hook_installed = [False]


def _hook(event, args):
    if event == "open" and _hook_root[0] is not None and args and isinstance(args[0], str):
        p = os.path.abspath(args[0])
        if p.startswith(_hook_root[0] + os.sep):
            _opened.append((os.path.relpath(p, _hook_root[0]), str(args[1])))


def do_depsets(root, modules):
    """-> {module: {"deps": [relpaths], "opened": [relpaths read by a real compile], "errors": n}}"""
    os.chdir(root)
    _fresh_state()
    from Cython.Build.Dependencies import create_dependency_tree
    from Cython.Compiler.Main import compile as cy_compile, CompilationOptions, Context
    if not _hook_installed[0]:
        sys.addaudithook(_hook)
        _hook_installed[0] = True
    options = CompilationOptions(language_level=3, include_path=["."])
    deptree = create_dependency_tree(Context.from_options(options), quiet=True)
    res = {}
    for m in modules:
        deps = sorted(os.path.relpath(os.path.abspath(p), root) for p in deptree.all_dependencies(m))
        res[m] = {"deps": deps}
    for m in modules:
        del _opened[:]
        _hook_root[0] = root
        errs = io.StringIO()
        with contextlib.redirect_stderr(errs), contextlib.redirect_stdout(io.StringIO()):
            try:
                r = cy_compile(m, CompilationOptions(language_level=3, include_path=["."],
                                                     output_file=os.path.join(root, "_probe_%s.c" % m.split(".")[0])))
                nerr = r.num_errors
            except BaseException as e:
                nerr = -1
                errs.write("%s: %s" % (type(e).__name__, e))
        _hook_root[0] = None
        res[m]["opened"] = sorted({p for p, mode in _opened if "r" in mode and "+" not in mode
                                   and not p.endswith(".c")})
        res[m]["errors"] = nerr
        res[m]["stderr"] = errs.getvalue()[-1500:]
    return res


def run_forked(func, *args, timeout=300):
    """Run func(*args) in a forked child and return its JSON-able result (or {"crash": ...})."""
    r, w = os.pipe()
    pid = os.fork()
    if pid == 0:
        code = 0
        try:
            os.close(r)
            try:
                res = func(*args)
            except BaseException as e:
                import traceback
                res = {"crash": "%s: %s\n%s" % (type(e).__name__, e, traceback.format_exc()[-1500:])}
            data = json.dumps(res).encode()
            with os.fdopen(w, "wb") as f:
                f.write(data)
        except BaseException:
            code = 1
        finally:
            os._exit(code)
    os.close(w)
    chunks = []
    with os.fdopen(r, "rb") as f:
        while True:
            b = f.read(65536)
            if not b:
                break
            chunks.append(b)
    os.waitpid(pid, 0)
    try:
        return json.loads(b"".join(chunks).decode())
    except ValueError:
        return {"crash": "child produced no result"}


def run_subprocess(mode, root, modules, view, scratch):
    import subprocess
    out = os.path.join(scratch, "c46_child_out.json")
    env = dict(os.environ)
    env["PYTHONPATH"] = view
    env.pop("CYTHON_FORCE_REGEN", None)
    p = subprocess.run([sys.executable, "-P", os.path.abspath(__file__), mode, root, out] + list(modules), env=env,
                       stdout=subprocess.PIPE, stderr=subprocess.STDOUT, timeout=600)
    try:
        with open(out) as f:
            return json.load(f)
    except (OSError, ValueError):
        return {"crash": "subprocess rc=%s: %s" % (p.returncode, p.stdout.decode("utf-8", "replace")[-1500:])}
    finally:
        if os.path.exists(out):
            os.unlink(out)


if __name__ == "__main__":
    mode, root, outpath = sys.argv[1:4]
    mods = sys.argv[4:]
    result = do_build(root, mods) if mode == "build" else do_depsets(root, mods)
    with open(outpath, "w") as fh:
        json.dump(result, fh)
