"""Driver side of the runner protocol: run cases in isolated subprocesses, survive crashes."""
import json
import os
import signal
import subprocess
import sys
import tempfile

from . import tree

HERE = os.path.dirname(os.path.abspath(__file__))
RUNNER = os.path.join(HERE, "runner_main.py")
VSUPPORT = os.path.join(HERE, "vsupport.py")
PYTHON = sys.executable

_counter = [0]


def run_cases(mode, path, name, cases, workdir=None, env=None, support=(VSUPPORT,), setup=None,
              timeout=300, syspath=(), log_attr="LOG", always_log=False, max_restarts=50,
              recursionlimit=3000, python=None, case_timeout=20, mem_limit=4 << 30):
    """Execute cases (list of {"expr": ..., "pre"?, "post"?}) against a module.

    Returns (import_outcome, outcomes) where outcomes[i] is the canonical outcome list or
    ["crash", signal_or_rc, stderr_tail] / ["timeout"] / ["notrun"].
    """
    workdir = workdir or tree.workdir()
    _counter[0] += 1
    base = os.path.join(workdir, "job.%d.%d" % (os.getpid(), _counter[0]))
    outp = base + ".out"
    errp = base + ".err"
    jobp = base + ".json"
    view = os.environ.get("CYVERIF_VIEW")
    job = {"mode": mode, "path": path, "name": name, "cases": cases, "out": outp,
           "support": list(support), "setup": setup, "log_attr": log_attr,
           "always_log": always_log, "recursionlimit": recursionlimit, "case_timeout": case_timeout,
           "mem_limit": (None if (env and "LD_PRELOAD" in env) else mem_limit),
           "syspath": ([view] if view else []) + list(syspath), "start": 0}
    e = dict(env if env is not None else os.environ)
    e.setdefault("PYTHONHASHSEED", "0")
    e["PYTHONDONTWRITEBYTECODE"] = "1"
    outcomes = [None] * len(cases)
    import_outcome = None
    start = 0
    restarts = 0
    open(outp, "w").close()
    while True:
        job["start"] = start
        with open(jobp, "w") as f:
            json.dump(job, f)
        with open(errp, "wb") as ef:
            try:
                p = subprocess.run([python or PYTHON, RUNNER, jobp], stdout=ef, stderr=subprocess.STDOUT,
                                   env=e, timeout=timeout, cwd=workdir)
                rc = p.returncode
                timed_out = False
            except subprocess.TimeoutExpired:
                rc = None
                timed_out = True
        inflight = None
        with open(outp) as f:
            for line in f:
                if line.startswith("B "):
                    inflight = int(line.split()[1])
                elif line.startswith("R "):
                    _, idx, payload = line.split(" ", 2)
                    idx = int(idx)
                    try:
                        val = json.loads(payload)
                    except ValueError:
                        continue   # torn line from a crash
                    if idx == -1:
                        import_outcome = val
                    else:
                        outcomes[idx] = val
                    if inflight == idx:
                        inflight = None
        open(outp, "w").close()
        if import_outcome is None or (inflight == -1):
            tail = _tail(errp)
            import_outcome = ["crash", rc, tail] if not timed_out else ["timeout"]
            break
        if import_outcome[0] != "ok":
            break
        if inflight is None and not timed_out and rc == 0:
            break
        if inflight is None:
            # died outside a case (e.g. at exit); treat remaining as not run
            nxt = max([i for i, o in enumerate(outcomes) if o is not None] + [-1]) + 1
            if nxt >= len(cases):
                break
            inflight = nxt
        outcomes[inflight] = ["timeout"] if (timed_out or rc == -14) else ["crash", _signame(rc), _tail(errp)]
        start = inflight + 1
        restarts += 1
        if start >= len(cases) or restarts > max_restarts:
            break
    for i, o in enumerate(outcomes):
        if o is None:
            outcomes[i] = ["notrun"]
    for pth in (outp, errp, jobp):
        try:
            os.unlink(pth)
        except OSError:
            pass
    return import_outcome, outcomes


def _signame(rc):
    if rc is None:
        return "timeout"
    if rc < 0:
        try:
            return signal.Signals(-rc).name
        except ValueError:
            return "SIG%d" % -rc
    return "rc%d" % rc


def _tail(path, n=12000):
    try:
        with open(path, "rb") as f:
            data = f.read()
        return data[-n:].decode("utf-8", "replace")
    except OSError:
        return ""
