"""Oracles for C47 (Cython.Build.Dependencies.strip_string_literals).

roundtrip(text, prefix)    -> None | (kind, message)      valid for EVERY input
completeness(text, prefix) -> ("untokenizable", None) | ("ok", info) | ("leak", (kind, message, info))

The completeness oracle uses CPython's tokenize (3.12: f-strings are FSTRING_START / FSTRING_MIDDLE /
FSTRING_END with the replacement fields tokenised as code).
"""
import io
import re
import token as T
import tokenize
import warnings


def strip(text, prefix=None):
    from Cython.Build.Dependencies import strip_string_literals
    if prefix is None:
        return strip_string_literals(text)
    return strip_string_literals(text, prefix)


def label_regex(prefix):
    return re.compile(re.escape(prefix if prefix is not None else "__Pyx_L") + r"\d+_")


def roundtrip(text, prefix=None, result=None):
    """-> (None | (kind, msg), covered) where covered = list of (start, end) original offsets inside labels."""
    stripped, literals = result if result is not None else strip(text, prefix)
    rx = label_regex(prefix)
    seen = {}
    out = []
    covered = []
    pos = 0
    offset = 0
    for m in rx.finditer(stripped):
        chunk = stripped[pos:m.start()]
        out.append(chunk)
        offset += len(chunk)
        label = m.group(0)
        seen[label] = seen.get(label, 0) + 1
        lit = literals.get(label)
        if lit is None:
            return ("unknown-label", "label %r occurs in the stripped text but not in the literal map" % label), None
        out.append(lit)
        covered.append((offset, offset + len(lit)))
        offset += len(lit)
        pos = m.end()
    out.append(stripped[pos:])
    for label in literals:
        c = seen.get(label, 0)
        if c == 0:
            return ("label-missing", "label %r (%r) is in the literal map but not in the stripped text" % (
                label, literals[label][:40])), None
    for label, c in seen.items():
        if c > 1:
            return ("label-duplicated", "label %r occurs %d times in the stripped text" % (label, c)), None
    back = "".join(out)
    if back != text:
        i = next((n for n, (a, b) in enumerate(zip(back, text)) if a != b), min(len(back), len(text)))
        return ("text-differs", "substituting the labels back gives %r..., input has %r... at offset %d" % (
            back[max(0, i - 10):i + 20], text[max(0, i - 10):i + 20], i)), None
    return None, covered


_PREFIX = re.compile(r"^[A-Za-z]*")


KW_GLUED = re.compile(r"(?<![A-Za-z0-9_])((?:el)?if)(['\"])")
info_ranges = [None]       # side channel: ranges of the last classify() call (single-threaded use)

CAUSES = ["quote-in-format-spec", "hash-in-format-spec", "string-glued-to-if", "fstring-prefix-not-recognised"]
_CAUSE_FLAG = {"quote-in-format-spec": "spec-has-quote", "hash-in-format-spec": "spec-has-hash",
               "string-glued-to-if": "string-glued-to-if", "fstring-prefix-not-recognised": "fprefix-not-recognised"}


def causes_present(info):
    return [c for c in CAUSES if _CAUSE_FLAG[c] in info]


def neutralise(text, cause=None):
    """Rewrite text until the input class `cause` (None: all recorded classes) no longer occurs - same tokens
    otherwise.  -> new text, or None if it stops being tokenizable / does not converge."""
    for _ in range(8):
        cl = classify(text)
        if cl is None:
            return None
        present = [c for c in causes_present(cl[1]) if cause is None or c == cause]
        if not present:
            return text
        for c in present:
            text = _neutralise_once(text, c)
            if c != present[-1] and classify(text) is None:
                return None
    return None


def _neutralise_once(text, cause):
    cl = classify(text)
    if cl is None:
        return text
    ranges = info_ranges[0]
    chars = list(text)
    if cause == "quote-in-format-spec":
        for a, b in ranges["spec"]:
            for i in range(a, b):
                if chars[i] in "'\"":
                    chars[i] = "q"
    elif cause == "hash-in-format-spec":
        for a, b in ranges["spec"]:
            for i in range(a, b):
                if chars[i] == "#":
                    chars[i] = "h"
    elif cause == "fstring-prefix-not-recognised":
        for a, b in ranges["fprefix"]:
            p = text[a:b]
            chars[a:b] = list("".join(c for c in p if c not in "fF") + "f")      # F -> f, fr -> rf, fR -> Rf
    elif cause == "string-glued-to-if":
        return KW_GLUED.sub(r"\1 \2", text)
    return "".join(chars)


def classify(text):
    """-> None if tokenize rejects the text, else (must, info)
    must: list of (start, end, what) original character ranges that are string content / comment text
    info: set of feature labels (used for non-triviality and the class histogram)."""
    lines = text.split("\n")
    starts = [0]
    for ln in lines[:-1]:
        starts.append(starts[-1] + len(ln) + 1)

    def off(rc):
        r, c = rc
        if r - 1 >= len(starts):
            return len(text)
        return starts[r - 1] + c

    try:
        with warnings.catch_warnings():
            warnings.simplefilter("ignore")          # invalid escape sequences are only warnings
            toks = list(tokenize.generate_tokens(io.StringIO(text).readline))
    except (tokenize.TokenError, SyntaxError, IndentationError, ValueError, SystemError):   # SystemError: CPython 3.12.1 tokenizer bug on some broken f-strings
        return None
    must = []
    info = set()
    ranges = {"spec": [], "fprefix": []}      # source ranges used by neutralise()
    stack = []          # "fstr" | ["field", in_spec] | "paren"
    for tok in toks:
        tt, s = tok.type, tok.string
        a, b = off(tok.start), off(tok.end)
        if tt == T.STRING:
            # CPython 3.12's tokenizer reports the end column of a string continued over a backslash-newline in BYTES
            # when the last line has non-ASCII characters: trust the token text, not tok.end
            b = a + len(s)
            if text[a:b] != s:
                return None          # offset bookkeeping disagrees (should not happen for this alphabet)
            p = _PREFIX.match(s).group(0)
            q = s[len(p):len(p) + 3]
            qn = 3 if len(s) - len(p) >= 6 and q in ("'''", '"""') else 1
            must.append((a + len(p) + qn, b - qn, "string"))
            body = s[len(p) + qn:len(s) - qn]
            info.add("string")
            if qn == 3:
                info.add("triple-quoted")
            if stack:
                info.add("string-in-fstring-field")
            if "#" in body:
                info.add("hash-in-string")
            if re.search(r"\\['\"]", body) or body.endswith("\\\\"):
                info.add("backslash-before-quote")
            if p:
                info.add("prefix:" + p.lower())
        elif tt == T.COMMENT:
            if text[a:b] != s:
                return None
            must.append((a + 1, b, "comment"))
            info.add("comment")
            if "'" in s or '"' in s:
                info.add("quote-in-comment")
            if stack:
                info.add("comment-in-fstring-field")
        elif tt == T.FSTRING_START:
            stack.append("fstr")
            info.add("fstring")
            if s[-3:] in ("'''", '"""'):
                info.add("triple-quoted")
            info.add("prefix:" + _PREFIX.match(s).group(0).lower())
            if not _PREFIX.match(s).group(0).endswith("f"):
                info.add("fprefix-not-recognised")        # F'..', fr'..': the stripper only knows  f<quote>
                ranges["fprefix"].append((a, a + len(_PREFIX.match(s).group(0))))
            if len(stack) > 1:
                info.add("nested-fstring")
        elif tt == T.FSTRING_END:
            if not stack or stack[-1] != "fstr":
                return None
            stack.pop()
        elif tt == T.FSTRING_MIDDLE:
            top = stack[-1] if stack else None
            if text[a:b] != s:
                return None          # tokenize's columns disagree with character offsets (non-ASCII text): inconclusive
            if top == "fstr":
                # tokenize reports '{{' as one FSTRING_MIDDLE ending after the first brace; the second one is unclassified
                must.append((a, b, "fstring-text"))
                seg = text[a:b]
                if "#" in seg:
                    info.add("hash-in-string")
                if re.search(r"\\['\"]", seg):
                    info.add("backslash-before-quote")
                if "{" in seg or "}" in seg:
                    info.add("doubled-brace")
            else:
                info.add("format-spec")
                ranges["spec"].append((a, b))
                seg = text[a:b]
                if "#" in seg:
                    info.add("spec-has-hash")
                if "'" in seg or '"' in seg:
                    info.add("spec-has-quote")
        elif tt == T.OP:
            top = stack[-1] if stack else None
            if s == "{":
                if top == "fstr" or (isinstance(top, list) and top[1]):
                    stack.append(["field", False])
                    info.add("fstring-field")
                    if isinstance(top, list):
                        info.add("field-in-spec")
                else:
                    stack.append("}")
            elif s == "(":
                stack.append(")")
            elif s == "[":
                stack.append("]")
            elif s in ")]":
                if top != s:
                    return None          # tokenize does not check bracket nesting; unbalanced text is out of domain
                stack.pop()
            elif s == "}":
                if top == "}" or isinstance(top, list):
                    stack.pop()
                else:
                    return None
            elif s == ":" and isinstance(top, list) and not top[1]:
                top[1] = True
        elif tt == T.ERRORTOKEN:
            return None
    if stack:
        return None
    if KW_GLUED.search(text):
        info.add("string-glued-to-if")
    info_ranges[0] = ranges
    return must, info


def completeness(text, prefix=None, covered=None):
    cl = classify(text)
    if cl is None:
        return "untokenizable", None
    must, info = cl
    if covered is None:
        err, covered = roundtrip(text, prefix)
        if err is not None:
            return "ok", info          # reported by the round-trip oracle
    cov = bytearray(len(text) + 1)
    for a, b in covered:
        for i in range(a, b):
            cov[i] = 1
    for a, b, what in must:
        for i in range(a, b):
            if not cov[i]:
                return "leak", (what, "character %r at offset %d (%s %r) is %s but is not inside a label" % (
                    text[i], i, what, text[max(a - 4, 0):b + 4][:60], what), info, i)
    return "ok", info
