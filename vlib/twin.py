"""Twin-rendering differential runs (E2 `.pyx` variant): ONE IR rendered twice.

The `.pyx` text (cdef classes / typed code) is compiled by Cython from the working tree; the
oracle text (plain Python classes, the same bodies) is executed by CPython.  Both are driven by
the same case expressions through vlib.runner, so both sides go through the same canon().
"""
import os

from . import cybuild, runner


class TwinResult:
    def __init__(self):
        self.status = "ok"        # ok | cyerror | cycrash | ccerror | import-diff | import-fail
        self.detail = None
        self.ref = None
        self.got = None
        self.ref_import = None
        self.got_import = None
        self.so_path = None
        self.c_path = None
        self.extra = {}           # cell name -> (import outcome, outcomes) for extra C-macro cells


def run(pyx_src, py_src, name, outdir, cases, directives=None, options=None, defines=None, cplus=False,
        setup=None, always_log=False, timeout=600, case_timeout=20, extra_cells=None, reference=True,
        sanitize=False, so_only=False):
    """Build pyx_src -> .so, write py_src as the oracle module, run `cases` on both.

    extra_cells: {cellname: [defines]} additional C compilations of the SAME generated C file;
    their outcomes land in result.extra[cellname] = (import_outcome, outcomes).
    """
    res = TwinResult()
    d = os.path.join(outdir, name)
    os.makedirs(d, exist_ok=True)
    try:
        so = cybuild.build(pyx_src, name, d, ext=".pyx", cplus=cplus, directives=directives, options=options,
                           defines=defines, sanitize=sanitize)
    except cybuild.CythonError as e:
        res.status = "cycrash" if e.crashed else "cyerror"
        res.detail = e.errors[:30]
        return res
    except cybuild.CCError as e:
        res.status = "ccerror"
        res.detail = str(e)[-3000:]
        return res
    res.so_path = so
    res.c_path = os.path.join(d, name + (".cpp" if cplus else ".c"))
    if so_only:
        return res
    env = cybuild.san_env() if sanitize else None
    res.got_import, res.got = runner.run_cases("so", so, name, cases, setup=setup, timeout=timeout,
                                               always_log=always_log, case_timeout=case_timeout, env=env)
    for cell, defs in sorted((extra_cells or {}).items()):
        sd = os.path.join(d, "so_" + cell)
        os.makedirs(sd, exist_ok=True)
        so2 = os.path.join(sd, name + cybuild.EXT_SUFFIX)
        try:
            cybuild.cc(res.c_path, so2, defines=defs, cplus=cplus)
        except cybuild.CCError as e:
            res.extra[cell] = (["ccerror", str(e)[-1500:]], None)
            continue
        res.extra[cell] = runner.run_cases("so", so2, name, cases, setup=setup, timeout=timeout,
                                           always_log=always_log, case_timeout=case_timeout)
    if reference:
        refdir = os.path.join(d, "ref")
        os.makedirs(refdir, exist_ok=True)
        ref_path = os.path.join(refdir, name + ".py")
        with open(ref_path, "w", encoding="utf-8", newline="") as f:
            f.write(py_src)
        res.ref_import, res.ref = runner.run_cases("py", ref_path, name, cases, setup=setup, timeout=timeout,
                                                   always_log=always_log, case_timeout=case_timeout)
        if res.ref_import[0] != "ok" or res.got_import[0] != "ok":
            if res.ref_import[:2] != res.got_import[:2]:
                res.status = "import-diff"
            else:
                res.status = "import-fail"
            res.detail = {"ref": res.ref_import, "got": res.got_import}
    elif res.got_import[0] != "ok":
        res.status = "import-fail"
        res.detail = {"got": res.got_import}
    return res


def log_of(outcome):
    """The LOG list (canon) attached to an outcome, or []."""
    for x in outcome[1:]:
        if isinstance(x, list) and x and x[0] == "log":
            return x[1]
    return []


def strip_log(outcome):
    return [x for x in outcome if not (isinstance(x, list) and x and x[0] == "log")]


_REPLAY_CACHE = {}


def cached_replay(ctx, pid, case, replay_one):
    """replay_one((work, case)) -> (reproduced, what).  The committed regression replays of a property are
    independent small builds: on the first call they are all evaluated in parallel (ctx.pmap) and cached."""
    from . import harness
    key = (pid, harness.khash(case))
    if not any(k[0] == pid for k in _REPLAY_CACHE):
        committed = [rep["case"] for _, rep in harness.committed_replays(pid)]
        if len(committed) > 1 and any(harness.khash(c) == key[1] for c in committed):
            outs = ctx.pmap(replay_one, [(ctx.work, c) for c in committed])
            for c, out in zip(committed, outs):
                _REPLAY_CACHE[(pid, harness.khash(c))] = tuple(out)
    if key in _REPLAY_CACHE:
        return _REPLAY_CACHE[key]
    return tuple(replay_one((ctx.work, case)))
