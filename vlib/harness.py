"""Check harness: tiers, seeds, evidence, known findings, replays, exit codes (DESIGN §2.4-2.6)."""
import collections
import hashlib
import json
import multiprocessing
import os
import re
import sys
import time
import traceback

from . import tree

VERIF = os.path.dirname(os.path.dirname(os.path.abspath(__file__)))
# sensitivity runs against seeded mutants redirect their evidence/replay output so /verif stays clean
OUTROOT = os.environ.get("VERIF_OUTDIR") or VERIF
def _default_jobs():
    if os.environ.get("VERIF_JOBS"):
        return int(os.environ["VERIF_JOBS"])
    try:    # untracked development throttle (several agents share the machine); absent in a fresh checkout
        with open(os.path.join(VERIF, ".jobs")) as f:
            return int(f.read().strip())
    except (OSError, ValueError):
        return 16


NPROC = _default_jobs()


def khash(key):
    return hashlib.blake2b(json.dumps(key, sort_keys=True, default=repr).encode("utf-8", "surrogatepass"),
                           digest_size=8).hexdigest()


class Part:
    """Accumulator for one shard (picklable result of a worker)."""
    def __init__(self):
        self.evaluations = 0
        self.nt = set()
        self.classes = collections.Counter()
        self.samples = []
        self.violations = []     # (bucket, case, what)
        self.counters = collections.Counter()
        self.notes = {}

    def case(self, key, nontrivial, cls=None, sample=None, n=1):
        self.evaluations += n
        if nontrivial:
            self.nt.add(khash(key))
        if cls is not None:
            if isinstance(cls, (list, tuple, set)):
                for c in cls:
                    self.classes[c] += 1
            else:
                self.classes[cls] += 1
        if sample is not None and len(self.samples) < 8:
            e = self.evaluations
            # keep a spread of cases (not only the first, usually minimal, ones); prefer non-trivial
            if (e & (e - 1)) == 0 and (nontrivial or e <= 2):
                self.samples.append(sample)

    def count(self, name, n=1):
        self.counters[name] += n

    def violation(self, bucket, case, what):
        self.violations.append((str(bucket), case, what))

    def merge(self, other):
        self.evaluations += other.evaluations
        self.nt |= other.nt
        self.classes.update(other.classes)
        self.counters.update(other.counters)
        self._allsamples = getattr(self, "_allsamples", []) + [other.samples]
        self.violations.extend(other.violations)
        self.notes.update(other.notes)


class Ctx(Part):
    def __init__(self, pid, tier, seed, level="exploration"):
        Part.__init__(self)
        self.pid = pid
        self.tier = tier
        self.seed = seed
        self.level = level
        self.rule = ""
        self.assumptions = []
        self.exhaustive = None
        self.extra = {}
        self.t0 = time.time()
        self.work = tree.workdir()

    @property
    def quick(self):
        return self.tier == "quick"

    def pmap(self, func, items, procs=None):
        """Run func(item) in forked workers; func returns a Part (merged) or any value."""
        procs = min(procs or NPROC, max(1, len(items)))
        results = []
        # One freshly forked worker per item (maxtasksperchild=1), also with a single job: Hypothesis mixes
        # constants harvested from the modules present in sys.modules into its draws, so the examples drawn in a
        # worker depend on what that worker imported before.  Fresh forks of the same parent make every item see
        # the same module set regardless of VERIF_JOBS, which keeps runs reproducible across job counts.
        mp = multiprocessing.get_context("fork")
        with mp.Pool(procs, maxtasksperchild=1) as pool:
            for r in pool.imap(func, items, chunksize=1):
                results.append(r)
        out = []
        for r in results:
            if isinstance(r, Part):
                self.merge(r)
            else:
                out.append(r)
        return out


def _prime():
    """Import the compiler and the generator libraries in the parent, before anything forks, so that all workers
    start from the same set of loaded modules (see Ctx.pmap)."""
    import importlib
    for name in ("hypothesis.strategies", "Cython.Compiler.Main", "Cython.Compiler.Pipeline", "Cython.Compiler.ExprNodes",
                 "Cython.Compiler.Nodes", "Cython.Compiler.Optimize", "Cython.Compiler.ParseTreeTransforms",
                 "Cython.Compiler.ModuleNode", "Cython.Compiler.Code", "Cython.Build.Dependencies", "Cython.Build.Inline",
                 "Cython.Plex", "Cython.Shadow", "Cython.StringIOTree", "Cython.LZSS", "Cython.Compiler.LineTable",
                 "Cython.Compiler.FusedNode", "Cython.Compiler.MatchCaseNodes", "Cython.Compiler.Dataclass"):
        try:
            importlib.import_module(name)
        except Exception:
            pass


def load_findings():
    out = []
    p = os.path.join(VERIF, "known_findings.json")
    if os.path.exists(p):
        with open(p) as f:
            out.extend(json.load(f)["findings"])
    d = os.path.join(VERIF, "findings.d")      # per-property staging files, merged into known_findings.json
    if os.path.isdir(d):
        for n in sorted(os.listdir(d)):
            if n.endswith(".json"):
                with open(os.path.join(d, n)) as f:
                    out.extend(json.load(f)["findings"])
    return out


def match_finding(pid, bucket, case, findings):
    blob = None
    for f in findings:
        if f.get("property") != pid or f.get("status") != "open":
            continue
        if "bucket_regex" in f and not re.search(f["bucket_regex"], bucket):
            continue
        if "case_regex" in f:
            if blob is None:
                blob = json.dumps(case, sort_keys=True, default=repr)
            if not re.search(f["case_regex"], blob):
                continue
        return f
    return None


def _pick_samples(ctx, limit=10):
    out = list(ctx.samples)
    groups = [list(reversed(g)) for g in getattr(ctx, "_allsamples", []) if g]
    i = 0
    while groups and len(out) < limit:
        g = groups[i % len(groups)]
        out.append(g.pop(0))
        if not g:
            groups.remove(g)
        else:
            i += 1
    return out[:limit]


def write_evidence(ctx, nviol):
    cov = {
        "evaluations": int(ctx.evaluations),
        # checks that enumerate 10^6..10^7 distinct inputs cannot afford one hash per case: they keep a bounded
        # hashed sample in ctx.nt and count the distinct non-trivial inputs exactly in counters["nt_exact"]
        "distinct_nontrivial": max(len(ctx.nt), int(ctx.counters.get("nt_exact", 0))),
        "distinct_nontrivial_hashed_sample": len(ctx.nt),
        "rule": ctx.rule,
        "samples": _pick_samples(ctx) or ["(no sample recorded)"],
        "classes": dict(sorted(ctx.classes.items(), key=lambda kv: str(kv[0]))),
        "counters": dict(ctx.counters),
    }
    if ctx.exhaustive is not None:
        cov["exhaustive"] = bool(ctx.exhaustive)
    cov.update(ctx.extra)
    ev = {
        "property_id": ctx.pid, "tier": ctx.tier, "seed": int(ctx.seed), "level": ctx.level,
        "coverage": cov, "assumptions": ctx.assumptions,
        "wall_s": round(time.time() - ctx.t0, 2), "violations": int(nviol),
    }
    os.makedirs(os.path.join(OUTROOT, "evidence"), exist_ok=True)
    path = os.path.join(OUTROOT, "evidence", ctx.pid + ".json")
    tmp = path + ".tmp"
    with open(tmp, "w") as f:
        json.dump(ev, f, indent=1, default=repr, sort_keys=False)
        f.write("\n")
    os.replace(tmp, path)
    return path


def save_replay(pid, bucket, case, what):
    d = os.path.join(OUTROOT, "replays", pid)
    os.makedirs(d, exist_ok=True)
    blob = json.dumps({"property": pid, "bucket": bucket, "what": what, "case": case},
                      indent=1, sort_keys=True, default=repr)
    name = hashlib.sha256(blob.encode("utf-8", "surrogatepass")).hexdigest()[:12] + ".json"
    path = os.path.join(d, name)
    with open(path, "w") as f:
        f.write(blob + "\n")
    return path


def committed_replays(pid):
    d = os.path.join(VERIF, "replays", pid)
    if not os.path.isdir(d):
        return []
    out = []
    for n in sorted(os.listdir(d)):
        if n.endswith(".json"):
            with open(os.path.join(d, n)) as f:
                try:
                    out.append((os.path.join(d, n), json.load(f)))
                except ValueError:
                    pass
    return out


def main(check, argv=None):
    """check: module with PID, LEVEL, run(ctx), optional replay(ctx, case)->(bool reproduced, what)."""
    import argparse
    ap = argparse.ArgumentParser()
    ap.add_argument("--tier", default=os.environ.get("VERIF_TIER", "quick"))
    ap.add_argument("--seed", type=int, default=int(os.environ.get("VERIF_SEED", "1") or 1))
    ap.add_argument("--replay")
    ap.add_argument("--max-new", type=int, default=8)
    args = ap.parse_args(argv)
    pid = check.PID
    tier = "thorough" if args.tier.startswith("t") else "quick"
    os.environ.setdefault("PYTHONHASHSEED", "0")
    os.environ["TZ"] = "UTC"
    try:
        tree.prepare()
        _prime()
        ctx = Ctx(pid, tier, args.seed, getattr(check, "LEVEL", "exploration"))
        findings = load_findings()
        if args.replay:
            with open(args.replay) as f:
                rep = json.load(f)
            ok, what = check.replay(ctx, rep["case"])
            if ok:
                print("REPRODUCED property=%s %s" % (pid, what))
                print("VIOLATION property=%s replay=%s" % (pid, args.replay))
                return 1
            print("not reproduced: %s" % what)
            return 0
        # regression tier: committed replays first
        if hasattr(check, "replay"):
            for path, rep in committed_replays(pid):
                ok, what = check.replay(ctx, rep["case"])
                ctx.count("replays_run")
                if ok:
                    ctx.violation(rep.get("bucket", "replay"), rep["case"], what)
        check.run(ctx)
        # triage
        buckets = collections.OrderedDict()
        for bucket, case, what in ctx.violations:
            buckets.setdefault(bucket, []).append((case, what))
        new = 0
        known_seen = collections.OrderedDict()
        unconfirmed = 0
        lines = []
        for bucket, items in buckets.items():
            case, what = items[0]
            f = match_finding(pid, bucket, case, findings)
            if f is not None:
                known_seen.setdefault(f["key"], (f, 0))
                known_seen[f["key"]] = (f, known_seen[f["key"]][1] + len(items))
                continue
            if new >= args.max_new:
                new += 1
                continue
            if hasattr(check, "replay") and not getattr(check, "NO_RECONFIRM", False):
                try:
                    ok, what2 = check.replay(ctx, case)
                except Exception:
                    ok, what2 = True, what + " (replay raised: %s)" % traceback.format_exc(limit=1)
                if not ok:
                    unconfirmed += 1
                    continue
            path = save_replay(pid, bucket, case, what)
            new += 1
            lines.append("VIOLATION property=%s replay=%s  # bucket=%s: %s (%d cases)" % (
                pid, path, bucket, str(what)[:300], len(items)))
        ctx.counters["unconfirmed"] = unconfirmed
        ctx.counters["known_finding_cases"] = sum(n for _, n in known_seen.values())
        ctx.extra["known_findings_seen"] = sorted(known_seen)
        ctx.extra["violation_buckets"] = len(buckets) - len(known_seen) if new else 0
        write_evidence(ctx, new)
        for key, (f, n) in known_seen.items():
            print("KNOWN-FINDING: property=%s %s [%s, %d cases]" % (pid, f["what"], key, n))
        for ln in lines:
            print(ln)
        print("%s %s seed=%d evaluations=%d nontrivial=%d violations=%d known=%d unconfirmed=%d wall=%.1fs" % (
            pid, tier, args.seed, ctx.evaluations, len(ctx.nt), new, len(known_seen), unconfirmed,
            time.time() - ctx.t0))
        if len(ctx.nt) < 2 or ctx.evaluations < 1:
            print("HARNESS ERROR: vacuous run (no non-trivial cases)")
            return 2
        return 1 if new else 0
    except SystemExit:
        raise
    except BaseException:
        traceback.print_exc()
        print("HARNESS ERROR property=%s (exit 2, not a verdict)" % pid)
        return 2
