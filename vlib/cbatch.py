"""Ask real C compilers which bytes a batch of literal texts denotes.

dump(entries, outdir, name, compiler_key) -> list of bytes | None per entry

`entries` is a list of (kind, text):
    "s"  text is one or more adjacent string literals (with quotes)   -> the array content without the final NUL
    "a"  text is a brace initializer `{'a','b'}` for a char array     -> the whole array
    "c"  text is a character literal (with apostrophes)               -> one byte, (unsigned char) of its value
Every entry becomes `static const char e<i>[] = <text>;` on its own line, exactly the declaration form the Cython
code writer uses; a table of {pointer, size} and one dump loop print them (one fwrite pair per entry).
If the translation unit is rejected, the rejected entries are isolated (see dump()).
"""
import os
import re
import struct
import subprocess

COMPILERS = {
    "gcc": ["gcc", "-std=c99", "-trigraphs", "-O0", "-w"],
    "clang": ["clang", "-std=c11", "-trigraphs", "-O0", "-w", "-ferror-limit=0"],
}
MAIN = r"""
int main(void) {
    unsigned long i;
    for (i = 0; i < sizeof(T) / sizeof(T[0]); i++) {
        unsigned int n = (unsigned int) T[i].n;
        fwrite(&n, 4, 1, stdout);
        if (n) fwrite(T[i].p, 1, n, stdout);
    }
    return 0;
}
"""


class BatchError(Exception):
    pass


def render(entries):
    lines = ["#include <stdio.h>", "typedef struct { const char *p; unsigned long n; } E;"]
    tab = []
    for i, (kind, text) in enumerate(entries):
        if kind == "s":
            lines.append("static const char e%d[] = %s;" % (i, text))
            tab.append("{e%d, sizeof(e%d) - 1}" % (i, i))
        elif kind == "a":
            lines.append("static const char e%d[] = %s;" % (i, text))
            tab.append("{e%d, sizeof(e%d)}" % (i, i))
        elif kind == "c":
            lines.append("static const char e%d[1] = { (char) %s };" % (i, text))
            tab.append("{e%d, 1}" % i)
        else:
            raise ValueError(kind)
    lines.append("static const E T[] = {\n%s\n};" % ",\n".join(tab))
    lines.append(MAIN)
    return "\n".join(lines)


def _compile_run(entries, outdir, name, ckey):
    os.makedirs(outdir, exist_ok=True)
    c_path = os.path.join(outdir, name + ".c")
    exe = os.path.join(outdir, name + "." + ckey)
    with open(c_path, "w", encoding="latin-1", newline="") as f:
        f.write(render(entries))
    p = subprocess.run(COMPILERS[ckey] + ["-o", exe, c_path], stdout=subprocess.PIPE, stderr=subprocess.STDOUT,
                       timeout=900)
    if p.returncode != 0:
        return None, p.stdout.decode("latin-1")
    r = subprocess.run([exe], stdout=subprocess.PIPE, stderr=subprocess.PIPE, timeout=300)
    os.unlink(exe)
    if r.returncode != 0:
        raise BatchError("dump program failed rc=%s %s" % (r.returncode, r.stderr[-300:]))
    data = r.stdout
    out = []
    pos = 0
    for _ in entries:
        (n,) = struct.unpack_from("<I", data, pos)
        pos += 4
        out.append(data[pos:pos + n])
        pos += n
    if pos != len(data):
        raise BatchError("dump output has %d trailing bytes" % (len(data) - pos))
    return out, ""


class _Undecided:
    def __repr__(self):
        return "UNDECIDED"


UNDECIDED = _Undecided()
_ERRLINE = re.compile(r"\.c:(\d+):\d+: (?:fatal )?error")
FIRST_ENTRY_LINE = 3          # render(): entry i stands on line i + FIRST_ENTRY_LINE (1-based)


def dump(entries, outdir, name, ckey, errors=None, max_single=12, hint=()):
    """Returns a list with, per entry: bytes (what the compiler stored), None (the compiler rejects this literal,
    confirmed by compiling it alone) or UNDECIDED (the translation unit was rejected and this entry could not be
    judged within the budget).  `errors` (dict index -> compiler message) receives the messages of rejected entries.

    Isolation of rejected entries: every entry stands on its own source line, so the lines named in the compiler's
    error messages give the suspects; the unit is recompiled without them (at most 4 rounds), then up to `max_single`
    suspects are compiled alone to confirm the rejection.  `hint` = indices the caller expects to be rejected: they
    are kept out of the shared unit from the start (saves recompiling a large unit) and judged alone."""
    n = len(entries)
    result = [UNDECIDED] * n
    hint = set(hint)
    live = [i for i in range(n) if i not in hint]
    suspects = sorted(hint)
    for rnd in range(4):
        if not live:
            break
        res, msg = _compile_run([entries[i] for i in live], outdir, "%s_%d" % (name, rnd), ckey)
        if res is not None:
            for i, r in zip(live, res):
                result[i] = r
            break
        bad = set()
        for m in _ERRLINE.finditer(msg if len(msg) < 200000 else msg[:200000]):
            k = int(m.group(1)) - FIRST_ENTRY_LINE
            if 0 <= k < len(live):
                bad.add(live[k])
        if not bad:
            suspects.extend(live)        # cannot tell: everything stays undecided unless confirmed below
            live = []
            break
        suspects.extend(sorted(bad))
        live = [i for i in live if i not in bad]
    else:
        suspects.extend(live)
    for i in suspects[:max_single]:
        res, msg = _compile_run([entries[i]], outdir, "%s_one" % name, ckey)
        if res is None:
            result[i] = None
            if errors is not None:
                errors[i] = msg[-600:]
        else:
            result[i] = res[0]
    return result
