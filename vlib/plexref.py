"""Reference matcher for Plex lexicons (C50), written independently of Plex's NFA/DFA code.

A regular expression is a JSON-able AST (nested lists):

    ["str", s]  ["any", s]  ["anybut", s]  ["anychar"]  ["range", c1, c2]  ["empty"]
    ["seq", [re...]]  ["alt", [re...]]  ["rep", re]  ["rep1", re]  ["opt", re]
    ["nocase", re]  ["case", re]  ["bol"]  ["eol"]  ["eof"]

A lexicon is {"rules": [[state, re, target_state_or_None], ...]} - rule i of scanner state `state`
(""/"S1") returns value i and, if target is not None, switches the scanner to that state.

Semantics implemented here = the engine's *documented symbol stream*

    BOL c c ... EOL \\n BOL c ... EOL EOF

(every line, including an empty last one, is bracketed by BOL ... EOL; EOF follows the last EOL):
  * Bol / Eol / Eof consume their symbol (Eol may first skip a pending BOL: empty line);
  * a character class consumes one character symbol, transparently skipping a pending BOL;
    a class containing newline may additionally skip the pending EOL in front of the newline;
  * token = longest match counted in stream symbols, ties -> earliest rule;
  * token text = the characters between the character offsets of the first and one-past-last symbol;
  * position = (line, column) of the first symbol.
"""

BOL, EOL, EOF = "bol", "eol", "eof"


class Stream:
    """Symbol stream of a text with per-symbol character offset, line and line start."""

    def __init__(self, text):
        syms, pos, line, lstart = [], [], [], []
        cur_line, cur_start = 1, 0

        def put(s, p):
            syms.append(s)
            pos.append(p)
            line.append(cur_line)
            lstart.append(cur_start)
        put(BOL, 0)
        for p, c in enumerate(text):
            if c == "\n":
                put(EOL, p)
                put("\n", p)
                cur_line += 1
                cur_start = p + 1
                put(BOL, p + 1)
            else:
                put(c, p)
        put(EOL, len(text))
        put(EOF, len(text))
        # sentinel: one past the last symbol
        pos.append(len(text))
        line.append(cur_line)
        lstart.append(cur_start)
        self.text = text
        self.syms = syms
        self.pos = pos
        self.line = line
        self.lstart = lstart
        self.n = len(syms)


def _fold(c):
    if "a" <= c <= "z" or "A" <= c <= "Z":
        return c.swapcase()
    return None


def _class_pred(node):
    kind = node[0]
    if kind == "any":
        chars = frozenset(node[1])
        return lambda c: c in chars
    if kind == "anybut":
        chars = frozenset(node[1])
        return lambda c: c not in chars
    if kind == "anychar":
        return lambda c: True
    if kind == "range":
        lo, hi = node[1], node[2]
        return lambda c: lo <= c <= hi
    raise ValueError(node)


class BudgetExceeded(Exception):
    pass


class Matcher:
    """ends(node_id, k) -> frozenset of stream indices reachable by matching node from stream index k."""

    def __init__(self, lexicon):
        self.nodes = []       # post-order: (kind, payload, nocase)
        self.rules = []       # (state, node_id, target)
        for state, re, target in lexicon["rules"]:
            self.rules.append((state, self._compile(re, False), target))
        self.stream = None
        self.memo = None

    # -- compile the AST into a flat node table (children before parents)
    def _add(self, kind, payload, nocase):
        self.nodes.append((kind, payload, nocase))
        return len(self.nodes) - 1

    def _compile(self, re, nocase):
        kind = re[0]
        if kind == "str":
            ids = [self._add("cls", (lambda c, ch=ch: c == ch), nocase) for ch in re[1]]
            return self._add("seq", ids, nocase)
        if kind in ("any", "anybut", "anychar", "range"):
            return self._add("cls", _class_pred(re), nocase)
        if kind == "empty":
            return self._add("seq", [], nocase)
        if kind in ("seq", "alt"):
            return self._add(kind, [self._compile(x, nocase) for x in re[1]], nocase)
        if kind in ("rep", "rep1", "opt"):
            return self._add(kind, self._compile(re[1], nocase), nocase)
        if kind == "nocase":
            return self._compile(re[1], True)
        if kind == "case":
            return self._compile(re[1], False)
        if kind in (BOL, EOL, EOF):
            return self._add(kind, None, nocase)
        raise ValueError(re)

    def set_text(self, text, budget=None):
        """budget: optional bound on elementary matcher steps for this text (deterministic; BudgetExceeded is raised
        when it is used up - the caller then skips the pair as inconclusive)."""
        self.stream = Stream(text)
        self.memo = [dict() for _ in self.nodes]
        self.ops = 0
        self.budget = budget
        return self.stream

    def ends(self, nid, k):
        memo = self.memo[nid]
        r = memo.get(k)
        if r is None:
            self.ops += 1
            if self.budget is not None and self.ops > self.budget:
                raise BudgetExceeded()
            r = memo[k] = self._ends(nid, k)
        return r

    def _ends(self, nid, k):
        kind, payload, nocase = self.nodes[nid]
        st = self.stream
        syms, n = st.syms, st.n
        if kind == "cls":
            j = k
            if j < n and syms[j] == BOL:
                j += 1
            if j >= n:
                return frozenset()
            c = syms[j]
            if c == EOL:
                # only a class containing newline can go on: EOL is skipped in front of the newline itself
                if j + 1 < n and syms[j + 1] == "\n" and payload("\n"):
                    return frozenset((j + 2,))
                return frozenset()
            if c == EOF or c == BOL:
                return frozenset()
            if payload(c):
                return frozenset((j + 1,))
            if nocase:
                f = _fold(c)
                if f is not None and payload(f):
                    return frozenset((j + 1,))
            return frozenset()
        if kind == BOL:
            return frozenset((k + 1,)) if k < n and syms[k] == BOL else frozenset()
        if kind == EOL:
            j = k
            if j < n and syms[j] == BOL:
                j += 1
            return frozenset((j + 1,)) if j < n and syms[j] == EOL else frozenset()
        if kind == EOF:
            return frozenset((k + 1,)) if k < n and syms[k] == EOF else frozenset()
        if kind == "seq":
            cur = frozenset((k,))
            for child in payload:
                nxt = set()
                self.ops += len(cur)
                for j in cur:
                    nxt |= self.ends(child, j)
                if not nxt:
                    return frozenset()
                cur = nxt
            return frozenset(cur)
        if kind == "alt":
            out = set()
            for child in payload:
                out |= self.ends(child, k)
            return frozenset(out)
        if kind == "opt":
            return self.ends(payload, k) | {k}
        if kind in ("rep1", "rep"):
            # one or more repetitions: closure of "match the child again from where it ended" (iterative, so long
            # texts do not recurse deeply); a repetition that made no progress (j == k) adds nothing new
            out = set()
            todo = list(self.ends(payload, k))
            while todo:
                j = todo.pop()
                if j in out:
                    continue
                out.add(j)
                if j > k:
                    self.ops += 1
                    for i in self.ends(payload, j):
                        if i not in out:
                            todo.append(i)
            if kind == "rep":
                out.add(k)
            return frozenset(out)
        raise ValueError(kind)

    # -- tokenisation
    def match_at(self, state, k):
        """-> (rule index, end index, info) or None.  info: 'tie' if several rules share the longest match,
        'lens' if two rules match with different lengths."""
        best_end, best_rule = -1, None
        all_ends = set()
        nmatch = 0
        tie = False
        for idx, (rstate, nid, target) in enumerate(self.rules):
            if rstate != state:
                continue
            e = self.ends(nid, k)
            if not e:
                continue
            nmatch += 1
            all_ends |= e
            m = max(e)
            if m > best_end:
                best_end, best_rule, tie = m, idx, False
            elif m == best_end:
                tie = True
        if best_rule is None:
            return None
        return best_rule, best_end, (tie, nmatch >= 2 and len(all_ends) >= 2)

    def tokens(self, text, limit, budget=None):
        """-> (list of (rule, text, line, col), ending, flags)
        ending: 'limit' | 'nomatch-chars-remain' | 'nomatch-at-end'"""
        st = self.set_text(text, budget)
        k = 0
        state = ""
        out = []
        tie = lens = False
        while len(out) < limit:
            m = self.match_at(state, k)
            if m is None:
                ending = "nomatch-chars-remain" if st.pos[k] < len(text) else "nomatch-at-end"
                return out, ending, (tie, lens)
            rule, end, (t, l) = m
            tie |= t
            lens |= l
            out.append((rule, text[st.pos[k]:st.pos[end]], st.line[k], st.pos[k] - st.lstart[k]))
            target = self.rules[rule][2]
            if target is not None:
                state = target
            k = end
        return out, "limit", (tie, lens)


# --------------------------------------------------------------------------- AST helpers

def re_kinds(re, out=None):
    out = set() if out is None else out
    out.add(re[0])
    if re[0] in ("seq", "alt"):
        for x in re[1]:
            re_kinds(x, out)
    elif re[0] in ("rep", "rep1", "opt", "nocase", "case"):
        re_kinds(re[1], out)
    return out


def build_plex_re(re):
    """AST -> Cython.Plex RE object (imports Plex from the active source view)."""
    from Cython import Plex
    kind = re[0]
    if kind == "str":
        return Plex.Str(re[1])
    if kind == "any":
        return Plex.Any(re[1])
    if kind == "anybut":
        return Plex.AnyBut(re[1])
    if kind == "anychar":
        return Plex.AnyChar
    if kind == "range":
        return Plex.Range(re[1], re[2])
    if kind == "empty":
        return Plex.Empty
    if kind == "seq":
        return Plex.Seq(*[build_plex_re(x) for x in re[1]])
    if kind == "alt":
        return Plex.Alt(*[build_plex_re(x) for x in re[1]])
    if kind == "rep":
        return Plex.Rep(build_plex_re(re[1]))
    if kind == "rep1":
        return Plex.Rep1(build_plex_re(re[1]))
    if kind == "opt":
        return Plex.Opt(build_plex_re(re[1]))
    if kind == "nocase":
        return Plex.NoCase(build_plex_re(re[1]))
    if kind == "case":
        return Plex.Case(build_plex_re(re[1]))
    if kind == BOL:
        return Plex.Bol
    if kind == EOL:
        return Plex.Eol
    if kind == EOF:
        return Plex.Eof
    raise ValueError(re)


def build_plex_lexicon(lexicon):
    """-> Plex.Lexicon whose rule i returns i (as 'r<i>') and switches state through scanner.begin()."""
    from Cython import Plex

    def action(idx, target):
        if target is None:
            return "r%d" % idx           # plain value -> Actions.Return
        def act(scanner, text):          # callable -> Actions.Call
            scanner.begin(target)
            return "r%d" % idx
        return act

    default, states = [], {}
    for idx, (state, re, target) in enumerate(lexicon["rules"]):
        item = (build_plex_re(re), action(idx, target))
        if state == "":
            default.append(item)
        else:
            states.setdefault(state, []).append(item)
    spec = list(default)
    for name in sorted(states):
        spec.append(Plex.State(name, states[name]))
    # a state that is a Begin target but has no rules still has to exist
    for _, _, target in lexicon["rules"]:
        if target and target not in states:
            states[target] = []
            spec.append(Plex.State(target, []))
    return Plex.Lexicon(spec)
