"""Helper classes available to generated cases as S.<name> (and to generated modules via import)."""


class IntSub(int):
    pass


class FloatSub(float):
    pass


class StrSub(str):
    pass


class BytesSub(bytes):
    pass


class ListSub(list):
    pass


class DictSub(dict):
    pass


class TupleSub(tuple):
    pass


class SetSub(set):
    pass


class Idx:
    """Object with __index__."""
    def __init__(self, v):
        self.v = v

    def __index__(self):
        if isinstance(self.v, BaseException):
            raise self.v
        return self.v

    def __canon__(self):
        return ("Idx", repr(self.v))


class IntOnly:
    """Object with only __int__."""
    def __init__(self, v):
        self.v = v

    def __int__(self):
        if isinstance(self.v, BaseException):
            raise self.v
        return self.v


class Plain:
    def __repr__(self):
        return "<Plain>"

    def __canon__(self):
        return "Plain"


class Unhashable:
    __hash__ = None

    def __eq__(self, other):
        return isinstance(other, Unhashable)

    def __canon__(self):
        return "Unhashable"


class RAdd:
    """Defines only reflected arithmetic; returns a tag."""
    def __radd__(self, o): return ("radd", o)
    def __rsub__(self, o): return ("rsub", o)
    def __rmul__(self, o): return ("rmul", o)
    def __rtruediv__(self, o): return ("rtruediv", o)
    def __rfloordiv__(self, o): return ("rfloordiv", o)
    def __rmod__(self, o): return ("rmod", o)
    def __rand__(self, o): return ("rand", o)
    def __ror__(self, o): return ("ror", o)
    def __rxor__(self, o): return ("rxor", o)
    def __rlshift__(self, o): return ("rlshift", o)
    def __rrshift__(self, o): return ("rrshift", o)
    def __eq__(self, o): return ("eq", o)
    def __ne__(self, o): return ("ne", o)
    __hash__ = None

    def __canon__(self):
        return "RAdd"


class IntOv(int):
    """int subclass overriding arithmetic dunders."""
    def __add__(self, o): return ("add", int(self), o)
    def __radd__(self, o): return ("radd", int(self), o)
    def __sub__(self, o): return ("sub", int(self), o)
    def __rsub__(self, o): return ("rsub", int(self), o)
    def __mul__(self, o): return ("mul", int(self), o)
    def __rmul__(self, o): return ("rmul", int(self), o)
    def __and__(self, o): return ("and", int(self), o)
    def __rand__(self, o): return ("rand", int(self), o)
    def __lshift__(self, o): return ("lshift", int(self), o)
    def __rshift__(self, o): return ("rshift", int(self), o)
    def __eq__(self, o): return ("eq", int(self), o)
    def __ne__(self, o): return ("ne", int(self), o)
    def __floordiv__(self, o): return ("floordiv", int(self), o)
    def __mod__(self, o): return ("mod", int(self), o)
    def __truediv__(self, o): return ("truediv", int(self), o)
    __hash__ = int.__hash__


class FloatOv(float):
    def __add__(self, o): return ("add", float(self), o)
    def __radd__(self, o): return ("radd", float(self), o)
    def __sub__(self, o): return ("sub", float(self), o)
    def __mul__(self, o): return ("mul", float(self), o)
    def __truediv__(self, o): return ("truediv", float(self), o)
    def __eq__(self, o): return ("eq", float(self), o)
    __hash__ = float.__hash__
