"""C37 in-runner driver: calls prange kernels under generated configurations and judges them against the sequential
Python loop (no-exit bodies) or the set of outcomes the documented best-effort exit rules allow (exit bodies).

SELF-CONTAINED (stdlib + numpy for the int arrays handed to memoryview arguments); loaded into the runner as
`prangedrive`.    prangedrive.run(M, '<json job list>') -> json summaries
Job: {"desc": kernel descriptor, "configs": [config...], "reps": r}
"""
import gc
import json

import numpy as np


class Boom(Exception):
    """Exception raised by generated iterations; counts its live instances."""
    live = 0

    def __init__(self, i):
        Exception.__init__(self, i)
        Boom.live += 1

    def __del__(self):
        Boom.live -= 1


def mk(i):
    return Boom(i)


def u64(v):
    return v & (2 ** 64 - 1)


def s64(v):
    v &= 2 ** 64 - 1
    return v - 2 ** 64 if v >= 2 ** 63 else v


def sequential_R(cfg):
    idxs = list(range(cfg["lo"], cfg["hi"], cfg["step"]))
    s = x = o = c = 0
    a = -1
    p = 1
    fx, fy = 0.0, 100.0
    last, i = -1, -999
    for i in idxs:
        s += i
        x ^= i * 7 + 1
        o |= i & 0xF0F
        a &= ~(1 << (i & 31))
        c -= 3
        p *= 1 + ((i % 7) == 0)
        fx += i * 0.5
        fy -= i * 0.25
        last = i * 2 + 1
    return {"s": s, "x": s64(x), "o": o, "a": s64(a), "c": c, "p": u64(p), "fx": fx, "fy": fy, "last": last, "i": i}


R_FIELDS = ["s", "x", "o", "a", "c", "p", "fx", "fy", "last", "i"]


def call_args(d, cfg):
    args = [cfg["lo"], cfg["hi"], cfg["step"], cfg["nt"]]
    if d["cs"]:
        args.append(cfg["cs"])
    return args


def nontrivial(d, cfg):
    n = len(range(cfg["lo"], cfg["hi"], cfg["step"]))
    if cfg["nt"] >= 2 and n >= 2 * cfg["nt"]:
        return True
    if d["body"] == "X" and cfg["act"]:
        return len({a for a in cfg["act"] if a}) >= 2
    return False


def judge_once(M, d, cfg):
    """-> None | (bucket suffix, text)"""
    f = getattr(M, d["k"])
    idxs = list(range(cfg["lo"], cfg["hi"], cfg["step"]))
    n = len(idxs)
    delay = np.array(cfg["delay"], dtype=np.intc)
    args = call_args(d, cfg)
    body = d["body"]
    if body == "R":
        got = f(*(args + [delay]))
        want = sequential_R(cfg)
        for name, g in zip(R_FIELDS, got):
            if name in ("last", "i") and n == 0:
                continue                      # nothing was assigned: not part of the statement
            w = want[name]
            if type(g) is not type(w) or g != w:
                return "field=%s" % name, "%s = %r, sequential loop gives %r (all: %r)" % (name, g, w, got)
        return None
    if body == "W":
        out = np.full(max(n, 1), -7, dtype=np.int64)
        gi = f(*(args + [delay, out]))
        want = [i * i + 1 for i in idxs]
        if out[:n].tolist() != want or (n == 0 and out[0] != -7):
            return "field=writes", "array %r, sequential loop gives %r" % (out[:n].tolist(), want)
        if n and gi != idxs[-1]:
            return "field=i", "index variable %r after the loop, last index is %r" % (gi, idxs[-1])
        return None
    if body == "G":
        seen = []
        s, gi = f(*(args + [delay, seen]))
        if sorted(seen) != sorted(idxs):
            return "field=gil-block", "iterations seen under the GIL %r, expected %r" % (sorted(seen), sorted(idxs))
        if s != 2 * sum(idxs):
            return "field=s", "s = %r, sequential %r" % (s, 2 * sum(idxs))
        if n and gi != idxs[-1]:
            return "field=i", "index variable %r after the loop, last index is %r" % (gi, idxs[-1])
        return None
    if body == "C":
        s, cnt, gi = f(*(args + [delay]))
        kept = [i for i in idxs if i % 3 != 0]
        if s != sum(kept) or cnt != len(kept):
            return "field=s", "(s, n) = %r, sequential %r" % ((s, cnt), (sum(kept), len(kept)))
        if n and gi != idxs[-1]:
            return "field=i", "index variable %r after the loop, last index is %r" % (gi, idxs[-1])
        return None
    # ---- exit bodies
    act = cfg["act"]
    actarr = np.array(act, dtype=np.intc)
    base = Boom.live
    try:
        got = f(*(args + [actarr, delay, mk]))
        outcome = ("ret", got[0] - 1000000) if got[0] >= 500000 else ("done", got[1])
    except Boom as e:
        outcome = ("exc", e.args[0])
        e = None
    except Exception as e:      # noqa
        return "outcome=foreign-exception", "raised %s: %s" % (type(e).__name__, e)
    raising = {idxs[j] for j in range(n) if act[j] == 3}
    returning = {idxs[j] for j in range(n) if act[j] == 2}
    breaking = {idxs[j] for j in range(n) if act[j] == 1}
    verdict = None
    if outcome[0] == "exc":
        if outcome[1] not in raising:
            verdict = ("outcome=exception-nobody-raised", "raised Boom(%r) but only iterations %r raise" % (outcome[1], sorted(raising)))
    elif outcome[0] == "ret":
        if outcome[1] not in returning:
            verdict = ("outcome=return-nobody-returned", "returned from iteration %r but only %r return" % (outcome[1], sorted(returning)))
    else:
        if not (breaking or raising or returning) and outcome[1] != sum(idxs):
            verdict = ("field=s", "no iteration exits: s = %r, sequential %r" % (outcome[1], sum(idxs)))
    if verdict is None:
        # outcomes that MUST happen
        if raising and not breaking and not returning and outcome[0] != "exc":
            verdict = ("outcome=exception-lost", "iterations %r raise and nothing else exits, outcome %r" % (sorted(raising), outcome))
        elif returning and not breaking and not raising and outcome[0] != "ret":
            verdict = ("outcome=return-lost", "iterations %r return and nothing else exits, outcome %r" % (sorted(returning), outcome))
        elif n and len(raising) == n and outcome[0] != "exc":
            verdict = ("outcome=exception-lost", "every iteration raises, outcome %r" % (outcome,))
        elif not (breaking or raising or returning) and outcome[0] != "done":
            verdict = ("outcome=spurious-exit", "no iteration exits, outcome %r" % (outcome,))
    if verdict is None and cfg["nt"] == 1 and d["sched"] in (None, "static") and n:
        # one thread, static schedule: exactly the sequential loop
        want = ("done", sum(idxs))
        acc = 0
        for j, i in enumerate(idxs):
            if act[j] == 1:
                want = ("done", acc)
                break
            if act[j] == 2:
                want = ("ret", i)
                break
            if act[j] == 3:
                want = ("exc", i)
                break
            acc += i
        if outcome != want:
            verdict = ("outcome=not-sequential-on-one-thread", "one thread: outcome %r, sequential loop gives %r" % (outcome, want))
    if Boom.live != base:
        gc.collect()
        if Boom.live != base:
            leaked = Boom.live - base
            Boom.live = base
            if verdict is None:
                verdict = ("exception-objects-leaked", "%d exception object(s) still alive after the call (outcome %r)" % (leaked, outcome))
    return verdict


def run_job(M, job):
    d = job["desc"]
    n = nt = nbad = 0
    cls = {}
    bad = []
    seen = set()
    ntkeys = []
    for cfg in job["configs"]:
        isnt = nontrivial(d, cfg)
        for rep in range(job.get("reps", 1)):
            v = judge_once(M, d, cfg)
            n += 1
            if v is not None:
                nbad += 1
                bucket = "%s|sched=%s%s|%s" % (d["body"], d["sched"] or "default", "+chunksize" if d["cs"] else "", v[0])
                if bucket not in seen and len(bad) < 10:
                    seen.add(bucket)
                    small = dict(cfg)
                    bad.append([bucket, {"desc": d, "config": small},
                                "%s(lo=%d, hi=%d, step=%d, num_threads=%d%s; act=%r): %s" % (
                                    d["k"], cfg["lo"], cfg["hi"], cfg["step"], cfg["nt"],
                                    ", chunksize=%d" % cfg["cs"] if d["cs"] else "", cfg["act"], v[1])])
                break
        for lab in ("body:" + d["body"], "sched:%s%s" % (d["sched"] or "default", "+cs" if d["cs"] else ""),
                    "threads:%s" % ("1" if cfg["nt"] == 1 else "2-4" if cfg["nt"] <= 4 else "5-16"),
                    "step:%s" % ("neg" if cfg["step"] < 0 else "1" if cfg["step"] == 1 else "pos>1"),
                    "iters:%s" % ("0" if cfg["lo"] == cfg["hi"] or not len(range(cfg["lo"], cfg["hi"], cfg["step"])) else "n")):
            cls[lab] = cls.get(lab, 0) + 1
        if isnt:
            nt += 1
            if len(ntkeys) < 6 and (nt & (nt - 1)) == 0:
                ntkeys.append([d["k"], cfg])
    return {"n": n, "nt": nt, "nbad": nbad, "cls": cls, "bad": bad, "ntkeys": ntkeys}


def run(M, jobs_json):
    return json.dumps([run_job(M, j) for j in json.loads(jobs_json)])
