"""C16 in-runner driver: drives compiled typed-memoryview kernels over many (array layout, runtime index) inputs
and judges every outcome against numpy basic indexing on the same array.

SELF-CONTAINED (stdlib + numpy): loaded by path into the runner subprocess, where it appears as `mvdrive`;
the check evaluates ONE runner case per kernel batch:   mvdrive.run(M, '<json job list>')  -> json summaries.

Job: {"desc": kernel descriptor (vlib/gen/mvshapes.py), "layouts": [layout spec...], "mode": "exh"|"rand"|"single",
      "n": inputs per layout (rand), "seed": int, "single": {...} (replay of one input)}
Summary: {"n", "nt", "nbad", "cls": {label: count}, "ntkeys": [...], "bad": [[bucket, case, what], ...]}
"""
import itertools
import json
import random

import numpy as np

HUGE = [2 ** 62, -2 ** 62, 2 ** 63 - 1, -2 ** 63]
HUGE_STEP = [2 ** 40, -2 ** 40]
NPDT = {"double": np.float64, "short": np.int16}
GUARD = 512


# ------------------------------------------------------------------------------------------------ arrays
def build_layout(spec, ctype):
    """-> (array view with spec['shape'], the whole 1-dim allocation incl. guard zones).  Element values are distinct.

    The view is constructed from explicit (offset, strides) over the guarded allocation, so that even empty views
    point into the allocation (numpy's own slicing resets the data pointer of empty results to the start of the
    allocation, where an out-of-bounds write of a kernel would corrupt the heap instead of a guard zone)."""
    shape, views, tr = list(spec["shape"]), list(spec["views"]), spec.get("T", False)
    if tr:
        shape, views = shape[::-1], views[::-1]
    alloc = []
    for n, v in zip(shape, views):
        alloc.append({"none": n, "step2": 2 * n, "rev": n, "rev2": 2 * n, "off": n + 2}[v])
    total = 1
    for x in alloc:
        total *= x
    D = len(alloc)
    est = [1] * D                      # element strides of the allocation block
    if spec.get("order", "C") == "C":
        for i in range(D - 2, -1, -1):
            est[i] = est[i + 1] * max(alloc[i + 1], 1)
    else:
        for i in range(1, D):
            est[i] = est[i - 1] * max(alloc[i - 1], 1)
    off = 0
    strides = []
    for n, v, st in zip(shape, views, est):
        if v == "none":
            strides.append(st)
        elif v == "step2":
            strides.append(2 * st)
        elif v == "rev":
            strides.append(-st); off += (n - 1) * st if n else 0
        elif v == "rev2":
            strides.append(-2 * st); off += (2 * n - 1) * st if n else 0
        else:
            strides.append(st); off += st
    dt = np.dtype(NPDT[ctype])
    # guard zones on both sides of the addressed block: out-of-bounds writes of a kernel show up in `full`
    full = np.arange(1 - GUARD, total + 1 + GUARD, dtype=dt)
    arr = np.ndarray(shape=tuple(shape), dtype=dt, buffer=full, offset=(GUARD + off) * dt.itemsize,
                     strides=tuple(x * dt.itemsize for x in strides))
    if tr:
        arr = arr.T
    assert list(arr.shape) == list(spec["shape"]), (arr.shape, spec)
    return arr, full


def layout_class(spec):
    D = len(spec["shape"])
    if any(v != "none" for v in spec["views"]):
        return "views"
    if spec.get("T") and D > 1:
        return "transposed"
    if spec.get("order") == "F" and D > 1:
        return "F"
    return "C"


def noncontig(spec):
    return layout_class(spec) != "C"


# ------------------------------------------------------------------------------------------------ index shapes
def src_dims(forms, D):
    """Source dimension addressed by each tuple position (None for 'e' / 'n')."""
    reals = [p for p, f in enumerate(forms) if f == "i" or f[0] == "s"]
    epos = forms.index("e") if "e" in forms else None
    out = [None] * len(forms)
    before = [p for p in reals if epos is None or p < epos]
    after = [p for p in reals if epos is not None and p > epos]
    for j, p in enumerate(before):
        out[p] = j
    for j, p in enumerate(after):
        out[p] = D - len(after) + j
    return out


def nints_of(forms):
    return [1 if f == "i" else (f.count("1") if f[0] == "s" else 0) for f in forms]


def make_index(forms, ints):
    """numpy index tuple + per-position value triples (start, stop, step) / (index,)"""
    it = iter(ints)
    idx, vals = [], []
    for f in forms:
        if f == "i":
            v = next(it)
            idx.append(v); vals.append((v,))
        elif f == "e":
            idx.append(Ellipsis); vals.append(None)
        elif f == "n":
            idx.append(None); vals.append(None)
        else:
            a = next(it) if f[1] == "1" else None
            b = next(it) if f[2] == "1" else None
            c = next(it) if f[3] == "1" else None
            idx.append(slice(a, b, c)); vals.append((a, b, c))
    return tuple(idx), vals


def bclass(v, n):
    if v is None:
        return "none"
    if v >= 2 ** 40:
        return "huge+"
    if v <= -2 ** 40:
        return "huge-"
    if 0 <= v < n:
        return "in+"
    if -n <= v < 0:
        return "in-"
    if v == n:
        return "eq"
    if v > n:
        return "hi"
    return "lo"


def sclass(c):
    if c is None:
        return "none"
    if c == 0:
        return "0"
    if c == 1:
        return "1"
    if c == -1:
        return "-1"
    if c >= 2 ** 40:
        return "hugepos"
    if c <= -2 ** 40:
        return "hugeneg"
    return "pos" if c > 0 else "neg"


def tokens(forms, vals, dims, shape):
    """Per-position class token, e.g. 's[in+:lo:neg]', 'i[hi]', 'e', 'n'."""
    out = []
    for f, v, d in zip(forms, vals, dims):
        if f == "i":
            out.append("i[%s]" % (bclass(v[0], shape[d]) if d is not None and d < len(shape) else "extra"))
        elif f in ("e", "n"):
            out.append(f)
        else:
            n = shape[d] if d is not None and d < len(shape) else 0
            out.append("s[%s:%s:%s]" % (bclass(v[0], n), bclass(v[1], n), sclass(v[2])))
    return out


def nontrivial_tokens(toks):
    for t in toks:
        if t.startswith("i["):
            if t != "i[in+]":
                return True
        elif t.startswith("s["):
            a, b, c = t[2:-1].split(":")
            if a != "in+" or b not in ("in+", "eq") or c not in ("none", "1"):
                return True
    return False


def error_conditions(forms, vals, dims, shape):
    conds = set()
    for f, v, d in zip(forms, vals, dims):
        if f == "i":
            n = shape[d]
            if not (-n <= v[0] < n):
                conds.add("IndexError")
        elif f[0] == "s" and v[2] == 0:
            conds.add("ValueError")
    return conds


def result_dim_positions(forms, D):
    """tuple position that produced each result dimension (-1 for implicit full slices)."""
    out = []
    real = sum(1 for f in forms if f == "i" or f[0] == "s")
    for p, f in enumerate(forms):
        if f == "i":
            continue
        if f == "e":
            out.extend([-1] * (D - real))
        else:
            out.append(p)
    if "e" not in forms:
        out.extend([-1] * (D - real))
    return out


# ------------------------------------------------------------------------------------------------ comparison
def describe(a):
    if isinstance(a, np.ndarray):
        return "ndarray(shape=%r, strides=%r, data=%r)" % (a.shape, a.strides, a.ravel().tolist()[:12])
    return repr(a)


def relation(exp_n, got_n):
    if exp_n == 0 and got_n > 0:
        return "empty->nonempty"
    if got_n < exp_n:
        return "fewer"
    if got_n > exp_n:
        return "more"
    return "same-count"


def compare_view(got, exp, src_size):
    """got: Cython memoryview object (or Python scalar), exp: numpy result.  -> None | (diffkind, text, result dim)"""
    if not isinstance(exp, np.ndarray):          # numpy scalar: element access
        want = exp.item()
        if type(got) is not type(want) or got != want:
            return "value", "element %r, numpy %r" % (got, want), None
        return None
    if not hasattr(got, "shape") or not hasattr(got, "strides"):
        return "type", "returned %s, numpy %s" % (type(got).__name__, describe(exp)), None
    gshape, gstrides = tuple(got.shape), tuple(got.strides)
    if gshape != exp.shape:
        rd = None
        if len(gshape) == len(exp.shape):
            rd = [i for i in range(len(gshape)) if gshape[i] != exp.shape[i]][0]
        rel = "rank"
        if rd is not None:
            rel = relation(exp.shape[rd], gshape[rd])
        return "shape:" + rel, "shape %r, numpy %r" % (gshape, exp.shape), rd
    if exp.size > 0:
        # strides of extent-1 dimensions carry no information (numpy's buffer export rewrites them), see notes/C16.md
        ds = [i for i in range(len(gstrides)) if gshape[i] > 1 and gstrides[i] != exp.strides[i]]
        if ds:
            return "strides", "strides %r, numpy %r (shape %r)" % (gstrides, exp.strides, gshape), ds[0]
    so = getattr(got, "suboffsets", None)
    if so is not None and any(x >= 0 for x in so):
        return "suboffsets", "suboffsets %r on a direct buffer" % (so,), None
    ga = np.asarray(got)
    if ga.shape != exp.shape or ga.dtype != exp.dtype:
        return "export", "exported buffer shape %r dtype %s, numpy %r %s" % (ga.shape, ga.dtype, exp.shape, exp.dtype), None
    if exp.size > 0:
        if any(n > 1 and a != b for n, a, b in zip(exp.shape, ga.strides, exp.strides)):
            return "export-strides", "exported strides %r, numpy %r" % (ga.strides, exp.strides), None
        if not np.array_equal(ga, exp):
            return "content", "elements %r, numpy %r" % (ga.ravel().tolist()[:12], exp.ravel().tolist()[:12]), None
        if ga.__array_interface__["data"][0] != exp.__array_interface__["data"][0]:
            return "pointer", "equal elements at a different address (not a view of the same memory)", None
    return None


class Acc:
    def __init__(self, maxbad, maxnt):
        self.n = self.nt = self.nbad = 0
        self.cls = {}
        self.ntkeys = []
        self.bad = []
        self.badcount = {}
        self.maxbad, self.maxnt = maxbad, maxnt

    def add(self, isnt, labels, key):
        self.n += 1
        for l in labels:
            self.cls[l] = self.cls.get(l, 0) + 1
        if isnt:
            self.nt += 1
            nt = self.nt
            if len(self.ntkeys) < self.maxnt and ((nt & (nt - 1)) == 0 or nt % 499 == 0):
                self.ntkeys.append(key)

    def fail(self, bucket, case, what):
        self.nbad += 1
        c = self.badcount.get(bucket, 0)
        self.badcount[bucket] = c + 1
        if c < 1 and len(self.bad) < self.maxbad:
            self.bad.append([bucket, case, what])

    def summary(self):
        return {"n": self.n, "nt": self.nt, "nbad": self.nbad, "cls": self.cls, "ntkeys": self.ntkeys,
                "bad": self.bad, "badcount": self.badcount}


# ------------------------------------------------------------------------------------------------ input generation
def rand_bound(rng, n):
    if rng.random() < 0.06:
        return rng.choice(HUGE)
    return rng.randint(-2 * n - 1, 2 * n + 1)


def rand_step(rng):
    r = rng.random()
    if r < 0.03:
        return 0
    if r < 0.07:
        return rng.choice(HUGE_STEP)
    return rng.choice((-3, -2, -1, -1, 1, 1, 2, 3))


def rand_index(rng, n):
    if n > 0 and rng.random() < 0.8:
        return rng.randint(-n, n - 1)
    return rand_bound(rng, n)


def rand_ints(rng, forms, dims, shape):
    out = []
    for f, d in zip(forms, dims):
        if f == "i":
            out.append(rand_index(rng, shape[d]))
        elif f[0] == "s":
            n = shape[d]
            if f[1] == "1":
                out.append(rand_bound(rng, n))
            if f[2] == "1":
                out.append(rand_bound(rng, n))
            if f[3] == "1":
                out.append(rand_step(rng))
    return out


def exh_ints(forms, dims, shape):
    """Every combination over [-2n-1, 2n+1] (+ huge) for bounds / indices and [-3, 3] (+ huge) for steps."""
    axes = []
    for f, d in zip(forms, dims):
        if f == "i":
            n = shape[d]
            axes.append(list(range(-2 * n - 1, 2 * n + 2)) + HUGE)
        elif f[0] == "s":
            n = shape[d]
            if f[1] == "1":
                axes.append(list(range(-2 * n - 1, 2 * n + 2)) + HUGE)
            if f[2] == "1":
                axes.append(list(range(-2 * n - 1, 2 * n + 2)) + HUGE)
            if f[3] == "1":
                axes.append([-3, -2, -1, 0, 1, 2, 3] + HUGE_STEP)
    return itertools.product(*axes)


# ------------------------------------------------------------------------------------------------ kernels: ct / setsl
def label_base(d, spec):
    return ["path:" + d["kind"], "D:%d" % d["D"], "dtype:" + d["ctype"], "layout:" + layout_class(spec)]


def bucket_of(path, diff, toks, rd, forms, D):
    if rd is not None:
        pos = result_dim_positions(forms, D)
        p = pos[rd] if rd < len(pos) else -1
        tok = toks[p] if p >= 0 else "implicit-full-slice"
        return "%s|diff=%s|dim=%s" % (path, diff, tok)
    return "%s|diff=%s|idx=%s" % (path, diff, ",".join(toks))


def eval_ct(f, d, arr, base, spec, ints, acc, twin=None, val=None):
    forms, D = d["forms"], d["D"]
    dims = src_dims(forms, D)
    idx, vals = make_index(forms, ints)
    toks = tokens(forms, vals, dims, arr.shape)
    conds = error_conditions(forms, vals, dims, arr.shape)
    path = d["kind"]
    case = {"kind": "one", "desc": d, "layout": spec, "ints": list(ints)}
    if val is not None:
        case["val"] = val
    labels = label_base(d, spec) + ["shape:" + ",".join(forms)]
    isnt = nontrivial_tokens(toks) or noncontig(spec)
    if path == "ct":
        try:
            exp = arr[idx]
            ek = "ok"
        except IndexError:
            ek = "IndexError"
        except ValueError:
            ek = "ValueError"
        try:
            got = f(arr, *ints)
            gk = "ok"
        except Exception as e:      # noqa
            got = e
            gk = type(e).__name__
    else:
        arr2, base2 = twin
        try:
            arr2[idx] = val
            ek = "ok"
        except IndexError:
            ek = "IndexError"
        except ValueError:
            ek = "ValueError"
        try:
            f(arr, *(list(ints) + [val]))
            gk = "ok"
        except Exception as e:      # noqa
            got = e
            gk = type(e).__name__
    for t in toks:
        if t[0] in "is":
            labels.append("in:" + t)
    labels.append("out:" + ek)
    acc.add(isnt, labels, [d["kind"], d["ctype"], D, forms, spec, list(ints)])
    if ek != "ok":
        assert ek in conds, ("oracle raised %s outside the modelled error conditions" % ek, forms, ints, arr.shape)
    if ek != gk:
        if ek != "ok" and gk in conds:
            return True          # several error conditions in one expression: any of them may be reported
        acc.fail("%s|exc:%s->%s|idx=%s" % (path, ek, gk, ",".join(toks)), case,
                 "%s m[%s] with ints %r on shape %r (%s): numpy %s, compiled %s%s" % (
                     d["ctype"], ",".join(forms), list(ints), arr.shape, layout_class(spec), ek, gk,
                     "" if gk == "ok" else ": %s" % (got,)))
        return False
    if ek != "ok":
        if path == "setsl" and not np.array_equal(base, twin[1]):
            acc.fail("%s|write-despite-exception|idx=%s" % (path, ",".join(toks)), case, "array modified although %s was raised" % gk)
            return False
        return True
    if path == "ct":
        r = compare_view(got, exp, arr.size)
        if r is not None:
            acc.fail(bucket_of(path, r[0], toks, r[2], forms, D), case,
                     "%s m[%s] with ints %r on shape %r strides %r (%s): %s" % (
                         d["ctype"], ",".join(forms), list(ints), arr.shape, arr.strides, layout_class(spec), r[1]))
            return False
    else:
        if not np.array_equal(base, twin[1]):
            gcnt, ecnt = int((base == val).sum()), int((twin[1] == val).sum())
            oob = not (np.array_equal(base[:GUARD], twin[1][:GUARD]) and np.array_equal(base[-GUARD:], twin[1][-GUARD:]))
            acc.fail("%s|diff=written:%s%s|slices=%s" % (path, relation(ecnt, gcnt), "+out-of-bounds" if oob else "",
                                                         ",".join(t for t in toks if t[0] == "s")), case,
                     "%s m[%s] = %r with ints %r on shape %r (%s): %d elements written, numpy writes %d%s" % (
                         d["ctype"], ",".join(forms), val, list(ints), arr.shape, layout_class(spec), gcnt, ecnt,
                         "; WRITES OUTSIDE THE ARRAY'S MEMORY BLOCK" if oob else ""))
            return False
    return True


def drive_ct(f, d, job, acc):
    forms, D = d["forms"], d["D"]
    dims = src_dims(forms, D)
    rng = random.Random(job.get("seed", 0))
    for li, spec in enumerate(job["layouts"]):
        arr, base = build_layout(spec, d["ctype"])
        twin = build_layout(spec, d["ctype"]) if d["kind"] == "setsl" else None
        if job["mode"] == "exh":
            it = exh_ints(forms, dims, arr.shape)
        else:
            it = (rand_ints(rng, forms, dims, arr.shape) for _ in range(job["n"]))
        for j, ints in enumerate(it):
            val = None
            if d["kind"] == "setsl":
                val = (-(j % 1000) - 1000) if d["ctype"] == "short" else -(j % 1000) - 1.5     # never a guard / element value
            ok = eval_ct(f, d, arr, base, spec, ints, acc, twin, val)
            if not ok and twin is not None:
                arr, base = build_layout(spec, d["ctype"])
                twin = build_layout(spec, d["ctype"])


# ------------------------------------------------------------------------------------------------ object path
def enc_item(x):
    if x is Ellipsis:
        return "e"
    if x is None:
        return "n"
    if isinstance(x, slice):
        return {"s": [x.start, x.stop, x.step]}
    if isinstance(x, float):
        return {"f": x}
    if isinstance(x, str):
        return {"t": x}
    return int(x)


def dec_item(x):
    if x == "e":
        return Ellipsis
    if x == "n":
        return None
    if isinstance(x, dict):
        if "s" in x:
            return slice(*x["s"])
        if "f" in x:
            return x["f"]
        return x["t"]
    return x


def enc_index(idx):
    if isinstance(idx, tuple):
        return {"tuple": [enc_item(x) for x in idx]}
    return {"single": enc_item(idx)}


def dec_index(e):
    if "tuple" in e:
        return tuple(dec_item(x) for x in e["tuple"])
    return dec_item(e["single"])


def rand_obj_index(rng, shape, allow_none=True):
    """Random runtime index for an array of this shape -> (index, forms, flags)."""
    D = len(shape)
    r = rng.random()
    if r < 0.72:
        k = rng.randint(1, D)
    elif r < 0.86:
        k = rng.randint(0, D)
    else:
        k = D + rng.randint(1, 2)            # too many indices
    items, forms = [], []
    ell = rng.random() < 0.3
    nnone = (1 if rng.random() < 0.12 else 0) if allow_none else 0
    kinds = ["r"] * k + (["e"] if ell else []) + ["n"] * nnone
    if ell or nnone:
        # place the ellipsis / newaxis at a random position, keep the order of the real items
        reals = ["r"] * k
        extra = (["e"] if ell else []) + ["n"] * nnone
        for x in extra:
            reals.insert(rng.randint(0, len(reals)), x)
        kinds = reals
    nreal = k
    epos = kinds.index("e") if "e" in kinds else None
    seen = 0
    bad_type = False
    for p, kd in enumerate(kinds):
        if kd == "e":
            items.append(Ellipsis); forms.append("e"); continue
        if kd == "n":
            items.append(None); forms.append("n"); continue
        if epos is None or p < epos:
            d = seen
        else:
            d = D - (nreal - seen)
        seen += 1
        n = shape[d] if 0 <= d < D else 3
        q = rng.random()
        if q < 0.015:
            items.append(rng.choice((1.5, "x"))); forms.append("i"); bad_type = True
        elif q < 0.45:
            items.append(rand_index(rng, n)); forms.append("i")
        else:
            a = rand_bound(rng, n) if rng.random() < 0.65 else None
            b = rand_bound(rng, n) if rng.random() < 0.65 else None
            c = rand_step(rng) if rng.random() < 0.55 else None
            items.append(slice(a, b, c))
            forms.append("s%d%d%d" % (a is not None, b is not None, c is not None))
    if len(items) == 1 and rng.random() < 0.5:
        idx = items[0]
    elif not items:
        idx = ()
    else:
        idx = tuple(items)
    return idx, forms, {"toomany": k > D, "none": nnone > 0, "badtype": bad_type}


def obj_tokens(idx, forms, shape):
    items = list(idx) if isinstance(idx, tuple) else [idx]
    D = len(shape)
    if sum(1 for f in forms if f == "i" or f[0] == "s") > D:
        dims = [None] * len(forms)
        cnt = 0
        for p, f in enumerate(forms):
            if f not in ("e", "n"):
                dims[p] = cnt
                cnt += 1
    else:
        dims = src_dims(forms, D)
    vals = []
    for it in items:
        if isinstance(it, slice):
            vals.append((it.start, it.stop, it.step))
        elif it is Ellipsis or it is None:
            vals.append(None)
        elif isinstance(it, int):
            vals.append((it,))
        else:
            vals.append((0,))
    return tokens(forms, vals, dims, shape), dims, vals


def eval_obj(o, d, arr, spec, idx, forms, flags, acc, chain=None):
    """One object-path evaluation o[idx] (and optionally o[idx][chain idx]) against numpy."""
    toks, dims, vals = obj_tokens(idx, forms, arr.shape)
    case = {"kind": "one", "desc": d, "layout": spec, "idx": enc_index(idx)}
    labels = label_base(d, spec)
    try:
        exp = arr[idx]
        ek = "ok"
    except IndexError:
        ek = "IndexError"
    except ValueError:
        ek = "ValueError"
    except TypeError:
        ek = "TypeError"
    try:
        got = o[idx]
        gk = "ok"
    except Exception as e:      # noqa
        got = e
        gk = type(e).__name__
    for t in toks:
        if t[0] in "is":
            labels.append("in:" + t)
    for fl, on in sorted(flags.items()):
        if on:
            labels.append("objidx:" + fl)
    labels.append("out:" + ek)
    isnt = nontrivial_tokens(toks) or noncontig(spec) or flags["toomany"]
    acc.add(isnt, labels, ["obj", d["ctype"], d["D"], spec, enc_index(idx)])
    where = "%s view, runtime index %r on shape %r (%s)" % (d["ctype"], idx, arr.shape, layout_class(spec))
    shape_tag = toomany_tag(forms, arr.ndim) if flags["toomany"] else ("badtype" if flags["badtype"] else ",".join(toks))
    if flags["badtype"] or flags["toomany"]:
        # documented classes: IndexError / TypeError (ValueError only if a zero step is present as well)
        allowed = {"IndexError", "TypeError"}
        if any(v is not None and len(v) == 3 and v[2] == 0 for v in vals):
            allowed.add("ValueError")
        if gk not in allowed:
            acc.fail("obj|exc:%s->%s|idx=%s%s" % (ek, gk, shape_tag, "+ellipsis" if "e" in forms else ""), case,
                     "%s: numpy %s, memoryview object %s%s" % (where, ek, gk, "" if gk != "ok" else " " + _short(got)))
            return None
        return None
    if flags["none"]:
        # numpy inserts an axis, Python's memoryview raises TypeError: both are accepted for the object path
        if gk == "TypeError":
            return None
    if ek != gk:
        conds = set()
        real = [(f, v, dm) for f, v, dm in zip(forms, vals, dims) if v is not None]
        for f, v, dm in real:
            if f == "i" and not (-arr.shape[dm] <= v[0] < arr.shape[dm]):
                conds.add("IndexError")
            if f[0] == "s" and v[2] == 0:
                conds.add("ValueError")
        if ek != "ok" and gk in conds:
            return None
        acc.fail("obj|exc:%s->%s|idx=%s" % (ek, gk, ",".join(toks)), case,
                 "%s: numpy %s, memoryview object %s%s" % (where, ek, gk, "" if gk == "ok" else ": %s" % (got,)))
        return None
    if ek != "ok":
        return None
    r = compare_view(got, exp, arr.size)
    if r is not None:
        acc.fail(bucket_of("obj", r[0], toks, r[2], forms, d["D"]), case, "%s: %s" % (where, r[1]))
        return None
    return got, exp


def toomany_tag(forms, D):
    """too-many:<forms of the surplus consuming positions>, e.g. too-many:slice,int"""
    reals = [f for f in forms if f not in ("e", "n")]
    return "too-many:" + ",".join("int" if f == "i" else "slice" for f in reals[D:])


def _short(x):
    try:
        if hasattr(x, "shape"):
            return "view(shape=%r, data=%r)" % (tuple(x.shape), np.asarray(x).ravel().tolist()[:8])
    except Exception:      # noqa
        pass
    return repr(x)[:80]


def drive_obj(f, d, job, acc):
    rng = random.Random(job.get("seed", 0))
    for spec in job["layouts"]:
        arr, base = build_layout(spec, d["ctype"])
        o = f(arr)
        # the exported view itself
        r = compare_view(o, arr, arr.size)
        acc.add(noncontig(spec), label_base(d, spec) + ["objidx:acquire"], ["objacq", d["ctype"], spec])
        if r is not None and r[0] not in ("pointer",):
            acc.fail("obj|acquire|diff=%s" % r[0], {"kind": "one", "desc": d, "layout": spec, "idx": enc_index(Ellipsis)},
                     "view of shape %r: %s" % (arr.shape, r[1]))
        for _ in range(job["n"]):
            idx, forms, flags = rand_obj_index(rng, arr.shape)
            res = eval_obj(o, d, arr, spec, idx, forms, flags, acc)
            if res is not None and isinstance(res[1], np.ndarray) and res[1].ndim >= 1 and rng.random() < 0.5:
                # chained indexing of the resulting memoryview object (a _memoryviewslice)
                got, exp = res
                idx2, forms2, flags2 = rand_obj_index(rng, exp.shape, allow_none=False)
                d2 = dict(d, D=exp.ndim)
                toks1 = idx
                r2 = eval_obj_chain(got, d2, exp, spec, idx, idx2, forms2, flags2, acc, arr.shape)


def eval_obj_chain(o2, d2, exp1, spec, idx1, idx2, forms2, flags2, acc, shape0):
    toks, dims, vals = obj_tokens(idx2, forms2, exp1.shape)
    d0 = dict(d2)
    case = {"kind": "one", "desc": dict(d2, D=len(shape0)), "layout": spec, "idx": enc_index(idx1), "idx2": enc_index(idx2)}
    labels = ["path:obj-chained", "dtype:" + d2["ctype"], "layout:" + layout_class(spec)]
    try:
        exp = exp1[idx2]
        ek = "ok"
    except (IndexError, ValueError, TypeError) as e:
        ek = type(e).__name__
    try:
        got = o2[idx2]
        gk = "ok"
    except Exception as e:      # noqa
        got = e
        gk = type(e).__name__
    labels.append("out:" + ek)
    acc.add(True, labels, ["objchain", d2["ctype"], spec, enc_index(idx1), enc_index(idx2)])
    where = "%s view of shape %r, o[%r][%r]" % (d2["ctype"], shape0, idx1, idx2)
    if flags2["badtype"] or flags2["toomany"]:
        allowed = {"IndexError", "TypeError"}
        if any(v is not None and len(v) == 3 and v[2] == 0 for v in vals):
            allowed.add("ValueError")
        if gk not in allowed:
            tag = toomany_tag(forms2, exp1.ndim) if flags2["toomany"] else "badtype"
            acc.fail("obj-chained|exc:%s->%s|idx=%s%s" % (ek, gk, tag, "+ellipsis" if "e" in forms2 else ""), case,
                     "%s: numpy %s, memoryview object %s%s" % (where, ek, gk, "" if gk != "ok" else " " + _short(got)))
        return
    if ek != gk:
        conds = set()
        for f, v, dm in zip(forms2, vals, dims):
            if v is None:
                continue
            if f == "i" and not (-exp1.shape[dm] <= v[0] < exp1.shape[dm]):
                conds.add("IndexError")
            if f[0] == "s" and v[2] == 0:
                conds.add("ValueError")
        if ek != "ok" and gk in conds:
            return
        acc.fail("obj-chained|exc:%s->%s|idx=%s" % (ek, gk, ",".join(toks)), case,
                 "%s: numpy %s, memoryview object %s%s" % (where, ek, gk, "" if gk == "ok" else ": %s" % (got,)))
        return
    if ek != "ok":
        return
    r = compare_view(got, exp, exp1.size)
    if r is not None:
        acc.fail(bucket_of("obj-chained", r[0], toks, r[2], forms2, exp1.ndim), case, "%s: %s" % (where, r[1]))


def forms_of_index(idx):
    items = list(idx) if isinstance(idx, tuple) else [idx]
    forms = []
    for it in items:
        if it is Ellipsis:
            forms.append("e")
        elif it is None:
            forms.append("n")
        elif isinstance(it, slice):
            forms.append("s%d%d%d" % (it.start is not None, it.stop is not None, it.step is not None))
        else:
            forms.append("i")
    return forms


def flags_of_index(idx, D):
    items = list(idx) if isinstance(idx, tuple) else [idx]
    k = sum(1 for it in items if it is not Ellipsis and it is not None)
    return {"toomany": k > D, "none": any(it is None for it in items),
            "badtype": any(isinstance(it, (float, str)) for it in items)}


# ------------------------------------------------------------------------------------------------ T / copy
def drive_whole(f, d, job, acc):
    kind = d["kind"]
    for spec in job["layouts"]:
        arr, base = build_layout(spec, d["ctype"])
        if arr.size == 0 and kind != "T":
            continue        # copy() of an empty view is rejected by cython.view.array (outside the statement)
        case = {"kind": "one", "desc": d, "layout": spec}
        acc.add(noncontig(spec), label_base(d, spec), [kind, d["ctype"], spec])
        try:
            got = f(arr)
        except Exception as e:      # noqa
            acc.fail("%s|exc:ok->%s|layout=%s" % (kind, type(e).__name__, layout_class(spec)), case,
                     "m.%s on shape %r raised %s: %s" % (kind, arr.shape, type(e).__name__, e))
            continue
        if kind == "T":
            r = compare_view(got, arr.T, arr.size)
        else:
            exp = np.array(arr, order="C" if kind == "copy" else "F")
            r = compare_view(got, exp, arr.size)
            if r is not None and r[0] == "pointer":
                r = None
            elif r is None and arr.size > 0 and np.asarray(got).__array_interface__["data"][0] == arr.__array_interface__["data"][0]:
                r = ("alias", "copy aliases the source buffer", None)
        if r is not None:
            acc.fail("%s|diff=%s|layout=%s" % (kind, r[0], layout_class(spec)), case,
                     "%s view of shape %r strides %r, m.%s: %s" % (d["ctype"], arr.shape, arr.strides, kind, r[1]))


# ------------------------------------------------------------------------------------------------ entry points
def run_job(M, job):
    d = job["desc"]
    acc = Acc(job.get("maxbad", 10), job.get("maxnt", 12))
    f = getattr(M, d["k"])
    if job["mode"] == "single":
        s = job["single"]
        spec = s["layout"]
        arr, base = build_layout(spec, d["ctype"])
        if d["kind"] in ("ct", "setsl"):
            twin = build_layout(spec, d["ctype"]) if d["kind"] == "setsl" else None
            eval_ct(f, d, arr, base, spec, s["ints"], acc, twin, s.get("val"))
        elif d["kind"] == "obj":
            o = f(arr)
            idx = dec_index(s["idx"])
            res = eval_obj(o, d, arr, spec, idx, forms_of_index(idx), flags_of_index(idx, arr.ndim), acc)
            if "idx2" in s and res is not None:
                got, exp = res
                idx2 = dec_index(s["idx2"])
                eval_obj_chain(got, dict(d, D=exp.ndim), exp, spec, idx, idx2, forms_of_index(idx2),
                               flags_of_index(idx2, exp.ndim), acc, arr.shape)
        else:
            drive_whole(f, d, dict(job, layouts=[spec]), acc)
    elif d["kind"] in ("ct", "setsl"):
        drive_ct(f, d, job, acc)
    elif d["kind"] == "obj":
        drive_obj(f, d, job, acc)
    else:
        drive_whole(f, d, job, acc)
    return acc.summary()


def run(M, jobs_json):
    jobs = json.loads(jobs_json)
    return json.dumps([run_job(M, j) for j in jobs])
