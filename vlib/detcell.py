"""C42 cell runner (executed as a subprocess with PYTHONPATH = source view and a chosen PYTHONHASHSEED).

usage: python detcell.py job.json
job = {"dir": project dir (cwd), "modules": [file names in compilation order], "mode": "compile"|"cythonize",
       "nthreads": int, "isolated": bool (mode compile: fork one child per module before anything is compiled),
       "out": result json}
result = {"hashseed": ..., "modules": {file: {"status": "ok"|"error"|"crash:..", "files": {name: sha256}}}}
Generated files stay in the project dir (<stem>.c/.cpp/.h) so the driver can diff them.
"""
import hashlib
import io
import json
import os
import re
import sys

CPLUS = re.compile(r"^#\s*distutils:\s*language\s*=\s*c\+\+", re.M)


def outputs(stem):
    out = {}
    for ext in (".c", ".cpp", ".h", "_api.h"):
        p = stem + ext
        if os.path.exists(p):
            with open(p, "rb") as f:
                out[p] = hashlib.sha256(f.read()).hexdigest()[:24]
    return out


def clean(stem):
    for ext in (".c", ".cpp", ".h", "_api.h"):
        if os.path.exists(stem + ext):
            os.unlink(stem + ext)


def compile_one(fn):
    from Cython.Compiler import Main, Options, Errors
    stem = os.path.splitext(fn)[0]
    clean(stem)
    with open(fn, encoding="utf-8", errors="replace") as f:
        head = f.read(4000)
    opts = Options.CompilationOptions(Options.default_options, cplus=bool(CPLUS.search(head)))
    old = sys.stderr
    sys.stderr = io.StringIO()
    try:
        try:
            res = Main.compile(fn, opts)
            status = "ok" if res.num_errors == 0 else "error"
        except Errors.CompileError:
            status = "error"
        except Exception as e:
            status = "crash:%s" % type(e).__name__
    finally:
        sys.stderr = old
    return {"status": status, "files": outputs(stem) if status == "ok" else {}}


def main():
    with open(sys.argv[1]) as f:
        job = json.load(f)
    os.chdir(job["dir"])
    result = {}
    if job["mode"] == "compile":
        from Cython.Compiler import Main, Scanning     # noqa: F401
        if job.get("isolated"):
            Scanning.get_lexicon()
            for fn in job["modules"]:
                r, w = os.pipe()
                pid = os.fork()
                if pid == 0:
                    os.close(r)
                    try:
                        data = json.dumps(compile_one(fn))
                    except BaseException as e:
                        data = json.dumps({"status": "crash:%s" % type(e).__name__, "files": {}})
                    os.write(w, data.encode())
                    os._exit(0)
                os.close(w)
                chunks = []
                while True:
                    b = os.read(r, 65536)
                    if not b:
                        break
                    chunks.append(b)
                os.close(r)
                os.waitpid(pid, 0)
                try:
                    result[fn] = json.loads(b"".join(chunks).decode())
                except ValueError:
                    result[fn] = {"status": "crash:child-died", "files": {}}
        else:
            for fn in job["modules"]:
                result[fn] = compile_one(fn)
    else:
        from Cython.Build import cythonize
        for fn in job["modules"]:
            clean(os.path.splitext(fn)[0])
        old = sys.stderr, sys.stdout
        sys.stderr = sys.stdout = io.StringIO()
        try:
            try:
                cythonize(list(job["modules"]), nthreads=job.get("nthreads", 0), quiet=True, force=True,
                          exclude_failures=True)
            except BaseException as e:
                result["<cythonize>"] = {"status": "crash:%s" % type(e).__name__, "files": {}}
        finally:
            sys.stderr, sys.stdout = old
        for fn in job["modules"]:
            files = outputs(os.path.splitext(fn)[0])
            result[fn] = {"status": "ok" if files else "error", "files": files}
    with open(job["out"] + ".tmp", "w") as f:
        json.dump({"hashseed": os.environ.get("PYTHONHASHSEED"), "modules": result}, f)
    os.replace(job["out"] + ".tmp", job["out"])


if __name__ == "__main__":
    main()
