"""C48 support: state model of a small cythonize project, rendering of its files, one compilation step
in a forked child (cache on / cache off) and the cython.inline child driver.

A *state* is a JSON dict naming every input of one compilation:
  src, pxd, pxd2, pxi      variant numbers of mod.pyx / dep.pxd / dep2.pxd (cimported by dep.pxd) / inc.pxi
  incpath                  "incA" | "incB": include dir that provides dep3.pxd (different contents)
  language_level           3 | 2 | "3str"
  cplus                    bool
  modname                  "mod" | "pkg.mod"  (Extension name / --module-name)
  directives               {name: value}  non-default compiler directives
  options                  {name: value}  CompilationOptions fields (emit_linenums, compile_time_env, ...)
  globals                  {name: value}  module-level Cython.Compiler.Options settings (docstrings, ...)
"""
import hashlib
import json
import os
import shutil
import signal
import sys
import time

BASE_STATE = {
    "src": 0, "pxd": 0, "pxd2": 0, "pxi": 0, "incpath": "incA", "language_level": 3, "cplus": False,
    "modname": "mod", "directives": {}, "options": {"compile_time_env": {"FLAG": 0}}, "globals": {},
}

SRC_VARIANTS = {
    0: "base", 1: "semantic edit (constant)", 2: "comment appended at end of file",
    3: "comment line inserted inside a function", 4: "public + api declarations added (multi-file output)",
}


def canon(state):
    return json.dumps(state, sort_keys=True)


def state_id(entry, state):
    return hashlib.sha256((entry + "|" + canon(state)).encode()).hexdigest()[:16]


def mod_source(variant):
    const = 6 if variant == 1 else 5
    inner_comment = "    # an inserted comment line\n" if variant == 3 else ""
    public = ""
    if variant == 4:
        public = ("\ncdef public int pubfunc(int x) noexcept:\n    return x + 1\n\n"
                  "cdef api int apifunc(int x) noexcept:\n    return x + 2\n")
    tail = "# a trailing comment\n" if variant == 2 else ""
    return '''cimport dep
cimport dep3
include "inc.pxi"

CONST = %(const)d

def div(int a, int b):
    return a // b, a %% b

def idx(list l, int i, bytes bs):
%(inner_comment)s    return l[i], bs[i]

def f(x, y=1, *, z=2):
    """doc of f

    >>> f(1)[0]
    7
    """
    t = x + 1
    u = 1 / 2
    s = 'text'
    return t + INC_CONST, u, s

def one(a):
    return a

def ovf(int a, int b):
    return a * b + dep.twice(a) + dep3.three()

def cs():
    cdef const char* p = "abc"
    return p

def power(double x, int n, int m):
    return x ** n, n ** m

cdef class K:
    cdef public int v
    cdef list items
    def __add__(self, other):
        return 1
    def meth(self, K other):
        return other.v, self.items.append

cdef int cfunc(int x):
    return x + 1

def call_cfunc(x):
    return cfunc(x)

def gen():
    yield 1

async def coro():
    return 1

def sw(int x):
    if x == 1 or x == 2 or x == 3:
        return 1
    elif x == 4:
        return 2
    return 0

def unreachable():
    return 1
    print("never")

def meth_call(l):
    l.append(1)
    def inner(a):
        return a
    return inner(1)

def annotated(x: int, y: float):
    return x + y

def complexf(double complex z):
    return z * z
%(public)s
IF FLAG:
    def flagged():
        return 1
ELSE:
    def flagged():
        return 2
%(tail)s''' % {"const": const, "inner_comment": inner_comment, "public": public, "tail": tail}


def render_files(state):
    files = {
        "mod.pyx": mod_source(state["src"]),
        "dep.pxd": "cimport dep2\n\ncdef inline int twice(int x):\n    return %d * x + dep2.base()\n" % (2 + state["pxd"]),
        "dep2.pxd": "cdef inline int base():\n    return %d\n" % (10 + state["pxd2"]),
        "inc.pxi": "INC_CONST = %d\n" % (5 + state["pxi"]),
        "incA/dep3.pxd": "cdef inline int three():\n    return 3\n",
        "incB/dep3.pxd": "cdef inline int three():\n    return 33\n",
    }
    return files


# ----------------------------------------------------------------------------------------------
# axes: every way one input can change

CORE_AXES = [("src", 1), ("src", 2), ("src", 3), ("src", 4), ("pxd", 1), ("pxd2", 1), ("pxi", 1), ("incpath", "incB"),
             ("language_level", 2), ("language_level", "3str"), ("cplus", True), ("modname", "pkg.mod")]

OPTION_AXES = [("options", "emit_linenums", True), ("options", "c_line_in_traceback", False),
               ("options", "compile_time_env", {"FLAG": 1}),
               ("options", "relative_path_in_code_position_comments", False),
               ("options", "annotate", "default")]

GLOBAL_AXES = [("globals", "docstrings", False), ("globals", "embed_pos_in_docstring", True),
               ("globals", "generate_cleanup_code", 3), ("globals", "clear_to_none", False),
               ("globals", "embed", "main"), ("globals", "cache_builtins", False),
               ("globals", "closure_freelist_size", 0), ("globals", "lookup_module_cpdef", True),
               ("globals", "pre_import", "os"), ("globals", "warning_errors", True)]
# the `cython` command line can set only these module-level options
CLI_GLOBALS = {"docstrings", "embed_pos_in_docstring", "generate_cleanup_code", "embed", "pre_import", "warning_errors"}
CLI_OPTIONS = {"emit_linenums", "c_line_in_traceback", "compile_time_env", "annotate"}

# set_initial_path embeds the ABSOLUTE directory of the source file in the C code: the output then depends on where the
# project lives, which breaks the "same inputs in a fresh directory" oracle without any cache being involved
# linetrace / profile: the generated __Pyx_TraceLine()/__Pyx_TraceStart*() calls carry line-table offsets that are not
# deterministic on this tree (known finding C42-linetrace-offsets-nondeterministic: two compilations of the same inputs
# differ), so a byte comparison with a second compilation cannot judge the cache for them
SKIP_DIRECTIVES = {"linetrace", "profile", "set_initial_path", "language_level", "nogil", "gil", "with_gil", "callspec", "np_pythran", "formal_grammar",
                   "control_flow.dot_output", "control_flow.dot_annotate_defs", "preliminary_late_includes_cy28",
                   "py2_import", "warn", "test_body_needs_exception_handling"}
DIRECTIVE_VALUES = {
    "cpow": [True], "auto_pickle": [False], "infer_types": [True, False],
    "subinterpreters_compatible": ["shared_gil", "own_gil"], "embedsignature.format": ["python", "clinic"],
    "c_string_type": ["str", "bytearray"], "c_string_encoding": ["ascii", "utf8"], "c_compile_guard": ["MY_GUARD"],
}


def directive_axes():
    """[("directives", name, value)] for every module-level directive of the tree under test."""
    from Cython.Compiler import Options
    out = []
    for name, default in sorted(Options.get_directive_defaults().items()):
        if name in SKIP_DIRECTIVES or name.startswith("test_"):
            continue
        if name in DIRECTIVE_VALUES:
            for v in DIRECTIVE_VALUES[name]:
                out.append(("directives", name, v))
        elif isinstance(default, bool):
            out.append(("directives", name, not default))
    return out


def axis_label(axis):
    if len(axis) == 2:
        return "%s=%s" % (axis[0], json.dumps(axis[1]))
    return "%s:%s" % (axis[0][:-1], axis[1])


def apply_axis(state, axis):
    """Return the state with exactly that one input changed; toggles back to the base value if already set."""
    new = json.loads(canon(state))
    if len(axis) == 2:
        key, val = axis
        new[key] = BASE_STATE[key] if new[key] == val else val
    else:
        group, name, val = axis
        if group == "options" and name in BASE_STATE["options"]:
            new[group][name] = BASE_STATE["options"][name] if new[group].get(name) == val else val
        elif new[group].get(name) == val:
            del new[group][name]
        else:
            new[group][name] = val
    return new


def diff_axes(a, b):
    """Names of the inputs in which two states differ."""
    out = []
    for key in sorted(BASE_STATE):
        if isinstance(BASE_STATE[key], dict):
            for name in sorted(set(a[key]) | set(b[key])):
                if a[key].get(name, None) != b[key].get(name, None) or (name in a[key]) != (name in b[key]):
                    out.append("%s:%s" % (key[:-1], name))
        elif a[key] != b[key]:
            out.append(key)
    return out


def allowed(entry, axis):
    if entry == "cli" and len(axis) == 3:
        if axis[0] == "globals":
            return axis[1] in CLI_GLOBALS
        if axis[0] == "options":
            return axis[1] in CLI_OPTIONS
    return True


# ----------------------------------------------------------------------------------------------
# one compilation step

def _cli_args(state, cache):
    args = []
    if cache:
        args.append("--cache")
    args.append({2: "-2", 3: "-3", "3str": "--3str"}[state["language_level"]])
    if state["cplus"]:
        args.append("--cplus")
    args += ["-I", state["incpath"]]
    if state["modname"] != "mod":
        args += ["--module-name", state["modname"]]
    for name, val in sorted(state["directives"].items()):
        args += ["-X", "%s=%s" % (name, val)]
    for name, val in sorted(state["options"].items()):
        if name == "emit_linenums" and val:
            args.append("--line-directives")
        elif name == "c_line_in_traceback" and not val:
            args.append("--no-c-in-traceback")
        elif name == "compile_time_env":
            args += ["-E", ",".join("%s=%s" % kv for kv in sorted(val.items()))]
        elif name == "annotate" and val:
            args.append("-a")
        elif val not in (None, False) and name not in ("c_line_in_traceback",):
            raise ValueError("option %s has no command line flag" % name)
    for name, val in sorted(state["globals"].items()):
        if name == "docstrings" and not val:
            args.append("--no-docstrings")
        elif name == "embed_pos_in_docstring" and val:
            args.append("--embed-positions")
        elif name == "generate_cleanup_code":
            args += ["--cleanup", str(val)]
        elif name == "embed":
            args.append("--embed=%s" % val)
        elif name == "pre_import":
            args += ["--pre-import", val]
        elif name == "warning_errors" and val:
            args.append("-Werror")
        else:
            raise ValueError("global option %s has no command line flag" % name)
    args.append("mod.pyx")
    return args


def _child(entry, state, cache_dir):
    """Runs inside the forked child, cwd = project dir."""
    if entry == "cythonize":
        from Cython.Build import cythonize
        from Cython.Compiler import Options
        from distutils.extension import Extension
        for name, val in state["globals"].items():
            setattr(Options, name, val)
        kw = dict(state["options"])
        kw["compiler_directives"] = dict(state["directives"])
        kw["language_level"] = state["language_level"]
        kw["include_path"] = [state["incpath"]]
        if cache_dir:
            kw["cache"] = cache_dir
        # (cythonize(language=...) only applies to file patterns; Extension objects carry their own language)
        ext = Extension(state["modname"], ["mod.pyx"], language=("c++" if state["cplus"] else None))
        cythonize([ext], **kw)
    else:
        from Cython.Compiler import Main
        if cache_dir:
            os.environ["CYTHON_CACHE_DIR"] = cache_dir
        else:
            os.environ.pop("CYTHON_CACHE_DIR", None)
        sys.argv = ["cython"] + _cli_args(state, bool(cache_dir))
        Main.main(command_line=1)


def preload():
    """Import the compiler (from the source view) and build the scanner tables once in the parent, so that the
    forked step children start from a process that has imported Cython but never compiled anything."""
    from Cython.Build import Dependencies, Cache                            # noqa: F401
    from Cython.Compiler import (Main, Scanning, Pipeline, ModuleNode, Optimize, ParseTreeTransforms,   # noqa: F401
                                 TypeInference, FlowControl, Buffer, FusedNode, CmdLine, AnalysedTreeTransforms)
    import distutils.extension                                              # noqa: F401
    Scanning.get_lexicon()


def run_step(entry, state, projdir, cache_dir, timeout=240):
    """(Re)create the project dir with exactly the state's input files, compile in a forked child and return
    {"status": "ok"|"error"|"timeout", "files": {relpath: sha256}, "hit": bool, "log": tail}."""
    if os.path.isdir(projdir):
        shutil.rmtree(projdir)
    files = render_files(state)
    for rel, text in files.items():
        p = os.path.join(projdir, rel)
        os.makedirs(os.path.dirname(p), exist_ok=True)
        with open(p, "w", newline="") as f:
            f.write(text)
    logp = projdir.rstrip("/") + ".log"
    before = set(os.listdir(cache_dir)) if cache_dir else None
    sys.stdout.flush()
    sys.stderr.flush()
    pid = os.fork()
    if pid == 0:
        rc = 3
        try:
            os.chdir(projdir)
            fd = os.open(logp, os.O_WRONLY | os.O_CREAT | os.O_TRUNC, 0o644)
            os.dup2(fd, 1)
            os.dup2(fd, 2)
            sys.stdout = os.fdopen(1, "w", closefd=False)
            sys.stderr = os.fdopen(2, "w", closefd=False)
            try:
                _child(entry, state, cache_dir)
                rc = 0
            except SystemExit as e:
                rc = 0 if not e.code else 1
            except BaseException:
                import traceback
                traceback.print_exc()
                rc = 1
            sys.stdout.flush()
            sys.stderr.flush()
        finally:
            os._exit(rc)
    deadline = time.time() + timeout
    status = None
    while True:
        got, st = os.waitpid(pid, os.WNOHANG)
        if got:
            status = st
            break
        if time.time() > deadline:
            os.kill(pid, signal.SIGKILL)
            os.waitpid(pid, 0)
            break
        time.sleep(0.02)
    try:
        with open(logp, errors="replace") as f:
            log = f.read()
        os.unlink(logp)
    except OSError:
        log = ""
    out = {}
    for root, dirs, names in os.walk(projdir):
        for n in names:
            rel = os.path.relpath(os.path.join(root, n), projdir)
            if rel in files:
                continue
            with open(os.path.join(root, n), "rb") as f:
                out[rel] = hashlib.sha256(f.read()).hexdigest()[:20]
    if status is None:
        st = "timeout"
    elif os.WIFEXITED(status) and os.WEXITSTATUS(status) == 0:
        st = "ok"
    elif os.WIFEXITED(status) and os.WEXITSTATUS(status) == 1:
        st = "error"
    else:
        st = "died:%s" % status
    # a hit = successful step that stored nothing new in the cache dir (cythonize also says "Found compiled")
    hit = bool(cache_dir) and st == "ok" and set(os.listdir(cache_dir)) == before
    return {"status": st, "files": out, "hit": hit, "said_found": "Found compiled" in log, "log": log[-1500:]}


def result_key(res):
    """What the oracle compares: success/failure and the exact bytes of every produced file."""
    if res["status"] != "ok":
        return json.dumps([res["status"]])
    return json.dumps(["ok", sorted(res["files"].items())])


# ----------------------------------------------------------------------------------------------
# cython.inline

INLINE_BASE = {"code": "div", "args": "int", "language_level": None, "directives": {}, "incdir": "A"}
INLINE_CODES = {
    # name: (code, {argtype-variant: kwargs})
    # a // b: cdivision; 1 / 2: language_level (and cdivision); a * 2**62: overflowcheck (C long arguments)
    "div": "q = a // b\nr = 1 / 2\nreturn (q, r, a * 4611686018427387904)",
    "div2": "q = a // b\nr = 1 / 2\nreturn (q, r, a * 4611686018427387904, 0)",
}
# every variant has a different (type of a, type of b): equal types would share one module by design
INLINE_ARGS = {"int": {"a": -7, "b": 2}, "float": {"a": -7.5, "b": 2.0}, "mixed": {"a": -7, "b": 2.0},
               "str": {"a": "ab", "b": 2}}
INLINE_CORE = [("code", "div2"), ("args", "float"), ("args", "mixed"), ("language_level", 2)]
INLINE_REST = [("args", "str"), ("language_level", "3str"), ("directives", "cdivision", True),
               ("directives", "overflowcheck", True), ("directives", "language_level", 2)]
INLINE_AXES = INLINE_CORE + INLINE_REST


def inline_apply(state, axis):
    new = json.loads(canon(state))
    if len(axis) == 2:
        key, val = axis
        new[key] = INLINE_BASE[key] if new[key] == val else val
    else:
        _, name, val = axis
        if new["directives"].get(name) == val:
            del new["directives"][name]
        else:
            new["directives"][name] = val
    return new


def inline_diff(a, b):
    out = [k for k in ("code", "args", "language_level", "incdir") if a[k] != b[k]]
    for name in sorted(set(a["directives"]) | set(b["directives"])):
        if a["directives"].get(name, "<unset>") != b["directives"].get(name, "<unset>"):
            out.append("directive:" + name)
    return out


INLINE_CHILD = r'''
import json, os, sys
job = json.load(open(sys.argv[1]))
os.chdir(job["cwd"])
import cython
from Cython.Build import Inline
results = []
for call in job["calls"]:
    kw = dict(call["kwargs"])
    kw["lib_dir"] = job["lib_dir"]
    kw["quiet"] = True
    if call["language_level"] is not None:
        kw["language_level"] = call["language_level"]
    if call["directives"]:
        kw["cython_compiler_directives"] = call["directives"]
    kw["cython_include_dirs"] = [call["incdir"]]
    if job.get("force"):
        kw["force"] = True
    sys.stdout.flush()
    try:
        v = Inline.cython_inline(call["code"], locals={}, globals={}, **kw)
        r = ["ok", repr(v)]
    except BaseException as e:
        r = ["exc", type(e).__name__]
    results.append(r)
    with open(job["out"], "w") as f:
        json.dump(results, f)
'''


def inline_call(state, root):
    return {"code": INLINE_CODES[state["code"]], "kwargs": INLINE_ARGS[state["args"]],
            "language_level": state["language_level"], "directives": state["directives"],
            "incdir": os.path.join(root, "inc" + state["incdir"])}


def inline_prepare(root):
    for d, v in (("A", 1), ("B", 2)):
        os.makedirs(os.path.join(root, "inc" + d), exist_ok=True)
        with open(os.path.join(root, "inc" + d, "c48helper.pxd"), "w") as f:
            f.write("cdef inline int val():\n    return %d\n" % v)


def inline_run(states, root, lib_dir, tag, force=False, timeout=900):
    """Run the calls for `states` in ONE fresh python process sharing lib_dir; returns list of outcomes
    (shorter than states / padded with ["notrun"] if the process died or timed out)."""
    import subprocess
    inline_prepare(root)
    os.makedirs(lib_dir, exist_ok=True)
    jobp = os.path.join(root, "job.%s.json" % tag)
    outp = os.path.join(root, "out.%s.json" % tag)
    script = os.path.join(root, "inline_child.py")
    if not os.path.exists(script):
        with open(script + ".%d" % os.getpid(), "w") as f:
            f.write(INLINE_CHILD)
        os.replace(script + ".%d" % os.getpid(), script)
    with open(jobp, "w") as f:
        json.dump({"cwd": root, "lib_dir": lib_dir, "out": outp, "force": force,
                   "calls": [inline_call(s, root) for s in states]}, f)
    env = dict(os.environ)
    env["CFLAGS"] = "-O0 -w -fwrapv"
    env["PYTHONPATH"] = os.environ["CYVERIF_VIEW"]
    env["PYTHONDONTWRITEBYTECODE"] = "1"
    env.pop("CYTHON_CACHE_DIR", None)
    log = ""
    try:
        p = subprocess.run([sys.executable, script, jobp], env=env, cwd=root, timeout=timeout,
                           stdout=subprocess.PIPE, stderr=subprocess.STDOUT, text=True, errors="replace")
        log = p.stdout[-1500:]
    except subprocess.TimeoutExpired:
        log = "timeout"
    try:
        with open(outp) as f:
            res = json.load(f)
    except (OSError, ValueError):
        res = []
    for pth in (jobp, outp):
        try:
            os.unlink(pth)
        except OSError:
            pass
    return res + [["notrun", log]] * (len(states) - len(res))
