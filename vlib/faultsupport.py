"""Fault-injection support for C35 (engine E6): tracked objects whose every dunder is a potential failure point."""
import gc
import io
import sys

LIVE = 0
TICKS = 0
FAULT_AT = -1
DEAD_USE = 0
FIRED = False


class Injected(Exception):
    pass


def tick():
    global TICKS, FIRED
    TICKS += 1
    if TICKS == FAULT_AT:
        FIRED = True
        raise Injected(TICKS)


def _v(o):
    return o.v if isinstance(o, T) else o


class T:
    """Tracked int-like value: counts live instances; every special method ticks (may raise Injected)."""
    __slots__ = ("v", "dead", "__weakref__")

    def __init__(self, v):
        global LIVE
        self.v = v
        self.dead = False
        LIVE += 1

    def __del__(self):
        global LIVE
        LIVE -= 1
        self.dead = True

    def _chk(self):
        global DEAD_USE
        if self.dead:
            DEAD_USE += 1
        tick()

    def __canon__(self):
        return ("T", self.v)

    def __repr__(self):
        self._chk()
        return "T(%r)" % (self.v,)

    def __str__(self):
        self._chk()
        return "T%s" % (self.v,)

    def __format__(self, spec):
        self._chk()
        return format(self.v, spec)

    def __hash__(self):
        self._chk()
        return hash(self.v)

    def __bool__(self):
        self._chk()
        return bool(self.v)

    def __index__(self):
        self._chk()
        return int(self.v)

    def __int__(self):
        self._chk()
        return int(self.v)

    def __float__(self):
        self._chk()
        return float(self.v)

    def __neg__(self):
        self._chk()
        return T(-self.v)

    def __pos__(self):
        self._chk()
        return T(+self.v)

    def __invert__(self):
        self._chk()
        return T(~self.v)

    def __abs__(self):
        self._chk()
        return T(abs(self.v))

    def __round__(self, n=None):
        self._chk()
        return round(self.v, n)

    def __len__(self):
        self._chk()
        return abs(int(self.v)) % 5

    def __iter__(self):
        self._chk()
        return TIter(abs(int(self.v)) % 4)

    def __getitem__(self, i):
        self._chk()
        if isinstance(_v(i), int) and abs(_v(i)) > 3:
            raise IndexError("T index out of range")
        return T(self.v)

    def __contains__(self, x):
        self._chk()
        return _v(x) == self.v

    def __call__(self, *a, **k):
        self._chk()
        return T(len(a) + len(k))

    def __enter__(self):
        self._chk()
        return self

    def __exit__(self, *a):
        self._chk()
        return False


def _bin(name, fn, reflected=False):
    def op(self, other):
        self._chk()
        o = _v(other)
        if not isinstance(o, (int, float)):
            return NotImplemented
        try:
            return T(fn(o, self.v) if reflected else fn(self.v, o))
        except OverflowError:
            return T(0)
    op.__name__ = name
    return op


def _cmp(name, fn):
    def op(self, other):
        self._chk()
        o = _v(other)
        if not isinstance(o, (int, float)):
            return NotImplemented
        return fn(self.v, o)
    op.__name__ = name
    return op


import operator as _op

def _safe_shift(f):
    def g(a, b):
        if not isinstance(a, int) or not isinstance(b, int):
            raise TypeError("shift")
        if b < 0:
            raise ValueError("negative shift count")
        return f(a, min(b, 80))
    return g


def _safe_pow(a, b):
    if isinstance(b, int) and abs(b) > 6:
        b = 6
    return a ** b


for _n, _f in (("add", _op.add), ("sub", _op.sub), ("mul", _op.mul), ("floordiv", _op.floordiv), ("mod", _op.mod),
               ("truediv", _op.truediv), ("and", _op.and_), ("or", _op.or_), ("xor", _op.xor),
               ("lshift", _safe_shift(_op.lshift)), ("rshift", _safe_shift(_op.rshift)), ("pow", _safe_pow)):
    setattr(T, "__%s__" % _n, _bin("__%s__" % _n, _f))
    setattr(T, "__r%s__" % _n, _bin("__r%s__" % _n, _f, True))
for _n, _f in (("lt", _op.lt), ("le", _op.le), ("gt", _op.gt), ("ge", _op.ge), ("eq", _op.eq), ("ne", _op.ne)):
    setattr(T, "__%s__" % _n, _cmp("__%s__" % _n, _f))


class TIter:
    def __init__(self, n):
        self.n = n
        self.i = 0

    def __iter__(self):
        return self

    def __next__(self):
        tick()
        if self.i >= self.n:
            raise StopIteration
        self.i += 1
        return T(self.i)


def _canon_outcome(thunk, canon):
    try:
        r = thunk()
        out = ["ok", canon(r)]
        del r
    except BaseException as e:
        a = e.args
        out = ["exc", type(e).__name__, canon(a) if isinstance(e, Injected) else None]
        del e, a
    return out


def faultrun(M, thunk, canon, cap=40):
    """Run thunk() with no fault (count N ticks), then with the k-th tick raising Injected for selected k.
    Returns dict: N, runs = [[k, outcome, fired, live_delta, dead_use, refnanny_text, log], ...]."""
    global TICKS, FAULT_AT, FIRED, DEAD_USE
    runs = []
    log = getattr(M, "LOG", None)

    def one(k):
        global TICKS, FAULT_AT, FIRED, DEAD_USE
        if isinstance(log, list):
            del log[:]
        gc.collect()
        base = LIVE
        TICKS = 0
        FIRED = False
        DEAD_USE = 0
        FAULT_AT = k
        old = sys.stdout
        buf = io.StringIO()
        sys.stdout = buf
        try:
            out = _canon_outcome(thunk, canon)
        finally:
            sys.stdout = old
            FAULT_AT = -1
        n = TICKS
        lg = [canon(x) for x in log] if isinstance(log, list) else None
        if isinstance(log, list):
            del log[:]
        gc.collect()
        delta = LIVE - base
        txt = buf.getvalue()
        nanny = "\n".join(l for l in txt.splitlines() if "REFNANNY" in l or "refnanny" in l)[:600]
        return n, [k, out, FIRED, delta, DEAD_USE, nanny, lg]
    n0, r0 = one(-1)
    runs.append(r0)
    ks = list(range(1, n0 + 1))
    if len(ks) > cap:
        step = len(ks) / float(cap)
        ks = sorted(set(ks[int(i * step)] for i in range(cap)))
    for k in ks:
        runs.append(one(k)[1])
    return {"N": n0, "thinned": n0 > cap, "runs": runs}
