"""Reference reader for C string / character literal text (C11 5.1.1.2 phases 1-6, 6.4.4.4, 6.4.5).

Independent of the Cython sources: written from the C standard.  Input is the *text* that would stand in a C
source file (a str of code points < 256, or bytes); output is the byte sequence that a conforming compiler with
8-bit char and an ASCII-compatible execution character set stores for it (without the terminating NUL).

    read_string_literals(text)  -> bytes          one or more adjacent "..." literals (white space between them)
    read_char_literal(text)     -> int (0..255)   a single '...' literal, value as (unsigned char)

Any text that is not such a literal raises LiteralError(kind, message); `kind` is a short stable label.
"""

TRIGRAPHS = {"=": "#", "/": "\\", "'": "^", "(": "[", ")": "]", "!": "|", "<": "{", ">": "}", "-": "~"}
SIMPLE = {"'": 39, '"': 34, "?": 63, "\\": 92, "a": 7, "b": 8, "f": 12, "n": 10, "r": 13, "t": 9, "v": 11}
OCT = "01234567"
HEX = "0123456789abcdefABCDEF"
WS = " \t\n\v\f"


class LiteralError(Exception):
    def __init__(self, kind, msg):
        Exception.__init__(self, "%s: %s" % (kind, msg))
        self.kind = kind


def _text(t):
    if isinstance(t, (bytes, bytearray)):
        return bytes(t).decode("latin-1")
    for ch in t:
        if ord(ch) > 255:
            raise LiteralError("non-byte-char", "code point %#x in literal text" % ord(ch))
    return t


def phase12(text, trigraphs=True):
    """Translation phases 1 (trigraphs) and 2 (line splicing)."""
    s = _text(text)
    if trigraphs and "??" in s:
        out = []
        i = 0
        n = len(s)
        while i < n:
            if s[i] == "?" and i + 2 < n and s[i + 1] == "?" and s[i + 2] in TRIGRAPHS:
                out.append(TRIGRAPHS[s[i + 2]])
                i += 3
            else:
                out.append(s[i])
                i += 1
        s = "".join(out)
    if "\\\n" in s:
        s = s.replace("\\\n", "")
    return s


def _escape(s, i, end_quote):
    """s[i] is the character after a backslash; returns (value, next index)."""
    n = len(s)
    if i >= n:
        raise LiteralError("unterminated", "backslash at end of text")
    c = s[i]
    if c in SIMPLE:
        return SIMPLE[c], i + 1
    if c in OCT:
        v = 0
        k = 0
        while k < 3 and i < n and s[i] in OCT:
            v = v * 8 + OCT.index(s[i])
            i += 1
            k += 1
        if v > 255:
            raise LiteralError("escape-out-of-range", "octal escape value %d" % v)
        return v, i
    if c == "x":
        i += 1
        j = i
        v = 0
        while j < n and s[j] in HEX:
            v = v * 16 + int(s[j], 16)
            j += 1
        if j == i:
            raise LiteralError("bad-escape", "\\x without hex digits")
        if v > 255:
            raise LiteralError("escape-out-of-range", "hex escape value %#x" % v)
        return v, j
    if c in "uU":
        raise LiteralError("ucn", "universal character name in literal")
    raise LiteralError("bad-escape", "unknown escape \\%s" % c)


def read_string_literals(text, trigraphs=True):
    s = phase12(text, trigraphs)
    n = len(s)
    i = 0
    out = bytearray()
    count = 0
    while True:
        while i < n and s[i] in WS:
            i += 1
        if i >= n:
            break
        if s[i] != '"':
            raise LiteralError("junk-outside-literal", "character %r at offset %d outside a literal" % (s[i], i))
        i += 1
        while True:
            if i >= n:
                raise LiteralError("unterminated", "missing closing quote")
            c = s[i]
            if c == '"':
                i += 1
                break
            if c == "\n":
                raise LiteralError("raw-newline", "new-line inside string literal")
            if c == "\\":
                v, i = _escape(s, i + 1, '"')
                out.append(v)
            else:
                out.append(ord(c))
                i += 1
        count += 1
    if not count:
        raise LiteralError("no-literal", "no string literal in text")
    return bytes(out)


def read_char_literal(text, trigraphs=True):
    s = phase12(text, trigraphs).strip(WS)
    if len(s) < 3 or s[0] != "'" or s[-1] != "'":
        raise LiteralError("not-a-char-literal", repr(s))
    body = s[1:-1]
    if body[0] == "\\":
        v, j = _escape(body, 1, "'")
        if j != len(body):
            raise LiteralError("multi-char", "more than one character in %r" % s)
        return v
    if len(body) != 1:
        raise LiteralError("multi-char", "more than one character in %r" % s)
    if body in "'\n":
        raise LiteralError("bad-char", "unescaped %r in character literal" % body)
    return ord(body)


def split_initializer_list(text):
    """Split the inside of a `{'a','\\'',...}` initializer into its character-literal texts."""
    s = _text(text)
    items = []
    i = 0
    n = len(s)
    while i < n:
        while i < n and s[i] in WS + ",":
            i += 1
        if i >= n:
            break
        if s[i] != "'":
            raise LiteralError("junk-outside-literal", "character %r at offset %d in initializer" % (s[i], i))
        j = i + 1
        while True:
            if j >= n:
                raise LiteralError("unterminated", "missing closing apostrophe")
            if s[j] == "\\":
                j += 2
                continue
            if s[j] == "'":
                break
            j += 1
        items.append(s[i:j + 1])
        i = j + 1
    return items
