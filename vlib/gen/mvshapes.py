"""C16 generator: compile-time index shapes for typed memoryviews and the kernel modules built from them.

An index *shape* is a tuple of per-position forms:
    "i"      integer index (runtime Py_ssize_t)
    "sXYZ"   slice with start / stop / step present iff X / Y / Z == "1"   ("s000" is a bare ':')
    "e"      Ellipsis
    "n"      None (newaxis)
Runtime integers are passed as Py_ssize_t arguments a<p>, b<p>, c<p> (p = tuple position).

A kernel descriptor is a JSON-able dict {k, kind, ctype, D, forms, args} where kind is
    ct       return m[<shape>]                     (MemoryViewSliceBufferEntry.generate_buffer_slice_code,
                                                    or the element-access path when all D forms are "i")
    setsl    m[<shape>] = v        (scalar assignment to a compile-time slice / element)
    obj      return <object>m      (the driver indexes the memoryview object at run time: MemoryView.pyx)
    T / copy / copyf               m.T, m.copy(), m.copy_fortran()
"""
from hypothesis import strategies as st

from .. import hyp

SLICES = ["s000", "s100", "s010", "s110", "s001", "s101", "s011", "s111"]
FORMS = ["i"] + SLICES + ["e", "n"]
HEADER = "# cython: language_level=3\n"
CTYPES = {"double": "float64", "short": "int16"}


def nreal(forms):
    return sum(1 for f in forms if f == "i" or f[0] == "s")


def valid(forms, D):
    """Shapes both numpy and Cython define: at most one ellipsis, at most D consuming positions, <= 2 newaxes."""
    if not forms:
        return False
    if sum(1 for f in forms if f == "e") > 1 or sum(1 for f in forms if f == "n") > 2:
        return False
    return nreal(forms) <= D


def zero_dim_slice(forms, D):
    """All D dimensions integer-indexed AND the expression is still a slice (ellipsis / newaxis-free 0-dim result).

    m[i, j, ...] for a 2-dim view: numpy returns a 0-dim array; the compiler crashes on it (recorded finding
    C16-ct-zero-dim-slice-compiler-crash), so these shapes are excluded from the kernel modules by construction
    and exercised through the committed compile-only replay."""
    return "e" in forms and "n" not in forms and sum(1 for f in forms if f == "i") == D and nreal(forms) == D


def args_of(forms):
    out = []
    for p, f in enumerate(forms):
        if f == "i":
            out.append("a%d" % p)
        elif f[0] == "s":
            for bit, nm in zip(f[1:], "abc"):
                if bit == "1":
                    out.append("%s%d" % (nm, p))
    return out


def index_text(forms):
    parts = []
    for p, f in enumerate(forms):
        if f == "i":
            parts.append("a%d" % p)
        elif f == "e":
            parts.append("...")
        elif f == "n":
            parts.append("None")
        else:
            a = "a%d" % p if f[1] == "1" else ""
            b = "b%d" % p if f[2] == "1" else ""
            t = a + ":" + b
            if f[3] == "1":
                t += ":c%d" % p
            parts.append(t)
    return ", ".join(parts)


def mvtype(ctype, D):
    return "%s[%s]" % (ctype, ", ".join([":"] * D))


def kernel_text(d):
    k, kind, ctype, D, forms = d["k"], d["kind"], d["ctype"], d["D"], d["forms"]
    mt = mvtype(ctype, D)
    if kind == "ct":
        sig = "".join(", Py_ssize_t %s" % a for a in args_of(forms))
        return "def %s(%s m%s):\n    return m[%s]\n" % (k, mt, sig, index_text(forms))
    if kind == "setsl":
        sig = "".join(", Py_ssize_t %s" % a for a in args_of(forms))
        return "def %s(%s m%s, %s v):\n    m[%s] = v\n" % (k, mt, sig, ctype, index_text(forms))
    if kind == "obj":
        return "def %s(%s m):\n    return <object>m\n" % (k, mt)
    if kind == "T":
        return "def %s(%s m):\n    return m.T\n" % (k, mt)
    if kind == "copy":
        return "def %s(%s m):\n    return m.copy()\n" % (k, mt)
    if kind == "copyf":
        return "def %s(%s m):\n    return m.copy_fortran()\n" % (k, mt)
    raise ValueError(kind)


def single_source(d):
    return HEADER + kernel_text(d)


def module_source(descs):
    return HEADER + "\n".join(kernel_text(d) for d in descs)


# ---------------------------------------------------------------------------------------------- shape sets
def exhaustive_shapes(D, maxlen):
    """Every valid form tuple of length 1..maxlen for a D-dim view."""
    out = []
    level = [()]
    for _ in range(maxlen):
        level = [t + (f,) for t in level for f in FORMS]
        out.extend(t for t in level if valid(t, D))
    return [list(t) for t in out]


@st.composite
def shape_strategy(draw, D, minlen, maxlen):
    n = draw(st.integers(minlen, maxlen))
    forms = []
    for _ in range(n):
        forms.append(draw(st.sampled_from(["i", "i"] + SLICES + ["s111", "s101", "e", "n"])))
    return forms


def sample_shapes(D, n, minlen, maxlen, seed, *parts, exclude=()):
    """n distinct valid Hypothesis-drawn shapes for a D-dim view (deterministic in seed)."""
    seen = {tuple(t) for t in exclude}
    out = []
    rounds = 0
    while len(out) < n and rounds < 6:
        for forms in hyp.draw_many(shape_strategy(D, minlen, maxlen), 6 * n + 1, seed, "mvshapes", D, rounds, *parts)[1:]:
            t = tuple(forms)
            if t in seen or not valid(t, D):
                continue
            seen.add(t)
            out.append(list(forms))
            if len(out) >= n:
                break
        rounds += 1
    return out


def _mk(descs, kind, ctype, D, forms):
    d = {"k": "k%d" % len(descs), "kind": kind, "ctype": ctype, "D": D, "forms": list(forms),
         "args": args_of(forms)}
    descs.append(d)
    return d


SETSL_SHAPES = {1: [["i"], ["s111"], ["s110"], ["s001"], ["e"]],
                2: [["i", "i"], ["s111", "i"], ["i", "s111"], ["s111", "s111"], ["s110"], ["e", "s011"]],
                3: [["i", "i", "i"], ["i", "s111", "s001"], ["s101", "e", "i"], ["s111", "s111", "s111"]]}


def build_modules(seed, quick):
    """-> [(module name, descriptors)], excluded-shape count.  Two modules (memoryview C code is slow to compile)."""
    excluded = [0]

    def keep(shapes, D):
        out = []
        for t in shapes:
            if zero_dim_slice(t, D):
                excluded[0] += 1
            else:
                out.append(t)
        return out

    a, b = [], []
    # module A: double, 1-dim and 2-dim views, exhaustive shapes up to length 2 + a sample of longer ones
    for t in keep(exhaustive_shapes(1, 2), 1):
        _mk(a, "ct", "double", 1, t)
    ex2 = exhaustive_shapes(2, 2)
    for t in keep(ex2, 2):
        _mk(a, "ct", "double", 2, t)
    for t in keep(sample_shapes(2, 24 if quick else 60, 3, 4, seed, "d2long", exclude=ex2), 2):
        _mk(a, "ct", "double", 2, t)
    for D in (1, 2):
        for kind in ("obj", "T", "copy", "copyf"):
            _mk(a, kind, "double", D, [])
        for t in SETSL_SHAPES[D]:
            _mk(a, "setsl", "double", D, t)
    # module B: short (int16) 3-dim sample, short 1/2-dim samples, double 3-dim sample, object path for the rest
    for t in keep(sample_shapes(3, 80 if quick else 160, 1, 4, seed, "s3"), 3):
        _mk(b, "ct", "short", 3, t)
    for t in keep(sample_shapes(3, 24 if quick else 80, 1, 4, seed, "d3"), 3):
        _mk(b, "ct", "double", 3, t)
    for t in keep(sample_shapes(2, 24 if quick else 60, 1, 3, seed, "s2"), 2):
        _mk(b, "ct", "short", 2, t)
    for t in keep(sample_shapes(1, 12, 1, 2, seed, "s1"), 1):
        _mk(b, "ct", "short", 1, t)
    for ctype, dims in (("short", (1, 2, 3)), ("double", (3,))):
        for D in dims:
            for kind in ("obj", "T", "copy", "copyf"):
                _mk(b, kind, ctype, D, [])
            for t in SETSL_SHAPES[D]:
                _mk(b, "setsl", ctype, D, t)
    return [("c16a", a), ("c16b", b)], excluded[0]


# ---------------------------------------------------------------------------------------------- layouts
VIEWS = ["none", "none", "step2", "rev", "off", "rev2"]


@st.composite
def layout_strategy(draw, D):
    shape = [draw(st.sampled_from([0, 1, 2, 3, 3, 4, 5, 6])) for _ in range(D)]
    kind = draw(st.sampled_from(["C", "F", "T", "views", "views", "views"]))
    views = ["none"] * D
    order = "C"
    tr = False
    if kind == "F":
        order = "F"
    elif kind == "T":
        tr = True
    elif kind == "views":
        views = [draw(st.sampled_from(VIEWS)) for _ in range(D)]
        order = draw(st.sampled_from(["C", "C", "F"]))
        tr = draw(st.integers(0, 3)) == 0
    return {"shape": shape, "order": order, "views": views, "T": tr}


def layouts(D, n, seed, *parts):
    return hyp.draw_many(layout_strategy(D), n + 1, seed, "mvlayouts", D, *parts)[1:]


def layouts_1d_exhaustive():
    return [{"shape": [n], "order": "C", "views": [v], "T": False}
            for n in range(7) for v in ("none", "step2", "rev", "off")]
