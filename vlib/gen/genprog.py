"""C23 generator: generator / coroutine / async-generator bodies and operation histories.

Bodies are generated source (compiled by Cython, reference = same source under CPython).  Histories are lists of
operations executed by the driver DRV (SETUP, runs under CPython in both runners) against the object created from
the body: next / send(v) / throw(E class or instance) / close / asend / athrow / aclose / anext, a re-entrant
next from inside the running body (the body calls REENTER() when it receives the value 're'), and finally
dropping the object + gc.collect().  After every step the driver records the event (yielded value,
StopIteration value, exception type + args of user exceptions) and the LOG entries the body appended during the
step (executed finally blocks, received values).
"""
from hypothesis import strategies as st

HEADER = '''import sys
LOG = []
SELF = [None]
PYGEN = None        # pure-Python sub-generator factory, injected by the driver setup
PYITER = None       # pure-Python iterator class without send/throw/close, injected by the driver setup


class EA(Exception):
    pass


class EB(EA):
    pass


def REENTER():
    """resume the running object from inside its own body: must raise ValueError"""
    o = SELF[0]
    try:
        if hasattr(o, "__next__"):
            return ("reenter-value", next(o))
        if hasattr(o, "asend"):
            return ("reenter-value", o.asend(None).send(None))
        return ("reenter-value", o.send(None))
    except BaseException as e:
        return ("reenter-exc", type(e).__name__)


class Aw:
    """awaitable that suspends once (yields its tag to the driver) and returns what the driver sends back"""
    def __init__(self, tag):
        self.tag = tag

    def __await__(self):
        LOG.append(("aw-start", self.tag))
        try:
            r = yield ("aw", self.tag)
        finally:
            LOG.append(("aw-fin", self.tag))
        return r


class AIT:
    """async iterator over range(n)"""
    def __init__(self, n):
        self.i = 0
        self.n = n

    def __aiter__(self):
        return self

    async def __anext__(self):
        if self.i >= self.n:
            raise StopAsyncIteration
        self.i += 1
        return await Aw(("ait", self.i))


class ACM:
    def __init__(self, tag, suppress=False):
        self.tag = tag
        self.suppress = suppress

    async def __aenter__(self):
        LOG.append(("aenter", self.tag))
        return await Aw(("acm-enter", self.tag))

    async def __aexit__(self, t, v, tb):
        LOG.append(("aexit", self.tag, None if t is None else t.__name__))
        await Aw(("acm-exit", self.tag))
        return self.suppress

'''

SETUP = '''
import gc, warnings
warnings.simplefilter("ignore")


def _pygen(n):
    LOG = M.LOG
    LOG.append(("pygen-start", n))
    try:
        x = yield ("py", n)
        LOG.append(("pygen-got", x))
        y = yield ("py2", x)
        return ("pyret", y)
    finally:
        LOG.append(("pygen-fin", n))


class _PyIter:
    def __init__(self, n):
        self.i = 0
        self.n = n

    def __iter__(self):
        return self

    def __next__(self):
        if self.i >= self.n:
            raise StopIteration
        self.i += 1
        return ("it", self.i)


M.PYGEN = _pygen
M.PYITER = _PyIter
_EXC = {"EA": M.EA, "EB": M.EB, "KeyError": KeyError, "GeneratorExit": GeneratorExit, "StopIteration": StopIteration,
        "ZeroDivisionError": ZeroDivisionError}
_USER = ("EA", "EB", "KeyError")


def _uargs(e):
    return e.args if type(e).__name__ in _USER else None


def _mkexc(spec):
    cls = _EXC[spec[0]]
    if len(spec) == 1:
        return cls              # throw(E) with the class itself
    return cls(*spec[1:])


def _drive(aw, throw_spec=None):
    """step an awaitable (coroutine-protocol object) to completion like a minimal event loop"""
    inner = []
    try:
        r = aw.send(None)
        while True:
            inner.append(r)
            if len(inner) > 8:
                return ("runaway", inner)
            if throw_spec is not None and len(inner) == 1:
                r = aw.throw(_mkexc(throw_spec))
            else:
                r = aw.send(("loop", len(inner)))
    except StopIteration as s:
        return ("result", s.value, inner)
    except StopAsyncIteration:
        return ("stop-async", inner)
    except BaseException as e:
        return ("exc", type(e).__name__, _uargs(e), inner)


def DRV(kind, f, ops):
    LOG = M.LOG
    obj = f(7)
    M.SELF[0] = obj
    trace = []
    mark = [0]

    def ev(e):
        new = list(LOG[mark[0]:])
        mark[0] = len(LOG)
        trace.append((e, new))

    for op in ops:
        name = op[0]
        try:
            if kind == "agen":
                if name == "anext":
                    e = _drive(obj.__anext__())
                elif name == "asend":
                    e = _drive(obj.asend(op[1]))
                elif name == "athrow":
                    e = _drive(obj.athrow(_mkexc(op[1])))
                elif name == "aclose":
                    e = _drive(obj.aclose())
                elif name == "asend-throw":
                    e = _drive(obj.asend(op[1]), op[2])
                elif name == "abandon-step":
                    aw = obj.asend(op[1])       # create the step awaitable, run it one step, then drop it
                    try:
                        e = ("first", aw.send(None))
                    except StopIteration as s:
                        e = ("result", s.value, [])
                    del aw
                    gc.collect()
                else:
                    raise AssertionError(name)
                ev((name, e))
                continue
            if name == "next":
                r = next(obj) if kind == "gen" else obj.send(None)
            elif name == "send":
                r = obj.send(op[1])
            elif name == "throw":
                r = obj.throw(_mkexc(op[1]))
            elif name == "close":
                r = ("close-returned", obj.close())
            else:
                raise AssertionError(name)
            ev((name, "yield", r))
        except StopIteration as s:
            ev((name, "stop", s.value))
        except StopAsyncIteration:
            ev((name, "stop-async"))
        except BaseException as e:
            ev((name, "exc", type(e).__name__, _uargs(e)))
    M.SELF[0] = None
    del obj
    gc.collect()
    ev(("final",))
    return trace
'''


class G:
    def __init__(self, rnd, uid, kind):
        self.r = rnd
        self.uid = uid
        self.kind = kind          # gen | coro | agen
        self.n = 0
        self.feats = set()
        self.nstmt = 0
        self.used_sub = False
        self.used_subco = False
        self.in_finally = 0

    def pick(self, seq):
        seq = list(seq)
        return seq[self.r.randrange(len(seq))]

    def chance(self, p):
        return self.r.random() < p

    def tag(self):
        self.n += 1
        return self.n

    def suspend(self, ind):
        """a suspension point that receives a value into v"""
        k = self.kind
        t = self.tag()
        c = self.r.randint(0, 9)
        if k == "gen":
            if c <= 5:
                self.feats.add("yield")
                return [ind + "v = yield ('y', %d, v)" % t, ind + "LOG.append(('got', %d, v))" % t, ind + "if v == 're':", ind + "    LOG.append(REENTER())"]
            self.feats.add("yield-from")
            sub = self.pick(["sub", "sub", "pygen", "pyiter", "list", "range", "genexpr"])
            self.feats.add("delegate:" + sub)
            if sub == "sub":
                self.used_sub = True
                e = "sub_%s(%d)" % (self.uid, t)
            elif sub == "pygen":
                e = "PYGEN(%d)" % t
            elif sub == "pyiter":
                e = "PYITER(2)"
            elif sub == "list":
                e = "[('l', %d), ('l2', %d)]" % (t, t)
            elif sub == "range":
                e = "range(2)"
            else:
                e = "(('ge', z) for z in range(2))"
            return [ind + "v = yield from %s" % e, ind + "LOG.append(('yf-result', %d, v))" % t]
        if k == "coro":
            if c <= 5:
                self.feats.add("await")
                return [ind + "v = await Aw(%d)" % t, ind + "LOG.append(('got', %d, v))" % t, ind + "if v == 're':", ind + "    LOG.append(REENTER())"]
            if c <= 7:
                self.feats.add("await-subcoro")
                self.used_subco = True
                return [ind + "v = await subco_%s(%d)" % (self.uid, t), ind + "LOG.append(('sub-result', %d, v))" % t]
            if c == 8:
                self.feats.add("async-for")
                return [ind + "async for z in AIT(2):", ind + "    LOG.append(('afor', %d, z))" % t]
            self.feats.add("async-with")
            return [ind + "async with ACM(%d, %r) as cmv:" % (t, self.chance(0.3)), ind + "    v = await Aw(%d)" % self.tag(),
                    ind + "    LOG.append(('in-acm', v))"]
        # agen
        if c <= 4:
            self.feats.add("yield")
            return [ind + "v = yield ('y', %d, v)" % t, ind + "LOG.append(('got', %d, v))" % t, ind + "if v == 're':", ind + "    LOG.append(REENTER())"]
        if c <= 7:
            self.feats.add("await")
            return [ind + "v = await Aw(%d)" % t, ind + "LOG.append(('got', %d, v))" % t]
        if c == 8:
            self.feats.add("async-for")
            return [ind + "async for z in AIT(2):", ind + "    v = yield ('afor', %d, z)" % t]
        self.feats.add("async-with")
        return [ind + "async with ACM(%d, %r) as cmv:" % (t, self.chance(0.3)), ind + "    v = yield ('in-acm', %d)" % t]

    def stmt(self, ind, depth):
        self.nstmt += 1
        i2 = ind + "    "
        if depth >= 2 or self.nstmt > 14 or self.chance(0.45):
            c = self.r.randint(0, 11)
            if c <= 7:
                return self.suspend(ind)
            if c == 8:
                self.feats.add("raise")
                return [ind + "if v == 'boom':", ind + "    raise EA(%d)" % self.tag()]
            if c == 9 and self.kind != "agen":
                self.feats.add("return-value")
                return [ind + "if v == 'ret':", ind + "    return ('ret', %d)" % self.tag()]
            if c == 9:
                self.feats.add("return")
                return [ind + "if v == 'ret':", ind + "    return"]
            if c == 10:
                self.feats.add("raise-stopiteration")
                return [ind + "if v == 'si':", ind + "    raise StopIteration(%d)" % self.tag()]
            return [ind + "LOG.append(('at', %d, v))" % self.tag()]
        c = self.r.randint(0, 9)
        if c <= 5:
            self.feats.add("try")
            lines = [ind + "try:"] + self.block(i2, depth + 1)
            form = self.r.randint(0, 5)
            if form <= 3:
                t = self.pick(["EA", "EA", "EB", "GeneratorExit", "StopIteration", "Exception", "BaseException", "(EA, KeyError)"])
                self.feats.add("except:" + t)
                lines += [ind + "except %s as e:" % t, i2 + "LOG.append(('caught', %d, type(e).__name__, e.args if isinstance(e, (EA, KeyError)) else None))" % self.tag()]
                h = self.r.randint(0, 5)
                if h <= 1:
                    self.feats.add("yield-in-except")
                    lines += self.suspend(i2)
                elif h == 2:
                    lines += [i2 + "raise"]
                elif h == 3:
                    lines += [i2 + "raise EB(%d) from e" % self.tag()]
                elif h == 4 and self.kind != "agen":
                    lines += [i2 + "return ('ret-from-except', %d)" % self.tag()]
            if form >= 3:
                self.feats.add("finally")
                lines += [ind + "finally:", i2 + "LOG.append(('finally', %d))" % self.tag()]
                if self.chance(0.25):
                    self.feats.add("yield-in-finally")
                    lines += self.suspend(i2)
            return lines
        if c <= 7:
            self.feats.add("for")
            lines = [ind + "for i%d in range(%d):" % (depth, self.r.randint(1, 3))] + self.block(i2, depth + 1)
            return lines
        self.feats.add("while")
        cnt = "n%d" % self.nstmt
        return [ind + "%s = 0" % cnt, ind + "while %s < 2:" % cnt, i2 + "%s += 1" % cnt] + self.block(i2, depth + 1)

    def block(self, ind, depth, n=None):
        n = n if n is not None else self.r.randint(1, 3)
        lines = []
        for _ in range(n):
            lines += self.stmt(ind, depth)
        return lines


def _sub_gen(uid, rnd):
    lines = ["def sub_%s(n):" % uid, "    LOG.append(('sub-start', n))", "    try:",
             "        x = yield ('s', n)", "        LOG.append(('sub-got', x))"]
    c = rnd.randint(0, 5)
    if c == 4:
        # delegate whose close() FAILS: GeneratorExit is turned into another exception
        lines += ["        try:", "            y = yield ('s2', x)", "        except GeneratorExit:", "            LOG.append('sub-genexit-fails')",
                  "            raise EB('sub-close-failed')", "        return ('subret', y)"]
    elif c == 5:
        # delegate that ignores GeneratorExit and yields again (close() -> RuntimeError)
        lines += ["        try:", "            y = yield ('s2', x)", "        except GeneratorExit:", "            LOG.append('sub-genexit-ignored')",
                  "            y = yield ('s-ignored', 0)", "        return ('subret', y)"]
    elif c == 0:
        lines += ["        y = yield ('s2', x)", "        return ('subret', y)"]
    elif c == 1:
        lines += ["        try:", "            y = yield ('s2', x)", "        except EA as e:", "            LOG.append(('sub-caught', e.args))",
                  "            y = yield ('s3', 'after-catch')", "        return ('subret', y)"]
    elif c == 2:
        lines += ["        try:", "            y = yield ('s2', x)", "        except GeneratorExit:", "            LOG.append('sub-genexit')",
                  "            raise", "        return ('subret', y)"]
    else:
        lines += ["        if x == 'boom':", "            raise EB('from-sub')", "        return ('subret', x)"]
    lines += ["    finally:", "        LOG.append(('sub-fin', n))"]
    return lines


def _sub_coro(uid, rnd):
    return ["async def subco_%s(n):" % uid, "    LOG.append(('subco-start', n))", "    try:",
            "        x = await Aw(('sub', n))", "        if x == 'boom':", "            raise EB('from-subco')",
            "        return ('subco-ret', x)", "    finally:", "        LOG.append(('subco-fin', n))"]


SEND_VALUES = ["None", "1", "'re'", "'boom'", "'ret'", "'si'", "'x'"]
THROW_SPECS = ["('EA', 1)", "('EA',)", "('EB', 2)", "('KeyError', 'k')", "('GeneratorExit',)", "('StopIteration', 3)",
               "('ZeroDivisionError',)"]


def history(rnd, kind):
    n = rnd.randint(1, 8)
    ops = []
    for k in range(n):
        c = rnd.randint(0, 11)
        if k == 0 and rnd.random() < 0.8:
            c = 0           # most histories start the object properly
        if kind == "agen":
            if c <= 2:
                ops.append("('anext',)")
            elif c <= 6:
                ops.append("('asend', %s)" % rnd.choice(SEND_VALUES))
            elif c <= 8:
                ops.append("('athrow', %s)" % rnd.choice(THROW_SPECS))
            elif c == 9:
                ops.append("('aclose',)")
            else:
                # (abandoning a started asend() awaitable is not generated: what happens then depends on garbage
                # collection timing and was not reproducible run to run)
                ops.append("('asend-throw', %s, %s)" % (rnd.choice(SEND_VALUES), rnd.choice(THROW_SPECS)))
        else:
            if c <= 3:
                ops.append("('next',)")
            elif c <= 7:
                ops.append("('send', %s)" % rnd.choice(SEND_VALUES))
            elif c <= 9:
                ops.append("('throw', %s)" % rnd.choice(THROW_SPECS))
            else:
                ops.append("('close',)")
    return ops


def nontrivial_history(ops):
    s = " ".join(ops)
    return ("throw" in s) or ("close" in s) or ("'send', None" not in s and "send" in s)


@st.composite
def function_item(draw, uid="UID", nhist=40):
    rnd = draw(st.randoms(use_true_random=True))
    kind = rnd.choice(["gen", "gen", "gen", "coro", "agen", "agen"])
    g = G(rnd, uid, kind)
    body = g.block("        ", 1, rnd.randint(2, 4))
    head = {"gen": "def b_%s(a):", "coro": "async def b_%s(a):", "agen": "async def b_%s(a):"}[kind] % uid
    lines = [head, "    v = a", "    LOG.append(('start', a))"]
    outer = rnd.randint(0, 3)
    if outer == 0:
        lines += ["    if True:"] + body
    elif outer == 1:
        lines += ["    try:"] + body + ["    finally:", "        LOG.append('outer-finally')"]
    elif outer == 2:
        g.feats.add("catch-genexit-outer")
        tail = rnd.randint(0, 2)
        lines += ["    try:"] + body + ["    except GeneratorExit:", "        LOG.append('outer-genexit')"]
        if tail == 0:
            g.feats.add("yield-after-genexit")
            if kind == "coro":
                lines += ["        await Aw('after-genexit')"]
            else:
                lines += ["        yield 'ignored-exit'"]
        elif tail == 1:
            lines += ["        raise"]
    else:
        lines += ["    try:"] + body + ["    except EA as e:", "        LOG.append(('outer-caught', e.args))"]
        if kind != "coro":
            lines += ["        yield ('recovered', e.args)"]
        else:
            lines += ["        await Aw('recovered')"]
    if kind == "agen":
        if not any("yield" in l for l in lines):
            lines += ["    yield 'only'"]
        lines += ["    LOG.append('body-end')"]
    else:
        if kind == "gen" and not any("yield" in l for l in lines):
            lines += ["    yield 'only'"]
        lines += ["    LOG.append('body-end')", "    return ('done', v)"]
    pre = []
    if g.used_sub:
        pre += _sub_gen(uid, rnd) + [""]
    if g.used_subco:
        pre += _sub_coro(uid, rnd) + [""]
    cases = []
    seen = set()
    for _ in range(nhist):
        ops = history(rnd, kind)
        txt = "[" + ", ".join(ops) + "]"
        if txt in seen:
            continue
        seen.add(txt)
        cases.append({"expr": "DRV(%r, M.b_%s, %s)" % (kind, uid, txt), "nt": nontrivial_history(ops)})
    return {"src": "\n".join(pre + lines), "cases": cases, "meta": {"features": sorted(g.feats), "kind": kind}}


def draw_items(k, seed, parts, prefix, nhist=40):
    from vlib import hyp
    raw = hyp.draw_many(function_item("UID", nhist=nhist), k + 1, seed, *parts)[1:]
    out = []
    for i, it in enumerate(raw):
        uid = "%s_%d" % (prefix, i)
        out.append({"src": it["src"].replace("UID", uid),
                    "cases": [{"expr": c["expr"].replace("UID", uid), "nt": c["nt"]} for c in it["cases"]],
                    "meta": it["meta"]})
    return out
