"""Token-sequence generator for C47: Python/Cython-like source text built from code fragments, string
literals of every prefix / quote kind, f-strings with nested expressions and format specs, comments.

texts(mode):
  mode "core": everything except the three input classes that are recorded findings of C47
  mode "edge": additionally  - quote characters and '#' inside f-string format specs  (f"{x:'>4}", f"{x:#x}")
                             - a string literal glued to a keyword ending in 'f'      (1 if'{'else 2)
                             - strings inside the fields of f-strings whose prefix does not end in a lower-case
                               'f' directly before the quote (F'..', fr'..', fR'..'), e.g. F'{d['k']}'
  mode "raw" : random text over a small alphabet of the characters the stripper looks at
Every text also draws the `prefix` argument (None = default).
"""
from hypothesis import strategies as st

NAMES = ["x", "y", "w", "val", "d", "foo", "self.a", "cimport", "include", "b2"]
NUMS = ["0", "1", "42", "3.5", "0x1f", "1e3"]
PLAIN = ["a", "abc", " ", "x y", "cimport q", "include 'z.pxi'", "0", "%s", "%(k)s", ":", "=", "f", "rf", "!r", ";",
         "\\n", "\\t", "\\x41", "é"]
PREFIXES = ["", "", "", "r", "b", "rb", "br", "u", "R", "B", "U", "Rb", "bR", "BR", "rB"]
FPREFIXES = ["f", "f", "f", "F", "rf", "fr", "Rf", "fR", "rF", "FR"]
QUOTES = ["'", '"', "'''", '"""']
LABEL_PREFIXES = [None, None, None, None, "__Pyx_L", "L", "_cy_", "Q9_", "__Pyx_"]


def _other(q):
    return '"' if q[0] == "'" else "'"


@st.composite
def body_piece(draw, q, raw_bytes, fstring):
    """One piece of string content that cannot terminate the string."""
    qc = q[0]
    kinds = ["plain", "plain", "plain", "escq", "bs2", "bs3q", "other", "hash", "decoy"]
    if len(q) == 3:
        kinds += ["nl", "nl", "same1", "same2", "othertriple"]
    else:
        kinds += ["contline"]
    if fstring:
        kinds += ["dbl-open", "dbl-close"]
    else:
        kinds += ["brace-open", "brace-close", "dbl-open", "field-like"]
    k = draw(st.sampled_from(kinds))
    if k == "plain":
        s = draw(st.sampled_from(PLAIN))
        if raw_bytes == "b" and not s.isascii():
            s = "e"
        return s
    if k == "escq":
        return "\\" + draw(st.sampled_from([qc, _other(q)]))
    if k == "bs2":
        return "\\\\" * draw(st.integers(1, 2))
    if k == "bs3q":
        return "\\\\\\" + qc
    if k == "other":
        return _other(q) * draw(st.integers(1, 3))
    if k == "hash":
        return draw(st.sampled_from(["#", "# no comment", "#'", '#"']))
    if k == "decoy":
        return draw(st.sampled_from(["\ncimport hidden" if len(q) == 3 else " cimport hidden", "include \\'h.pxi\\'",
                                     "from a cimport b"]))
    if k == "nl":
        return "\n"
    if k == "same1":
        return qc + draw(st.sampled_from(["a", " ", "\\\\", _other(q)]))
    if k == "same2":
        return qc + qc + draw(st.sampled_from(["a", " ", _other(q)]))
    if k == "othertriple":
        return _other(q) * 3
    if k == "contline":
        return "\\\n"
    if k == "brace-open":
        return "{"
    if k == "brace-close":
        return "}"
    if k == "dbl-open":
        return "{{"
    if k == "dbl-close":
        return "}}"
    if k == "field-like":
        return draw(st.sampled_from(["{x}", "{0}", "{a!r:>{w}}", "{'k'}"]))
    raise AssertionError(k)


@st.composite
def plain_string(draw, avoid=None):
    p = draw(st.sampled_from(PREFIXES))
    q = draw(st.sampled_from(QUOTES))
    if avoid is not None and q[0] == avoid and draw(st.integers(0, 3)) != 0:
        q = _other(q) * len(q)
    n = draw(st.integers(0, 4))
    body = "".join(draw(body_piece(q, "b" if "b" in p.lower() else "", False)) for _ in range(n))
    return p + q + body + q, q


SPEC_CORE = [">10", "<5", "^", ".2f", "d", "x", "08.3f", "{w}", "{w}.{p}", ",", "_", "%Y-%m-%d", "%H:%M", " ",
             "{w:{p}}", "=^{w}", ""]
SPEC_EDGE = ["#x", "#", "#010b", "'>10", '"<3', "'^{w}", "#{w}x", "''", '"']


@st.composite
def fexpr(draw, q, depth, edge):
    """Expression inside a replacement field of an f-string quoted with q."""
    kinds = ["name", "name", "num", "str", "index", "call", "dict", "lambda", "concat"]
    if depth < 2:
        kinds += ["fstr", "fstr"]
    k = draw(st.sampled_from(kinds))
    if k == "name":
        return draw(st.sampled_from(["x", "y", "w", "val", "self.a"]))
    if k == "num":
        return draw(st.sampled_from(NUMS))
    avoid = q[0] if draw(st.integers(0, 4)) != 0 else None     # sometimes reuse the enclosing quote (PEP 701)
    if k == "str":
        s, _ = draw(plain_string(avoid=q[0] if avoid else None))
        if "\n" in s and len(q) == 1:
            s = "'k'" if q[0] == '"' else '"k"'
        return s
    if k == "index":
        inner = _other(q) if avoid else q[0]
        return "d[%sk%s]" % (inner, inner)
    if k == "call":
        inner = _other(q) if avoid else q[0]
        return "foo(%s, %s)" % (draw(st.sampled_from(["x", "1"])), inner + draw(st.sampled_from(["a", "}", "{", "#", ":"])) + inner)
    if k == "dict":
        inner = _other(q) if avoid else q[0]
        return " {%sa%s: 1}[%sa%s] " % (inner, inner, inner, inner)
    if k == "lambda":
        return "(lambda: x)()"
    if k == "concat":
        inner = _other(q) if avoid else q[0]
        return "x + " + inner + draw(st.sampled_from(["", "a}", "{b", ":", "!"])) + inner
    if k == "fstr":
        s = draw(fstring(depth + 1, edge, avoid=q[0] if avoid else None, multiline_ok=len(q) == 3))
        return s
    raise AssertionError(k)


@st.composite
def fstring(draw, depth=0, edge=False, avoid=None, multiline_ok=True):
    p = draw(st.sampled_from(FPREFIXES))
    q = draw(st.sampled_from(QUOTES if multiline_ok else QUOTES[:2]))
    if avoid is not None and q[0] == avoid:
        q = _other(q) * len(q)
    out = []
    for _ in range(draw(st.integers(0, 4))):
        if draw(st.integers(0, 1)):
            out.append(draw(body_piece(q, "", True)))
        else:
            if edge or p.endswith("f"):
                e = draw(fexpr(q, depth, edge))
            else:
                # prefix the stripper does not recognise as an f-string (F, fr, fR, ...): it is scanned as a plain
                # string, which is harmless unless a field contains a quote (recorded finding) -> quote-free fields
                e = draw(st.sampled_from(["x", "y", "val", "0", "(lambda: x)()", " {1: 2}[1] ", "foo(x, 1)", "x + 1"]))
            pre = draw(st.sampled_from(["", "", " "]))
            post = draw(st.sampled_from(["", "", " ", "=", "!r", "!s", " !a"]))
            if len(q) == 3 and draw(st.integers(0, 5)) == 0:
                post = " # field comment ' \"\n" if draw(st.booleans()) else "\n"
            spec = ""
            if draw(st.integers(0, 2)) == 0:
                pool = SPEC_CORE + (SPEC_EDGE * 2 if edge else [])
                spec = ":" + draw(st.sampled_from(pool))
                if post.endswith("\n"):
                    post = ""
            out.append("{" + pre + e + post + spec + "}")
    return p + q + "".join(out) + q


COMMENT_PIECES = [" c", "'", '"', "'''", '"""', " it's", ' say "hi"', " f'{x}'", " cimport z", "{", "}", "#", " \\",
                  " include 'y.pxi'"]


@st.composite
def comment(draw):
    return "#" + "".join(draw(st.lists(st.sampled_from(COMMENT_PIECES), max_size=3)))


EMPTIES = ["''''''", '""""""', "''\"\"", "''", '""', "'' ''", "\"\"''", "''''''\"\"", "'''''''a'''"]


@st.composite
def atom(draw, depth, edge):
    kinds = ["str", "str", "str", "fstr", "fstr", "fstr", "name", "num", "empties"]
    if depth < 2:
        kinds += ["paren", "list", "dict", "index", "call"]
    k = draw(st.sampled_from(kinds))
    if k == "str":
        return draw(plain_string())[0]
    if k == "fstr":
        return draw(fstring(0, edge))
    if k == "name":
        return draw(st.sampled_from(NAMES[:7]))
    if k == "num":
        return draw(st.sampled_from(NUMS))
    if k == "empties":
        return draw(st.sampled_from(EMPTIES))
    inner = draw(expr(depth + 1, edge))
    if k == "paren":
        return "(" + inner + ")"
    if k == "list":
        return "[" + inner + "]"
    if k == "dict":
        return "{" + draw(st.sampled_from(["1", "'k'", '"k"'])) + ": " + inner + "}"
    if k == "index":
        return "d[" + inner + "]"
    if k == "call":
        return "foo(" + inner + ")"
    raise AssertionError(k)


@st.composite
def expr(draw, depth, edge):
    parts = [draw(atom(depth, edge))]
    for _ in range(draw(st.integers(0, 2))):
        ops = [" + ", "+", ", ", " ", " % ", " if x else ", " in "]
        if edge:
            ops += [" if", " if", "if"]
        op = draw(st.sampled_from(ops))
        nxt = draw(atom(depth, edge))
        if op in (" if", "if"):
            # keyword glued to the next atom: "1 if'a'else 2"
            if op == "if" and (parts[-1][-1:].isalnum() or parts[-1][-1:] == "_"):
                op = " if"
            nxt = nxt + draw(st.sampled_from(["else 0", " else 0"]))
            if not nxt[:1] in "'\"":
                op = op + " "
        parts.append(op + nxt)
    return "".join(parts)


@st.composite
def line(draw, edge):
    k = draw(st.sampled_from(["assign", "assign", "assign", "expr", "comment", "cimport", "print", "blank"]))
    tail = ""
    if draw(st.integers(0, 3)) == 0:
        tail = draw(st.sampled_from(["  ", " ", ""])) + draw(comment())
    if k == "assign":
        return draw(st.sampled_from(NAMES[:6])) + " = " + draw(expr(0, edge)) + tail
    if k == "expr":
        return draw(expr(0, edge)) + tail
    if k == "comment":
        return draw(comment())
    if k == "cimport":
        return draw(st.sampled_from(["cimport foo", "from a cimport b", "include 'inc.pxi'", "from . cimport (x,\n    y)",
                                     "cdef extern from \"h.h\": pass", "cdef int x = 1"])) + tail
    if k == "print":
        return "print(" + draw(expr(0, edge)) + ")" + tail
    return ""


@st.composite
def structured(draw, edge):
    lines = draw(st.lists(line(edge), min_size=1, max_size=5))
    text = "\n".join(lines)
    end = draw(st.sampled_from(["\n", "\n", "\n", "", "  # eof comment", "\nx = 'unterminated", '\ny = """open', "\nz = f'{x",
                                "\nz = f'{x:>"]))
    return text + end


RAW_ALPHABET = ["'", "'", '"', '"', "\\", "{", "}", "f", "r", "b", "#", "\n", " ", "a", ":", "=", "!", "(", ")", "'''",
                '"""', "{{", "}}", "\\'", '\\"', "if", "x"]


@st.composite
def texts(draw, mode):
    prefix = draw(st.sampled_from(LABEL_PREFIXES))
    if mode == "raw":
        text = "".join(draw(st.lists(st.sampled_from(RAW_ALPHABET), min_size=1, max_size=24)))
    else:
        text = draw(structured(mode == "edge"))
    return text, prefix
