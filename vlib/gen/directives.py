"""C41 generator.

Part A (scoping): a .pyx module is a tree of scopes; directives with observable semantics are set at generated levels
(options < header comment < class decorator < function decorator < with block < inner with / nested function decorator)
and a *probe* sits at every level.  A lexical-scope model computes the effective value at each probe.

  local directives (allowed everywhere incl. `with`):   cdivision, cpow, overflowcheck
  function-level directives (decorators, header, options): always_allow_keywords, binding, embedsignature
  module-level: c_string_type (options vs header precedence)

  (wraparound / boundscheck / nonecheck are not probed: on lists `l[-1]` falls back to the generic path and gives the same
  value with wraparound=False, and the other directions read outside objects.)

Part B (strings): candidate spellings for parse_directive_value / parse_directive_list.
"""
from hypothesis import strategies as st

LOCAL = ["cdivision", "cpow", "overflowcheck"]
FUNC = ["always_allow_keywords", "binding", "embedsignature"]
ARGS = "int a, int b, int c, int e, int big, int one"
CALL_ARGS = "-7, 2, 2, -1, 2147483647, 1"

# observable of one probe = (a // b, c ** e, big + one | 'OE')
OBS = {
    "cdivision": {True: ["int", "-3"], False: ["int", "-4"]},
    "cpow": {True: ["int", "0"], False: ["float", "0x1.0000000000000p-1"]},
    "overflowcheck": {True: ["str", "'OE'"], False: ["int", "-2147483648"]},
}


def settings_strategy(names, maxn=2):
    return st.dictionaries(st.sampled_from(names), st.booleans(), max_size=maxn)


@st.composite
def body(draw, depth, allow_nested=True):
    """list of statements: ("probe",) | ("with", settings, body) | ("nested", settings, body)"""
    n = draw(st.integers(1, 3))
    out = []
    for _ in range(n):
        r = draw(st.integers(0, 9))
        if depth <= 0 or r <= 3:
            out.append(("probe",))
        elif r <= 7:
            s = draw(settings_strategy(LOCAL, 3))
            if not s:
                s = {draw(st.sampled_from(LOCAL)): draw(st.booleans())}
            out.append(("with", s, draw(body(depth - 1, allow_nested))))
        elif allow_nested:
            out.append(("nested", draw(settings_strategy(LOCAL, 2)), draw(body(depth - 1, False))))
        else:
            out.append(("probe",))
    if not any(s[0] == "probe" for s in out):
        out.append(("probe",))
    return out


@st.composite
def functions(draw, depth):
    return {"kind": "func", "settings": draw(settings_strategy(LOCAL + FUNC, 3)), "body": draw(body(depth))}


@st.composite
def classes(draw, depth):
    kind = draw(st.sampled_from(["cclass", "cclass", "pyclass"]))
    methods = [{"kind": "method", "settings": draw(settings_strategy(LOCAL + FUNC, 2)), "body": draw(body(depth - 1))}
               for _ in range(draw(st.integers(1, 2)))]
    return {"kind": kind, "settings": draw(settings_strategy(LOCAL + FUNC, 3)), "methods": methods}


@st.composite
def modules(draw, nitems, depth):
    header = draw(settings_strategy(LOCAL + FUNC, 3))
    options = draw(settings_strategy(LOCAL + FUNC, 3))
    cst_header = draw(st.sampled_from([None, None, "bytes", "str", "bytearray", "unicode"]))
    cst_options = draw(st.sampled_from([None, None, "bytes", "str", "bytearray"]))
    items = []
    for _ in range(nitems):
        items.append(draw(functions(depth)) if draw(st.integers(0, 2)) else draw(classes(depth)))
    header_style = draw(st.integers(0, 3))
    return {"header": header, "options": options, "cst_header": cst_header, "cst_options": cst_options,
            "items": items, "header_style": header_style}


class Renderer:
    """Renders a module and computes, with the lexical model, the expected observable of every probe."""

    def __init__(self, mod, defaults):
        self.mod = mod
        self.defaults = defaults        # directive -> default bool (from the tree's Options + calibration)
        self.lines = []
        self.probes = {}                # probe id -> {"eff": {directive: (value, nconflict)}, "path": str}
        self.cases = []                 # {"expr", "expect": [...], "what", "nconf"}
        self.n = 0

    def base_env(self):
        env = {}
        for d in LOCAL + FUNC:
            env[d] = [(self.defaults[d], "default")]
            if d in self.mod["options"]:
                env[d] = env[d] + [(self.mod["options"][d], "options")]
            if d in self.mod["header"]:
                env[d] = env[d] + [(self.mod["header"][d], "header")]
        return env

    @staticmethod
    def push(env, settings, source):
        env = {k: list(v) for k, v in env.items()}
        for d, v in settings.items():
            env[d].append((v, source))
        return env

    def header_lines(self):
        h = dict(self.mod["header"])
        items = ["%s=%s" % (k, v) for k, v in sorted(h.items())]
        if self.mod["cst_header"]:
            items.append("c_string_type=%s" % self.mod["cst_header"])
            items.append("c_string_encoding=ascii")
        style = self.mod["header_style"]
        if not items:
            return []
        if style == 0:
            return ["# cython: " + ", ".join(items)]
        if style == 1:
            return ["#cython: " + " , ".join(i.replace("=", " = ") for i in items)]
        if style == 2:
            return ["# cython: " + i for i in items]
        return ["# a leading comment", "", "#   cython:   " + ",".join(items) + " ,"]

    def deco(self, settings, ind):
        return ["%s@cython.%s(%s)" % (" " * ind, d, v) for d, v in sorted(settings.items())]

    def probe(self, ind, env, out, path):
        self.n += 1
        pid = "p%d" % self.n
        pad = " " * ind
        self.lines += [
            "%stry:" % pad, "%s    _y = big + one" % pad, "%sexcept OverflowError:" % pad, "%s    _y = 'OE'" % pad,
            "%s%s.append((%r, a // b, c ** e, _y))" % (pad, out, pid)]
        eff = {d: env[d] for d in LOCAL}
        self.probes[pid] = {"env": eff, "path": path}
        return pid

    def stmts(self, stmts, ind, env, out, path, fid):
        pids = []
        for s in stmts:
            if s[0] == "probe":
                pids.append(self.probe(ind, env, out, path))
            elif s[0] == "with":
                _, settings, sub = s
                self.lines.append("%swith %s:" % (" " * ind, ", ".join("cython.%s(%s)" % (d, v) for d, v in sorted(settings.items()))))
                pids += self.stmts(sub, ind + 4, self.push(env, settings, "with"), out, path + "/with", fid)
            else:
                _, settings, sub = s
                self.n += 1
                name = "inner%d" % self.n
                self.lines += self.deco(settings, ind)
                self.lines.append("%sdef %s(%s):" % (" " * ind, name, ARGS))
                self.lines.append("%s    out2 = []" % (" " * ind))
                pids += self.stmts(sub, ind + 4, self.push(env, settings, "nested-deco"), "out2", path + "/nested", fid)
                self.lines.append("%s    return out2" % (" " * ind))
                self.lines.append("%s%s.extend(%s(a, b, c, e, big, one))" % (" " * ind, out, name))
        return pids

    def function(self, item, ind, env, name, path, first=None, access=None, in_pyclass=False, in_cclass=False):
        env = self.push(env, item["settings"], "method-deco" if first else "func-deco")
        self.lines += self.deco(item["settings"], ind)
        pad = " " * ind
        self.lines.append("%sdef %s(%s):" % (pad, name, ", ".join([x for x in (first, ARGS) if x])))
        self.lines.append("%s    out = []" % pad)
        pids = self.stmts(item["body"], ind + 4, env, "out", path, name)
        self.lines.append("%s    return out" % pad)
        # function-level probe: same decorators on a one-argument function g
        gname = "g_" + name
        self.lines += self.deco(item["settings"], ind)
        self.lines.append("%sdef %s(%s):" % (pad, gname, ", ".join([x for x in (first, "x") if x])))
        self.lines.append("%s    'gdoc'" % pad)
        self.lines.append("%s    return x" % pad)
        self.lines.append("")
        acc = access or "M."
        expect = [self.expected_probe(p) for p in pids]
        nconf = max(self.conflicts(self.probes[p]["env"]) for p in pids)
        self.cases.append({"expr": "%s%s(%s)" % (acc, name, CALL_ARGS), "kind": "local", "expect": expect, "pids": pids,
                           "nconf": nconf, "path": path})
        # always_allow_keywords: module functions and cdef-class methods only (a Python-class method has two parameters)
        fenv = {d: env[d] for d in FUNC}
        if not in_pyclass:
            v = fenv["always_allow_keywords"][-1][0]
            self.cases.append({"expr": "%s%s(x=5)" % (acc, gname), "kind": "always_allow_keywords",
                               "expect": ["ok"] if v else ["exc", "TypeError"], "nconf": self.nconf(fenv["always_allow_keywords"]),
                               "path": path, "chain": self.chain_text(fenv["always_allow_keywords"])})
        if not in_pyclass and not in_cclass:
            v = fenv["binding"][-1][0]
            self.cases.append({"expr": "type(%s%s).__name__" % (acc, gname), "kind": "binding",
                               "expect": ["ok", ["str", "'cython_function_or_method'" if v else "'builtin_function_or_method'"]],
                               "nconf": self.nconf(fenv["binding"]), "path": path, "chain": self.chain_text(fenv["binding"])})
        v = fenv["embedsignature"][-1][0]
        self.cases.append({"expr": "%s%s.__doc__.endswith('gdoc') and %s%s.__doc__ != 'gdoc'" % (acc, gname, acc, gname),
                           "kind": "embedsignature", "expect": ["ok", ["bool", repr(bool(v))]], "nconf": self.nconf(fenv["embedsignature"]),
                           "path": path, "chain": self.chain_text(fenv["embedsignature"])})

    @staticmethod
    def nconf(chain):
        """number of explicit settings for the directive if at least two of them conflict, else 0 (chain[0] = default)"""
        explicit = [v for v, _ in chain[1:]]
        return len(explicit) if len(set(explicit)) > 1 else 0

    def conflicts(self, eff):
        return max(self.nconf(eff[d]) for d in eff)

    @staticmethod
    def chain_text(chain):
        return "<".join("%s=%s" % (src, v) for v, src in chain)

    def expected_probe(self, pid):
        eff = self.probes[pid]["env"]
        return ["tuple", [["str", repr(pid)], OBS["cdivision"][eff["cdivision"][-1][0]], OBS["cpow"][eff["cpow"][-1][0]],
                          OBS["overflowcheck"][eff["overflowcheck"][-1][0]]]]

    def render(self):
        self.lines = self.header_lines() + ["cimport cython", ""]
        env = self.base_env()
        for i, item in enumerate(self.mod["items"]):
            if item["kind"] == "func":
                self.function(item, 0, env, "f%d" % i, "func")
            else:
                cenv = self.push(env, item["settings"], item["kind"] + "-deco")
                self.lines += self.deco(item["settings"], 0)
                cname = "C%d" % i
                self.lines.append(("cdef class %s:" if item["kind"] == "cclass" else "class %s:") % cname)
                for j, m in enumerate(item["methods"]):
                    self.function(m, 4, cenv, "m%d" % j, item["kind"] + "/method", first="self", access="M.%s()." % cname,
                                  in_pyclass=item["kind"] == "pyclass", in_cclass=item["kind"] == "cclass")
                self.lines.append("")
        # c_string_type precedence: header > options > default (bytes)
        self.lines += ["cdef char* _cs = 'abc'", "def conv():", "    return _cs", ""]
        eff = self.mod["cst_header"] or self.mod["cst_options"] or "bytes"
        eff = {"unicode": "str"}.get(eff, eff)
        self.cases.append({"expr": "type(M.conv()).__name__", "kind": "c_string_type", "expect": ["ok", ["str", repr(eff)]],
                           "nconf": 2 if (self.mod["cst_header"] and self.mod["cst_options"] and self.mod["cst_header"] != self.mod["cst_options"]) else 0,
                           "path": "module", "chain": "default=bytes<options=%s<header=%s" % (self.mod["cst_options"], self.mod["cst_header"])})
        return "\n".join(self.lines) + "\n"

    def options(self):
        d = dict(self.mod["options"])
        if self.mod["cst_options"]:
            d["c_string_type"] = self.mod["cst_options"]
            d["c_string_encoding"] = "ascii"
        return d


# ------------------------------------------------------------------------------------------- part B: strings

BOOL_SPELLINGS = ["True", "False", "true", "false", "TRUE", "yes", "no", "Yes", "NO", "1", "0", "", " True", "True ", "None", "on", "off",
                  "T", "Truee", "tRue", "\tFalse", "True\n", "True,", "=True", "bool", "not True"]
INT_SPELLINGS = ["0", "1", "8", "-1", "+3", " 7 ", "07", "1_0", "0x10", "1e3", "1.0", "", "eight", "٣", "１２", "--1", "2 3", "None",
                 "True", "9" * 30]
ONE_OF_EXTRA = ["", "BYTES", "Bytes", " bytes", "byte", "string", "unicode ", "None", "c", "C", "python", "clinic", "Python", "sequence",
                "mapping", "seq", "no", "shared_gil", "own_gil", "own-gil"]
ENCODINGS = ["", "ascii", "ASCII", "us-ascii", "US-ASCII", "utf8", "UTF-8", "utf-8", "utF8", "default", "deFAuLT", "latin1", "latin-1",
             "iso-8859-1", "ISO8859-1", "u8", "utf_8", "U8", "646", "cp1252", "utf-16", "SeriousLyNoSuch--Encoding", " utf8", "utf8 ", "UTF",
             "utf-8-sig", "ansi_x3.4-1968"]
NAME_VARIANTS = ["{n}", "{n} ", " {n}", "{N}", "{n}x", "x{n}", "{n}.all", "{p}.all", "{p}.al", ".all", "{n}.", "", "=", "warn.all", "warn", "optimize.all",
                 "optimize.use_switch", "warn.undeclared", "nonexisting", "autotestdict.all", "autotestdict.cdef", "a.all", "all"]


@st.composite
def value_strings(draw):
    pool = BOOL_SPELLINGS + INT_SPELLINGS + ONE_OF_EXTRA + ENCODINGS + ["bytes", "str", "bytearray", "unicode", "3", "3str", "2"]
    if draw(st.integers(0, 5)) == 0:
        return draw(st.text(alphabet="TtrueFalsyno01 =,._-\té", max_size=8))
    return draw(st.sampled_from(pool))


@st.composite
def list_strings(draw, names):
    """a -X style directive list string"""
    n = draw(st.integers(0, 4))
    parts = []
    for _ in range(n):
        name = draw(st.sampled_from(names))
        variant = draw(st.sampled_from(NAME_VARIANTS)) if draw(st.integers(0, 3)) == 0 else "{n}"
        nm = variant.format(n=name, N=name.upper(), p=name.split(".")[0])
        val = draw(value_strings())
        sep = draw(st.sampled_from(["=", "=", "=", " = ", "= ", "", "==", ":"]))
        parts.append(nm + sep + val)
    joiner = draw(st.sampled_from([",", ",", ", ", " , ", ",,", ";"]))
    s = joiner.join(parts)
    if draw(st.integers(0, 5)) == 0:
        s = draw(st.sampled_from([" ", ",", "  ,", "\t"])) + s + draw(st.sampled_from(["", ",", " "]))
    return s
