"""C28 generator: operator-overloading class groups, ONE IR -> `cdef class` (.pyx) and `class` (oracle .py).

Arithmetic group IR (JSON-able):
  {"kind": "arith", "id": "3", "ops": ["add", "pow", ...], "hier": "single|cinh|covr|pinh|povr",
   "B": {op: {role: body}},      role in op/rop/iop, body in tag/ni/nif   (the base extension type)
   "D": {op: {role: body}},      overrides of the subclass D(B) (empty for *inh)
   "O": {op: {role: body}}}      an unrelated extension type with its own methods
Comparison group IR:
  {"kind": "cmp", "id": "4", "to": bool, "hier": ..., "B": {"__lt__": body, ...}, "D": {...}, "O": {...},
   "hashB": bool}                body in tag/val/ni/nif
Classes are called B_<id>, D_<id>, O_<id>.  Every method appends (qualified method, type(self).__name__,
type(other).__name__[, mod]) to the module-level LOG.
"""
from hypothesis import strategies as st

from .uni import chance, pick, sample

OPS = {"add": "+", "sub": "-", "mul": "*", "matmul": "@", "truediv": "/", "floordiv": "//", "mod": "%",
       "pow": "**", "lshift": "<<", "rshift": ">>", "and": "&", "or": "|", "xor": "^", "divmod": None}
OPNAMES = list(OPS)
ROLES = ("op", "rop", "iop")
BODIES = ("tag", "ni", "nif")
HIERS = ("single", "cinh", "covr", "pinh", "povr")
CMPS = {"__lt__": "<", "__le__": "<=", "__gt__": ">", "__ge__": ">=", "__eq__": "==", "__ne__": "!="}
CMPNAMES = list(CMPS)

HEADER = """import functools
LOG = []


def _v(o):
    return getattr(o, 'v', o)


def _t(tag, s, o, *m):
    LOG.append((tag, type(s).__name__, type(o).__name__) + m)
    return tag


def _n(tag, s, o, *m):
    LOG.append((tag, type(s).__name__, type(o).__name__) + m)
    return NotImplemented


def _f(tag, root, s, o, *m):
    LOG.append((tag, type(s).__name__, type(o).__name__) + m)
    if not isinstance(o, root):
        return NotImplemented
    return tag


def _l(tag, s, o):
    LOG.append((tag, type(s).__name__, type(o).__name__))

"""


def mname(op, role):
    return "__%s%s__" % ({"op": "", "rop": "r", "iop": "i"}[role], op)


def role_of(method):
    """'__radd__' -> ('add', 'rop')"""
    core = method.strip("_")
    if core in OPS:
        return core, "op"
    if core[0] == "r" and core[1:] in OPS:
        return core[1:], "rop"
    if core[0] == "i" and core[1:] in OPS:
        return core[1:], "iop"
    return core, "cmp"


def roles_for(op):
    return ("op", "rop") if op == "divmod" else ROLES


# ---------------------------------------------------------------- strategies

@st.composite
def method_cfg(draw, op, p_present=0.5, bodies=BODIES):
    cfg = {}
    for role in roles_for(op):
        if chance(draw, p_present):
            cfg[role] = pick(draw, bodies) if role != "iop" else pick(draw, ("tag", "tag", "ni"))
    return cfg


@st.composite
def arith_group(draw, nops=3):
    ops = sample(draw, OPNAMES, nops)
    hier = pick(draw, HIERS)
    g = {"kind": "arith", "id": "0", "ops": ops, "hier": hier, "B": {}, "D": {}, "O": {}}
    for op in ops:
        g["B"][op] = draw(method_cfg(op))
        g["O"][op] = draw(method_cfg(op, 0.6))
        if hier in ("covr", "povr"):
            role = pick(draw, roles_for(op))
            g["D"][op] = {role: pick(draw, BODIES)}
        else:
            g["D"][op] = {}
    return g


def enum_arith_configs():
    """The enumerated sub-space: every subset of {op, rop, iop} x bodies (tag/ni/nif for op and rop; tag for iop)."""
    out = []
    for bo in (None,) + BODIES:
        for br in (None,) + BODIES:
            for bi in (None, "tag"):
                cfg = {}
                if bo:
                    cfg["op"] = bo
                if br:
                    cfg["rop"] = br
                if bi:
                    cfg["iop"] = bi
                out.append(cfg)
    return out


@st.composite
def cmp_group(draw):
    to = chance(draw, 0.5)
    hier = pick(draw, HIERS)
    size = pick(draw, [0, 1, 1, 1, 2, 2, 2, 3, 4, 6])
    names = sample(draw, CMPNAMES, size)
    if to and not any(n in names for n in ("__lt__", "__le__", "__gt__", "__ge__")):
        names.append(pick(draw, ["__lt__", "__le__", "__gt__", "__ge__"]))
    bodies = ("val", "val", "ni", "nif") if to else ("tag", "val", "ni", "nif")
    g = {"kind": "cmp", "id": "0", "to": to, "hier": hier,
         "B": {n: pick(draw, bodies) for n in sorted(names)}, "D": {}, "O": {},
         "hashB": chance(draw, 0.25)}
    if hier in ("covr", "povr"):
        g["D"] = {pick(draw, CMPNAMES): pick(draw, bodies)}
    onames = sample(draw, CMPNAMES, pick(draw, [0, 1, 2, 3]))
    g["O"] = {n: pick(draw, ("tag", "val", "ni")) for n in sorted(onames)}
    return g


# ---------------------------------------------------------------- rendering

def _arith_method(cls, root, op, role, body):
    m = mname(op, role)
    tag = "%s.%s" % (cls, m)
    if op == "pow" and role != "iop":
        head, extra = "    def %s(self, other, mod=None):" % m, ", mod"
    else:
        head, extra = "    def %s(self, other):" % m, ""
    if body == "ni":
        ret = "_n(%r, self, other%s)" % (tag, extra)
    elif body == "nif":
        ret = "_f(%r, %s, self, other%s)" % (tag, root, extra)
    else:
        ret = "_t(%r, self, other%s)" % (tag, extra)
    return [head, "        return " + ret]


def _cmp_method(cls, root, name, body):
    tag = "%s.%s" % (cls, name)
    head = "    def %s(self, other):" % name
    if body == "ni":
        return [head, "        return _n(%r, self, other)" % tag]
    if body == "tag":
        return [head, "        return _t(%r, self, other)" % tag]
    if body == "nif":
        return [head, "        if _f(%r, %s, self, other) is NotImplemented:" % (tag, root),
                "            return NotImplemented",
                "        return _v(self) %s _v(other)" % CMPS[name]]
    return [head, "        _l(%r, self, other)" % tag, "        return _v(self) %s _v(other)" % CMPS[name]]


def render_group(g, cdef):
    """Source text of one group; cdef=True -> extension types, False -> plain Python classes (oracle)."""
    gid = g["id"]
    B, D, O = "B_" + gid, "D_" + gid, "O_" + gid
    kw = "cdef class" if cdef else "class"
    out = []

    def klass(name, base, cfg, root, is_cdef, decorate=False, with_init=False, hash_=False):
        if decorate:
            out.append("@functools.total_ordering")
        out.append("%s %s%s:" % (kw if is_cdef else "class", name, "(%s)" % base if base else ""))
        body = []
        if with_init:
            if is_cdef and cdef:
                body.append("    cdef public object v")
            body += ["    def __init__(self, v=1):", "        self.v = v"]
        if g["kind"] == "arith":
            for op in g["ops"]:
                for role in roles_for(op):
                    if role in cfg.get(op, {}):
                        body += _arith_method(name, root, op, role, cfg[op][role])
        else:
            for n in CMPNAMES:
                if n in cfg:
                    body += _cmp_method(name, root, n, cfg[n])
            if hash_:
                body += ["    def __hash__(self):", "        return 7"]
        if not body:
            body = ["    pass"]
        out.extend(body)
        out.append("")

    is_cmp = g["kind"] == "cmp"
    klass(B, None, g["B"], B, True, decorate=is_cmp and g["to"], with_init=is_cmp, hash_=is_cmp and g.get("hashB"))
    if g["hier"] != "single":
        klass(D, B, g["D"], B, g["hier"] in ("cinh", "covr"))
    klass(O, None, g["O"], O, True, with_init=is_cmp)
    return "\n".join(out) + "\n"


def render_module(groups, cdef):
    return HEADER + "\n".join(render_group(g, cdef) for g in groups)


# ---------------------------------------------------------------- cases

def _inst(letter, gid, val=None):
    if letter == "I":
        return "1" if val is None else str(val)
    if letter == "L":
        return "[1]"
    return "M.%s_%s(%s)" % (letter, gid, "" if val is None else val)


def effective(g, letter, op):
    """Effective {role: body} of class `letter` for arithmetic op (inheritance applied)."""
    if letter == "B":
        return dict(g["B"].get(op, {}))
    if letter == "D":
        d = dict(g["B"].get(op, {}))
        d.update(g["D"].get(op, {}))
        return d
    if letter == "O":
        return dict(g["O"].get(op, {}))
    return None


def arith_cases(g):
    """-> list of {"expr", "op", "form", "pair"} for one arithmetic group."""
    gid = g["id"]
    has_d = g["hier"] != "single"
    pairs = ["BB", "BI", "IB", "BO", "OB", "OO"]
    if has_d:
        pairs += ["BD", "DB", "DD", "DO", "OD", "DI", "ID"]
    cases = []
    for op in g["ops"]:
        sym = OPS[op]
        plist = list(pairs)
        if op in ("add", "mul"):
            plist += ["BL", "LB"]
        for p in plist:
            l, r = _inst(p[0], gid), _inst(p[1], gid)
            if sym is None:
                cases.append({"expr": "divmod(%s, %s)" % (l, r), "op": op, "form": "binop", "pair": p})
                continue
            cases.append({"expr": "%s %s %s" % (l, sym, r), "op": op, "form": "binop", "pair": p})
            cases.append({"expr": "operator.i%s(%s, %s)" % (op, l, r), "op": op, "form": "ibinop", "pair": p})
            if op == "pow":
                cases.append({"expr": "pow(%s, %s, 7)" % (l, r), "op": op, "form": "pow3", "pair": p})
        if op == "pow":
            for x in (["B", "O"] + (["D"] if has_d else [])):
                xi = _inst(x, gid)
                cases.append({"expr": "pow(2, 3, %s)" % xi, "op": op, "form": "pow3mod", "pair": "II" + x})
                cases.append({"expr": "pow(2, %s, %s)" % (xi, xi), "op": op, "form": "pow3mod", "pair": "I" + x + x})
                cases.append({"expr": "pow(%s, 2, %s)" % (xi, xi), "op": op, "form": "pow3mod", "pair": x + "I" + x})
    return cases


def cmp_effective(g, letter):
    if letter == "B":
        return dict(g["B"])
    if letter == "D":
        d = dict(g["B"])
        d.update(g["D"])
        return d
    if letter == "O":
        return dict(g["O"])
    return None


def cmp_cases(g):
    gid = g["id"]
    has_d = g["hier"] != "single"
    pairs = [("B", 1, "B", 1), ("B", 1, "B", 2), ("B", 2, "B", 1), ("B", 1, "I", 1), ("I", 1, "B", 1),
             ("B", 1, "I", 5), ("B", 1, "O", 1), ("O", 1, "B", 2), ("O", 2, "B", 1)]
    if has_d:
        pairs += [("B", 1, "D", 1), ("D", 1, "B", 1), ("B", 2, "D", 1), ("D", 1, "D", 2), ("D", 2, "D", 2),
                  ("D", 1, "O", 2), ("O", 2, "D", 1), ("D", 1, "I", 1), ("I", 1, "D", 2)]
    cases = []
    for name, sym in CMPS.items():
        for (a, va, b, vb) in pairs:
            cases.append({"expr": "%s %s %s" % (_inst(a, gid, va), sym, _inst(b, gid, vb)),
                          "op": name, "form": "richcmp", "pair": a + b, "vals": [va, vb]})
    for x in (["B"] + (["D"] if has_d else [])):
        xi = _inst(x, gid, 1)
        cases.append({"expr": "(lambda x: x == x)(%s)" % xi, "op": "__eq__", "form": "richcmp-ident", "pair": x + x})
        cases.append({"expr": "(lambda x: x != x)(%s)" % xi, "op": "__ne__", "form": "richcmp-ident", "pair": x + x})
        cases.append({"expr": "type(hash(%s)).__name__" % xi, "op": "__hash__", "form": "hash", "pair": x})
    return cases


def cases_of(g):
    return arith_cases(g) if g["kind"] == "arith" else cmp_cases(g)


# ---------------------------------------------------------------- log decoding (for buckets)

def entry_kind(entry, gid):
    """canon LOG entry -> 'B.rop(D,B)' (owner class letter . role (self letter, other letter))."""
    try:
        items = entry[1]
        tag = eval(items[0][1])
        cls, meth = tag.split(".")
        op, role = role_of(meth)
        if role == "cmp":
            role = op

        def letter(tn):
            tn = eval(tn)
            if tn.endswith("_" + gid) and tn[0] in "BDO":
                return tn[0]
            return {"int": "I", "list": "L"}.get(tn, "?")
        s = "%s.%s(%s,%s)" % (cls[0], role, letter(items[1][1]), letter(items[2][1]))
        if len(items) > 3 and items[3] != ["None"]:
            s += "mod"
        return s
    except Exception:
        return "?"


def first_divergence(rlog, glog, gid):
    """-> (ref_kind, got_kind) at the first index where the two LOGs differ ('END' past the end, 'dup' marker
    when the entry repeats the previous one)."""
    n = max(len(rlog), len(glog))
    for i in range(n):
        r = rlog[i] if i < len(rlog) else None
        g = glog[i] if i < len(glog) else None
        if r != g:
            def kind(e, log):
                if e is None:
                    return "END"
                k = entry_kind(e, gid)
                if i > 0 and log[i - 1] == e:
                    k += "dup"
                return k
            return kind(r, rlog), kind(g, glog)
    return "same", "same"
