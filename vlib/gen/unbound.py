"""C21 generator: structured control-flow skeletons over a few variables with assign / del / read at random
points; every branch is selected by a bit of the integer argument, so running all 2^b inputs covers every path
combination of the skeleton.

Variables (kind by first letter): v* plain locals, c* locals captured by an inner function (closure cells),
k* for-loop targets, e* `except ... as` names, w* `with ... as` names, m* match captures, g* module globals.
Each variable has a value class: 'num' (only ever assigned int literals - Cython's safe type inference may make
it a C integer) or 'obj' (assigned strings).

Reads:  AT(id) is logged first, then the value is appended to LOG; a read is either bare (a NameError
propagates and ends the call) or wrapped in try/except NameError (logged, execution continues).
The wrapper W (SETUP, executed by CPython in both runners) turns a propagated NameError/UnboundLocalError into
("unbound", type name, variable name) - message texts are never compared.
"""
import re

from hypothesis import strategies as st

HEADER = '''LOG = []


class EA(Exception):
    pass


class CM:
    def __init__(self, fail):
        self.fail = fail

    def __enter__(self):
        if self.fail:
            raise EA("enter")
        return "cmval"

    def __exit__(self, *a):
        return False


def AT(rid):
    LOG.append(("at", rid))


def RV(flag, val):
    if flag:
        raise EA("rv")
    return val


def UB(rid, ex):
    s = str(ex)
    i = s.find("'")
    j = s.find("'", i + 1)
    LOG.append((rid, "unbound", type(ex).__name__, s[i + 1:j] if i >= 0 and j > i else "?"))

'''

SETUP = '''
def W(f, x):
    try:
        return ("ok", f(x))
    except NameError as ex:
        s = str(ex)
        i = s.find("'")
        j = s.find("'", i + 1)
        return ("unbound", type(ex).__name__, s[i + 1:j] if i >= 0 and j > i else "?")
    except M.EA as ex:
        return ("EA", ex.args)
'''

MAXBITS = 6


class G:
    def __init__(self, rnd, uid):
        self.r = rnd
        self.uid = uid
        self.bits = 0
        self.nread = 0
        self.nval = 0
        self.nstmt = 0
        self.feats = set()
        self.reads = {}          # read id -> (var, line index)
        nv = rnd.randint(2, 4)
        self.vars = ["v%d" % i for i in range(nv)]
        self.cls = {}
        for v in self.vars:
            self.cls[v] = "num" if rnd.random() < 0.4 else "obj"
        self.closure = []
        if rnd.random() < 0.5:
            self.closure = ["c0"]
            self.cls["c0"] = "num" if rnd.random() < 0.4 else "obj"
        self.glob = None
        if rnd.random() < 0.2:
            self.glob = "g_%s" % uid
            self.cls[self.glob] = "obj"
        self.assigned = {}       # var -> set of value kinds actually assigned ('num', 'ucs4', 'obj')
        self.extra = []          # k*, e*, w*, m* names introduced by constructs
        self.in_loop = 0
        self.in_match = 0        # a def inside a match case produces C code that does not compile (C43/C31 candidate)
        self.max_stmts = 16

    def pick(self, seq):
        seq = list(seq)
        return seq[self.r.randrange(len(seq))]

    def chance(self, p):
        return self.r.random() < p

    def bit(self):
        if self.bits < MAXBITS and (self.bits < 2 or self.chance(0.75)):
            k = self.bits
            self.bits += 1
        else:
            k = self.r.randint(0, self.bits - 1)
        return "x & %d" % (1 << k)

    def allvars(self):
        return self.vars + self.closure + ([self.glob] if self.glob else []) + self.extra

    def value(self, v):
        self.nval += 1
        if self.cls.get(v, "obj") == "num":
            self.assigned.setdefault(v, set()).add("num")
            return str(self.nval)
        self.assigned.setdefault(v, set()).add("obj")
        return "'s%d'" % self.nval

    def final_classes(self):
        """value class per variable from what the program really assigns: C-inferable if only int literals /
        range targets ('num') or only 1-character strings ('ucs4')"""
        out = {}
        for v in self.allvars():
            kinds = self.assigned.get(v, set())
            if not kinds:
                out[v] = "none"
            elif "obj" in kinds:
                out[v] = "obj"
            elif kinds == {"ucs4"}:
                out[v] = "ucs4"
            else:
                out[v] = "num"
        return out

    # -- primitive statements
    def s_assign(self, ind):
        v = self.pick(self.vars + self.closure + ([self.glob] if self.glob else []))
        self.feats.add("assign")
        if self.chance(0.25):
            # assignment whose right-hand side may raise (the name keeps its previous binding / stays unbound),
            # half of the time right after a `del` of the same name
            self.feats.add("assign:failing-rhs")
            lines = []
            if self.chance(0.5) and v in self.vars:
                self.feats.add("del")
                lines += [ind + "try:", ind + "    del %s" % v, ind + "except NameError:", ind + "    pass"]
            return lines + [ind + "%s = RV(%s, %s)" % (v, self.bit(), self.value(v))]
        return [ind + "%s = %s" % (v, self.value(v))]

    def s_read(self, ind, v=None):
        v = v or self.pick(self.allvars())
        self.nread += 1
        rid = self.nread
        self.feats.add("read:" + v[0])
        if self.chance(0.88):
            self.feats.add("read:wrapped")
            return [ind + "try:", ind + "    AT(%d)" % rid, ind + "    LOG.append(%s)" % v,
                    ind + "except NameError as ex_:", ind + "    UB(%d, ex_)" % rid]
        self.feats.add("read:bare")
        return [ind + "AT(%d)" % rid, ind + "LOG.append(%s)" % v]

    def s_del(self, ind):
        v = self.pick(self.vars + ([self.glob] if self.glob else []) + [e for e in self.extra if e[0] in "kw"])
        self.nread += 1
        rid = self.nread
        self.feats.add("del")
        if self.chance(0.8):
            return [ind + "try:", ind + "    AT(%d)" % rid, ind + "    del %s" % v,
                    ind + "except NameError as ex_:", ind + "    UB(%d, ex_)" % rid]
        return [ind + "AT(%d)" % rid, ind + "del %s" % v]

    def s_walrus(self, ind):
        """binding through a walrus that sits in one branch of a conditional expression / boolean operator"""
        v = self.pick(self.vars)
        self.feats.add("walrus")
        val = self.value(v)
        form = self.r.randint(0, 2)
        g = self.bit()
        if form == 0:
            return [ind + "tmp_ = 'A' if %s else (%s := %s)" % (g, v, val)]
        if form == 1:
            return [ind + "tmp_ = (%s) and (%s := %s)" % (g, v, val)]
        return [ind + "tmp_ = [(%s := %s) for i_ in range(%s)]" % (v, val, "(%s) and 1" % g)]

    def simple(self, ind):
        c = self.r.randint(0, 9)
        if c == 3 and self.chance(0.6):
            return self.s_walrus(ind)
        if c <= 3:
            return self.s_assign(ind)
        if c <= 7:
            return self.s_read(ind)
        if c == 8:
            return self.s_del(ind)
        g = self.bit()
        if self.in_loop and self.chance(0.6):
            k = self.pick(["break", "continue"])
            self.feats.add(k)
            return [ind + "if %s:" % g, ind + "    " + k]
        if self.chance(0.5):
            self.feats.add("return")
            return [ind + "if %s:" % g, ind + "    return 'ret'"]
        self.feats.add("raise")
        return [ind + "if %s:" % g, ind + "    raise EA(%d)" % self.nstmt]

    def block(self, ind, depth, n=None):
        n = n if n is not None else self.r.randint(1, 3)
        lines = []
        for _ in range(n):
            lines += self.stmt(ind, depth)
        return lines

    def stmt(self, ind, depth):
        self.nstmt += 1
        if depth >= 3 or self.nstmt > self.max_stmts or self.chance([0.25, 0.45, 0.7][min(depth, 2)]):
            return self.simple(ind)
        i2 = ind + "    "
        c = self.r.randint(0, 14)
        if c == 14:
            # del + re-assignment whose right-hand side may fail, inside a try; the handler and the code after the
            # statement read the name: it is unbound exactly if the del ran and the assignment failed
            self.feats.add("try:del-failing-assign")
            v = self.pick(self.vars)
            # the name is bound first: `del` of a definitely-unbound name is a separate recorded finding (lenient mode)
            lines = [ind + "try:", i2 + "%s = %s" % (v, self.value(v))]
            g = self.bit()
            lines += [i2 + "if %s:" % g, i2 + "    del %s" % v] if self.chance(0.5) else [i2 + "del %s" % v]
            lines += [i2 + "%s = RV(%s, %s)" % (v, self.bit(), self.value(v))]
            lines += self.s_read(i2, v) if self.chance(0.5) else []
            lines += [ind + "except (EA, NameError):"] + self.s_read(i2, v)
            if self.chance(0.4):
                lines += [ind + "finally:"] + self.s_read(i2, v)
            return lines + self.s_read(ind, v)
        if c <= 3:
            self.feats.add("if")
            lines = [ind + "if %s:" % self.bit()] + self.block(i2, depth + 1)
            if self.chance(0.3):
                lines += [ind + "elif %s:" % self.bit()] + self.block(i2, depth + 1, 1)
            if self.chance(0.5):
                lines += [ind + "else:"] + self.block(i2, depth + 1)
            return lines
        if c <= 5:
            self.feats.add("for")
            k = "k%d" % len([e for e in self.extra if e[0] == "k"])
            if k not in self.extra:
                self.extra.append(k)
                self.cls[k] = "num"
            it = self.pick(["range(2)", "range(1)", "range(x & 1)", "range(0)", "('a', 'b')", "range((x >> 1) & 1)"])
            if not it.startswith("range"):
                self.cls[k] = "ucs4"      # single-character strings: inferred as Py_UCS4
            if self.chance(0.25):
                k = self.pick(self.vars)
                if not it.startswith("range") and self.cls[k] == "num":
                    self.cls[k] = "obj"    # int literals and 1-char strings mixed: a Python object
            self.assigned.setdefault(k, set()).add("num" if it.startswith("range") else "ucs4")
            lines = [ind + "for %s in %s:" % (k, it)]
            self.in_loop += 1
            lines += self.block(i2, depth + 1)
            self.in_loop -= 1
            if self.chance(0.35):
                self.feats.add("loop-else")
                lines += [ind + "else:"] + self.block(i2, depth + 1, 1)
            return lines
        if c == 6:
            self.feats.add("while")
            cnt = "n%d" % self.nstmt
            lines = [ind + "%s = 0" % cnt, ind + "while %s < 2:" % cnt, i2 + "%s += 1" % cnt]
            self.in_loop += 1
            lines += self.block(i2, depth + 1)
            self.in_loop -= 1
            if self.chance(0.35):
                self.feats.add("loop-else")
                lines += [ind + "else:"] + self.block(i2, depth + 1, 1)
            return lines
        if c <= 9:
            self.feats.add("try")
            lines = [ind + "try:"] + self.block(i2, depth + 1)
            if self.chance(0.7):
                lines += [i2 + "if %s:" % self.bit(), i2 + "    raise EA(%d)" % self.nstmt]
            form = self.r.randint(0, 3)       # 0,1: except; 2: except+finally; 3: finally only
            if form <= 2:
                e = None
                if self.chance(0.6):
                    e = "e%d" % len([x for x in self.extra if x[0] == "e"])
                    if e not in self.extra:
                        self.extra.append(e)
                        self.cls[e] = "obj"
                    self.feats.add("except-as")
                    if self.chance(0.2):
                        e = self.pick(self.vars)      # `except EA as v0` also unbinds v0 afterwards
                        self.cls[e] = "obj"
                if e:
                    self.assigned.setdefault(e, set()).add("obj")
                lines += [ind + "except EA%s:" % ((" as " + e) if e else "")]
                body = self.block(i2, depth + 1)
                if e and self.chance(0.5):
                    body = self.s_read(i2, e) + body
                lines += body
                if self.chance(0.3):
                    self.feats.add("try-else")
                    lines += [ind + "else:"] + self.block(i2, depth + 1, 1)
            if form >= 2:
                self.feats.add("finally")
                lines += [ind + "finally:"] + self.block(i2, depth + 1)
            return lines
        if c == 10:
            self.feats.add("with")
            w = "w%d" % len([x for x in self.extra if x[0] == "w"])
            if w not in self.extra:
                self.extra.append(w)
                self.cls[w] = "obj"
            self.assigned.setdefault(w, set()).add("obj")
            fail = "bool(%s)" % self.bit() if self.chance(0.5) else "False"
            lines = [ind + "try:", i2 + "with CM(%s) as %s:" % (fail, w)] + self.block(i2 + "    ", depth + 1)
            lines += [ind + "except EA:", i2 + "LOG.append('with-failed')"]
            return lines
        if c == 11:
            self.feats.add("match")
            m = "m%d" % len([x for x in self.extra if x[0] == "m"])
            if m not in self.extra:
                self.extra.append(m)
                self.cls[m] = "num"
            self.assigned.setdefault(m, set()).add("num")
            b = self.bit()
            sh = int(b.split("&")[1]).bit_length() - 1
            lines = [ind + "match (x >> %d) & %d:" % (max(0, sh - 1), 3)]
            self.in_match += 1
            lines += [i2 + "case 0:"] + self.block(i2 + "    ", depth + 1, 1)
            if self.chance(0.5):
                lines += [i2 + "case 1 | 2:"] + self.block(i2 + "    ", depth + 1, 1)
            lines += [i2 + "case %s:" % m] + self.block(i2 + "    ", depth + 1, 1)
            self.in_match -= 1
            return lines
        if c == 12 and self.closure and not self.in_match:
            self.feats.add("closure")
            cv = self.closure[0]
            fn = "inner%d" % self.nstmt
            form = self.r.randint(0, 2)    # (deleting a variable used by a nested scope is rejected by Cython by design)
            self.nread += 1
            rid = self.nread
            if form <= 1:
                self.feats.add("read:closure-inner")
                lines = [ind + "def %s():" % fn, i2 + "AT(%d)" % rid, i2 + "return %s" % cv]
                call = "LOG.append(%s())" % fn
            elif form == 2:
                self.feats.add("nonlocal-assign")
                lines = [ind + "def %s():" % fn, i2 + "nonlocal %s" % cv, i2 + "%s = %s" % (cv, self.value(cv))]
                call = "%s()" % fn
            else:
                self.feats.add("nonlocal-del")
                lines = [ind + "def %s():" % fn, i2 + "nonlocal %s" % cv, i2 + "AT(%d)" % rid, i2 + "del %s" % cv]
                call = "%s()" % fn
            if self.chance(0.5):
                lines += [ind + "try:", i2 + call, ind + "except NameError as ex_:", i2 + "UB(%d, ex_)" % rid]
            else:
                lines += [ind + call]
            return lines
        if c == 13:
            self.feats.add("comprehension")
            v = self.pick(self.vars)
            self.nread += 1
            rid = self.nread
            form = self.r.randint(0, 1)
            if form == 0:
                # comprehension target shadows v: must not bind or unbind the outer v
                expr = "[%s for %s in range(2)]" % (v, v)
            else:
                expr = "[%s for i_ in range(1)]" % v
                self.feats.add("read:in-comprehension")
            return [ind + "try:", i2 + "AT(%d)" % rid, i2 + "LOG.append(%s)" % expr,
                    ind + "except NameError as ex_:", i2 + "UB(%d, ex_)" % rid]
        return self.simple(ind)


@st.composite
def function_item(draw, uid="UID"):
    rnd = draw(st.randoms(use_true_random=True))
    g = G(rnd, uid)
    body = g.block("    ", 0, rnd.randint(3, 5))
    # final reads of every variable (wrapped) so that the end state is observed
    tail = []
    for v in g.allvars():
        g.nread += 1
        tail += ["    try:", "        AT(%d)" % g.nread, "        LOG.append(%s)" % v,
                 "    except NameError as ex_:", "        UB(%d, ex_)" % g.nread]
    lines = ["def f_%s(x):" % uid]
    if g.glob:
        lines.append("    global %s" % g.glob)
    if g.closure:
        # make c0 a cell variable in every program that has it
        lines += ["    def reader_():", "        return %s" % g.closure[0]]
    lines += body + tail + ["    return 'end'"]
    pre = []
    if g.glob:
        pre = ["%s = 'ginit'" % g.glob]
    nb = max(1, g.bits)
    cases = [{"expr": "W(M.f_%s, %d)" % (uid, x)} for x in range(1 << nb)]
    if g.glob:
        for c in cases:
            c["pre"] = "M.%s = 'ginit'" % g.glob
    src = "\n".join(pre + lines)
    return {"src": src, "cases": cases,
            "meta": {"features": sorted(g.feats), "bits": nb, "cls": g.final_classes(), "has_del": "del" in g.feats or "nonlocal-del" in g.feats}}


def draw_items(k, seed, parts, prefix):
    from vlib import hyp
    raw = hyp.draw_many(function_item("UID"), k + 1, seed, *parts)[1:]
    out = []
    for i, it in enumerate(raw):
        uid = "%s_%d" % (prefix, i)
        out.append({"src": it["src"].replace("UID", uid),
                    "cases": [dict(c, expr=c["expr"].replace("UID", uid), **({"pre": c["pre"].replace("UID", uid)} if "pre" in c else {}))
                              for c in it["cases"]],
                    "meta": dict(it["meta"], cls={k2.replace("UID", uid): v for k2, v in it["meta"]["cls"].items()})})
    return out
