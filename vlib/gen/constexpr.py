"""Generator of compile-time constant expressions (C09).  Emits Python expression TEXT.

module_plan(draw, k) -> list of (expr_text, features) of length ~k, generated TOGETHER so that a module holds
several distinct-but-equal constants (0 / 0.0 / -0.0 / False, 1 / 1.0 / True, (0.0,) next to (-0.0,), ...).

Features (strings) feed the non-triviality rule and the class histogram:
    lit:<kind>  op:<operator>  container:<kind>  family:<name>  big  nondecimal  underscore  leadingzero
All expressions are bounded so that CPython (and the compiler's folding) evaluates them in microseconds.
The module header (HEADER) defines G, whose subscription returns the key object: G[1:2] is slice(1, 2, None).
"""
from hypothesis import strategies as st

HEADER = ("LOG = []\n"
          "class _KeyGetter:\n"
          "    def __getitem__(self, key):\n"
          "        return key\n"
          "G = _KeyGetter()\n\n")

INT_VALUES = [0, 0, 1, 1, 2, 3, 7, 8, 9, 10, 15, 16, 17, 63, 64, 100, 127, 128, 255, 256, 1000, 32767, 32768, 65535, 65536,
              2**31 - 1, 2**31, 2**31 + 1, 2**32 - 1, 2**32, 2**53, 2**53 + 1, 2**62, 2**63 - 1, 2**63, 2**63 + 1,
              2**64 - 1, 2**64, 2**64 + 1, 10**18, 10**19, 10**20, 2**100, 2**127 - 1, 2**128, 10**40, 2**200 + 12345,
              2**400 - 1, 2**400, 0x7fffffff, 0xdeadbeef, 0o777, 0b101010]
FLOAT_TEXTS = ["0.0", "0.0", "0.", ".0", "0e0", "0.0e-10", "00.0", "0_0.0", "1.0", "1.", "1e0", "1.5", ".5", "0.5", "2.5",
               "0.1", "0.2", "0.3", "1e10", "1E10", "1e+10", "1e-10", "1_0.0_1", "1_000.5", "1e1_0", "3.14", "3.141592653589793",
               "1e22", "1e23", "1e100", "1e308", "1.7976931348623157e308", "1e309", "1e400", "1e-400", "4.9e-324", "5e-324",
               "2e-324", "2.2250738585072014e-308", "2.225073858507201e-308", "1e-323", "123456789012345678.0",
               "9007199254740993.0", "0.30000000000000004", "1e16", "1.0000000000000002", "100.0", "1e2", "10e1", "012.5", "1_0e-0_1"]
COMPLEX_TEXTS = ["0j", "1j", "1J", "0.0j", "1.5j", "1e3j", "1_0j", "0e0j", "2j", ".5j", "1e400j", "1e-400j", "00j"]

# Triggers of recorded, still open findings that BREAK THE BUILD of the whole module are switched off by the check
# (DESIGN §2.4: excluded by construction, derived from the finding; the check then runs them as separate probes).
FLAGS = {"inf_imag_literal": True, "bool_left_of_sequence_mul": True, "tuple_slice_bound": True}


def _underscore(draw, digits):
    """Insert single underscores between digits (valid Python >= 3.6)."""
    if len(digits) < 2 or not draw(st.booleans()):
        return digits, False
    out = [digits[0]]
    used = False
    for ch in digits[1:]:
        if draw(st.integers(0, 3)) == 0:
            out.append("_")
            used = True
        out.append(ch)
    return "".join(out), used


@st.composite
def int_literal(draw):
    """-> (text, value, features) for a non-negative integer literal in some base / spelling."""
    if draw(st.integers(0, 3)) == 0:
        v = draw(st.one_of(st.integers(0, 300), st.integers(0, 2**64), st.integers(2**64, 2**130), st.integers(2**390, 2**401)))
    else:
        v = draw(st.sampled_from(INT_VALUES))
    base = draw(st.sampled_from(["d", "d", "d", "x", "X", "o", "O", "b", "B"]))
    feats = {"lit:int"}
    if v.bit_length() > 64:
        feats.add("big")
    if base == "d":
        if v == 0:
            text = draw(st.sampled_from(["0", "0", "00", "000", "0_0", "0_00"]))
            if text != "0":
                feats.add("leadingzero")
                if "_" in text:
                    feats.add("underscore")
            return text, v, feats
        text, u = _underscore(draw, str(v))
        if u:
            feats.add("underscore")
        return text, v, feats
    feats.add("nondecimal")
    digits = {"x": "%x", "X": "%X", "o": "%o", "O": "%o", "b": "%s", "B": "%s"}[base] % (v if base not in "bB" else bin(v)[2:])
    if base in "xX" and draw(st.booleans()):
        digits = digits.upper() if draw(st.booleans()) else digits.lower()
    if draw(st.integers(0, 4)) == 0:
        digits = "0" * draw(st.integers(1, 3)) + digits
        feats.add("leadingzero")
    digits, u = _underscore(draw, digits)
    if not u and draw(st.integers(0, 5)) == 0:
        digits = "_" + digits           # 0x_ff is valid
        u = True
    if u:
        feats.add("underscore")
    return "0" + base + digits, v, feats


@st.composite
def leaf(draw, kinds="ifcbn"):
    k = draw(st.sampled_from(kinds))
    if k == "i":
        text, v, feats = draw(int_literal())
        return text, set(feats)
    if k == "f":
        t = draw(st.sampled_from(FLOAT_TEXTS))
        feats = {"lit:float"}
        if "_" in t:
            feats.add("underscore")
        return t, feats
    if k == "c":
        t = draw(st.sampled_from(COMPLEX_TEXTS))
        if t == "1e400j" and not FLAGS["inf_imag_literal"]:
            t = "1e300j"
        return t, {"lit:complex"}
    if k == "b":
        return draw(st.sampled_from(["True", "False"])), {"lit:bool"}
    if k == "s":
        return draw(st.sampled_from(["'a'", "'ab'", "b'a'", "''", "b''", "'\\xe9'"])), {"lit:str"}
    return "None", {"lit:None"}


SMALL = ["0", "1", "2", "3", "4", "5", "7", "8", "16", "31", "32", "63", "64", "65", "100"]
BINOPS = ["+", "-", "*", "//", "%", "/", "&", "|", "^", "<<", ">>", "**"]
CMPOPS = ["<", "<=", "==", "!=", ">", ">="]


def _paren(t):
    return "(" + t + ")"


def _pow_error(text):
    try:
        eval(text, {"__builtins__": {}})
    except (ZeroDivisionError, OverflowError):
        return True
    except Exception:
        return False
    return False


@st.composite
def number(draw, depth):
    """numeric (int/float/complex/bool) expression"""
    if depth <= 0 or draw(st.integers(0, 3)) == 0:
        return draw(leaf("iiiffcb"))
    kind = draw(st.sampled_from(["un", "un", "bin", "bin", "bin", "bin", "cmpint", "cond", "boolop", "index"]))
    if kind == "un":
        op = draw(st.sampled_from(["-", "-", "+", "~", "not "]))
        t, f = draw(number(depth - 1))
        if op == "~":
            t, f = draw(leaf("iib")) if draw(st.booleans()) else draw(intexpr(depth - 1))
        bare = t.replace("_", "").replace(".", "").isalnum() and not t.startswith("not")
        return op + t if bare and draw(st.booleans()) else op + _paren(t), f | {"op:unary" + op.strip()}
    if kind == "bin":
        op = draw(st.sampled_from(BINOPS))
        if op in ("&", "|", "^"):
            a, fa = draw(intexpr(depth - 1))
            b, fb = draw(intexpr(depth - 1))
        elif op in ("<<", ">>"):
            a, fa = draw(intexpr(depth - 1))
            b, fb = (draw(st.sampled_from(SMALL + ["200", "400", "-1", "0"])), {"lit:int"})
        elif op == "**":
            a, fa = draw(st.one_of(leaf("iif"), intexpr(0)))
            b, fb = (draw(st.sampled_from(["0", "1", "2", "3", "5", "10", "31", "32", "64", "-1", "-2", "0.5", "2.0", "-0.0", "True"])),
                     {"lit:int"})
            a = _paren(a) if not a.isalnum() else a
            if draw(st.integers(0, 4)) == 0:
                a = "-" + a          # -2**2 precedence
                fa = fa | {"op:unary-"}
            if _pow_error("%s ** %s" % (a, b)):
                # 0 ** negative (ZeroDivisionError) and float overflow (OverflowError) of run-time C pow are property
                # C07's subject (recorded there); keep the base, use a harmless exponent
                b = "2" if not _pow_error("%s ** 2" % a) else "1"
            return "%s ** %s" % (a, b), fa | fb | {"op:**"}
        elif op in ("//", "%"):
            # integer operands only.  complex operands: CPython raises TypeError and the compiler rejects the module
            # statically (nothing to compare); float operands: run-time C double // and % are property C06's subject
            # (recorded there: floor(a/b) instead of fmod-based floor division, zero-sign / inf cases of %)
            a, fa = draw(intexpr(depth - 1))
            b, fb = draw(intexpr(depth - 1))
        else:
            a, fa = draw(number(depth - 1))
            b, fb = draw(number(depth - 1))
            if op == "*" and "big" in (fa | fb):
                b, fb = (draw(st.sampled_from(SMALL)), {"lit:int"})
        return "%s %s %s" % (_paren(a), op, _paren(b)), fa | fb | {"op:" + op}
    if kind == "cmpint":
        op = draw(st.sampled_from(CMPOPS))
        a, fa = draw(real(depth - 1))
        b, fb = draw(real(depth - 1))
        if draw(st.integers(0, 4)) == 0:
            c, fc = draw(real(depth - 1))
            op2 = draw(st.sampled_from(CMPOPS))
            return "%s %s %s %s %s" % (_paren(a), op, _paren(b), op2, _paren(c)), fa | fb | fc | {"op:cmp", "op:cmp-chain"}
        return "%s %s %s" % (_paren(a), op, _paren(b)), fa | fb | {"op:cmp"}
    if kind == "cond":
        c, fc = draw(number(depth - 1))
        a, fa = draw(number(depth - 1))
        b, fb = draw(number(depth - 1))
        return "%s if %s else %s" % (_paren(a), _paren(c), _paren(b)), fa | fb | fc | {"op:condexpr"}
    if kind == "boolop":
        op = draw(st.sampled_from(["and", "or"]))
        a, fa = draw(number(depth - 1))
        b, fb = draw(number(depth - 1))
        return "%s %s %s" % (_paren(a), op, _paren(b)), fa | fb | {"op:" + op}
    # index into a constant tuple (in range: an out-of-range constant index is rejected statically by the compiler and
    # raises IndexError in CPython - no value to compare)
    n = draw(st.integers(1, 4))
    elems = [draw(element(depth - 1, True)) for _ in range(n)]
    ft = {"container:tuple", "op:index"}
    for _, f in elems:
        ft |= f
    i = draw(st.sampled_from([str(j) for j in range(n)] + [str(-j - 1) for j in range(n)] + ["False"] + (["True"] if n > 1 else [])))
    return "(%s,)[%s]" % (", ".join(t for t, _ in elems), i), ft


@st.composite
def real(draw, depth):
    """expression without complex leaves (ordering comparisons are defined)"""
    if depth <= 0 or draw(st.booleans()):
        return draw(leaf("iiffb"))
    op = draw(st.sampled_from(["+", "-", "*", "/", "-"]))
    a, fa = draw(real(depth - 1))
    b, fb = draw(real(depth - 1))
    if op == "*" and "big" in (fa | fb):
        b, fb = (draw(st.sampled_from(SMALL)), {"lit:int"})
    return "%s %s %s" % (_paren(a), op, _paren(b)), fa | fb | {"op:" + op}


@st.composite
def intexpr(draw, depth):
    if depth <= 0 or draw(st.booleans()):
        return draw(leaf("iiiib"))
    op = draw(st.sampled_from(["+", "-", "*", "//", "%", "&", "|", "^", "un-", "un~"]))
    a, fa = draw(intexpr(depth - 1))
    if op.startswith("un"):
        return "%s%s" % (op[2:], _paren(a)), fa | {"op:unary" + op[2:]}
    b, fb = draw(intexpr(depth - 1))
    if op == "*" and "big" in (fa | fb):
        b, fb = (draw(st.sampled_from(SMALL)), {"lit:int"})
    return "%s %s %s" % (_paren(a), op, _paren(b)), fa | fb | {"op:" + op}


@st.composite
def element(draw, depth, numeric_only=False):
    k = draw(st.integers(0, 9))
    if k <= 4:
        return draw(leaf("iiffcbn" if not numeric_only else "iiffcb"))
    if k <= 6:
        return draw(number(min(depth, 1)))
    if k == 7 and not numeric_only:
        return draw(leaf("s"))
    if depth > 0 and not numeric_only:
        return draw(container(depth - 1))
    return draw(leaf("iifb"))


@st.composite
def tuple_expr(draw, depth, numeric_only=False, min_size=0):
    n = draw(st.sampled_from([0, 1, 1, 2, 2, 3, 4, 6])) if min_size == 0 else draw(st.sampled_from([1, 1, 2, 3, 4]))
    items = [draw(element(depth, numeric_only)) for _ in range(n)]
    feats = {"container:tuple"}
    for _, f in items:
        feats |= f
    if n == 0:
        return "()", feats
    if n == 1:
        return "(%s,)" % items[0][0], feats
    return "(%s)" % ", ".join(t for t, _ in items), feats


@st.composite
def container(draw, depth):
    kind = draw(st.sampled_from(["tuple", "tuple", "tuple", "tuplemul", "tupleadd", "frozenset", "frozenset", "slice", "slice",
                                 "list", "set", "dict", "tupleslice", "strmul", "in"]))
    if kind == "tuple":
        return draw(tuple_expr(depth))
    if kind == "tuplemul":
        t, f = draw(tuple_expr(depth))
        m = draw(st.sampled_from(["0", "1", "2", "3", "5", "-1", "True", "False", "0x2", "(1+1)"]))
        left = draw(st.booleans())
        if left and m in ("True", "False") and not FLAGS["bool_left_of_sequence_mul"]:
            left = False
        text = "%s * %s" % (m, t) if left else "%s * %s" % (t, m)
        return text, f | {"op:tuple*"}
    if kind == "tupleadd":
        a, fa = draw(tuple_expr(depth))
        b, fb = draw(tuple_expr(depth))
        return "%s + %s" % (a, b), fa | fb | {"op:tuple+"}
    if kind == "frozenset":
        n = draw(st.sampled_from([0, 1, 1, 2, 3, 4]))
        items = [draw(st.one_of(leaf("iiffcbns"), tuple_expr(0))) for _ in range(n)]
        feats = {"container:frozenset"}
        for _, f in items:
            feats |= f
        inner = ", ".join(t for t, _ in items)
        form = draw(st.sampled_from(["set", "tuple", "list"]))
        if n == 0:
            return draw(st.sampled_from(["frozenset()", "frozenset(())", "frozenset([])"])), feats
        if form == "set":
            return "frozenset({%s})" % inner, feats
        if form == "tuple":
            return "frozenset((%s,))" % inner, feats
        return "frozenset([%s])" % inner, feats
    if kind == "slice":
        def part():
            if draw(st.integers(0, 3)) == 0:
                return "", set()
            return draw(st.one_of(leaf("iiffbn"), number(1)))
        a, b, c = part(), part(), part()
        feats = {"container:slice"} | a[1] | b[1] | c[1]
        if draw(st.booleans()):
            text = "G[%s:%s]" % (a[0], b[0])
        else:
            text = "G[%s:%s:%s]" % (a[0], b[0], c[0])
        if draw(st.integers(0, 4)) == 0:
            d = part()
            text = text[:-1] + ", %s:%s]" % (d[0], a[0])
            feats |= d[1] | {"container:tuple"}
        return text, feats
    if kind in ("list", "set"):
        n = draw(st.sampled_from([1, 2, 3, 4]))
        items = [draw(leaf("iiffcbn")) for _ in range(n)]
        feats = {"container:" + kind}
        for _, f in items:
            feats |= f
        inner = ", ".join(t for t, _ in items)
        return ("[%s]" if kind == "list" else "{%s}") % inner, feats
    if kind == "dict":
        n = draw(st.sampled_from([1, 2, 3]))
        keys = [draw(leaf("iiffcbn")) for _ in range(n)]
        vals = [draw(leaf("iifbs")) for _ in range(n)]
        feats = {"container:dict"}
        for _, f in keys + vals:
            feats |= f
        return "{%s}" % ", ".join("%s: %s" % (k[0], v[0]) for k, v in zip(keys, vals)), feats
    if kind == "tupleslice":
        t, f = draw(tuple_expr(depth, min_size=1))
        s = draw(st.sampled_from(["0:1", "1:", ":-1", "::2", "::-1", "5:", "-1:", "0:0", "True:", ":False"]))
        return "%s[%s]" % (t, s), f | {"op:tupleslice"}
    if kind == "strmul":
        s = draw(st.sampled_from(["'ab'", "b'ab'", "'\\xe9'", "''"]))
        m = draw(st.sampled_from(["0", "1", "2", "3", "-1", "True"]))
        return "%s * %s" % (s, m), {"lit:str", "op:str*"}
    a, fa = draw(leaf("iiffb"))
    t, ft = draw(tuple_expr(0, numeric_only=True, min_size=1))
    neg = draw(st.booleans())
    return "%s %s %s" % (_paren(a), "not in" if neg else "in", t), fa | ft | {"op:in"}


# ------------------------------------------------------------------------------------------ equal-but-distinct

FAMILIES = {
    "zero": ["0", "0.0", "-0.0", "False", "0j", "-0", "00", "0x0", "0e0", "-0.0e0", "(-0.0)", "-(0.0)", "0.0 * -1", "-0j", "0b0",
             "1e-400", "-1e-400", "0 * -1.0"],
    "one": ["1", "1.0", "True", "(1+0j)", "0x1", "1e0", "10e-1", "+1", "- -1", "1 + 0.0", "True + 0", "1.0 * True", "2 // 2", "2 / 2"],
    "two": ["2", "2.0", "1 + 1", "True + True", "2.0 + 0j", "0b10", "4 // 2", "4 / 2", "1 << 1", "2e0"],
    "minusone": ["-1", "-1.0", "~0", "-True", "~False", "-1e0", "0 - 1", "-0x1"],
    "big": ["2**64", "18446744073709551616", "0x10000000000000000", "1 << 64", "2.0**64", "18446744073709551616.0", "1.8446744073709552e19"],
    "half": ["0.5", "1 / 2", ".5", "5e-1", "2 ** -1", "0.25 * 2"],
}
SHAPES = ["%s", "(%s,)", "(%s,)", "(%s, %s)", "((%s,),)", "(%s,) * 2", "frozenset({%s})", "frozenset((%s,))", "G[%s:]", "G[:%s]",
          "G[%s:%s]", "G[::%s]", "[%s]", "[%s, %s]", "{%s: 1}", "{%s}", "(None, %s)", "(%s, 'a')", "(1, %s)", "(%s, 2.0)",
          "(%s,) + (%s,)", "(0, (%s,))", "{1: %s}", "-(%s)", "+(%s)", "(%s) + 0", "(%s) * 1", "(%s) or (%s)", "(%s) and (%s)",
          "(%s, %s, %s)", "(%s) == (%s)", "(%s) if True else (%s)", "G[%s, %s]", "G[(%s,):]", "((%s, %s),) * 2"]


@st.composite
def family_group(draw):
    """Several items with the SAME shape over DIFFERENT members of one family -> [(text, features)]"""
    fam = draw(st.sampled_from(sorted(FAMILIES)))
    members = FAMILIES[fam]
    shape = draw(st.sampled_from(SHAPES))
    if shape == "G[(%s,):]" and not FLAGS["tuple_slice_bound"]:
        shape = "G[(%s,)]"
    n = draw(st.integers(2, 5))
    k = shape.count("%s")
    out = []
    feats = {"family:" + fam}
    if "(" in shape or "[" in shape or "{" in shape:
        feats.add("container:family-shape")
    for _ in range(n):
        picks = tuple(draw(st.sampled_from(members)) for _ in range(k))
        out.append((shape % picks, set(feats) | {"lit:family"}))
    return out


@st.composite
def single(draw):
    k = draw(st.integers(0, 9))
    if k <= 2:
        return [draw(leaf("iiiffc"))]
    if k <= 6:
        return [draw(number(draw(st.integers(1, 3))))]
    return [draw(container(draw(st.integers(0, 2))))]


@st.composite
def module_plan(draw, k):
    out = []
    nfam = 0
    while len(out) < k:
        if nfam * 10 < len(out) * 4 + 4:         # >= ~40 % of the items from equal-but-distinct families
            grp = draw(family_group())
            nfam += len(grp)
        else:
            grp = draw(single())
        out.extend(grp)
    return out[:k]
