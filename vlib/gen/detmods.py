"""Generator of .pyx modules with "much to order" for C42 (deterministic compilation): many interned names and
string / bytes / int / float / tuple constants, cdef classes with vtables, fused functions, closures, generators,
lambdas, keyword calls, imports, cimports, enums and ctuples - the constructs whose emission walks dicts and sets
inside the compiler.  Modules are only compiled, never run."""
from hypothesis import strategies as st

WORDS = ["alpha", "beta", "gamma", "delta", "eps", "zeta", "eta", "theta", "iota", "kappa", "lam", "mu", "nu", "xi",
         "omi", "pi", "rho", "sigma", "tau", "ups", "phi", "chi", "psi", "omega"]
CTYPES = ["int", "long", "double", "float", "short", "unsigned int", "long long", "size_t", "object", "list", "dict",
          "bytes", "str", "tuple"]
FUSED_PARTS = ["int", "long", "double", "float", "short", "object", "long long", "unsigned char", "bytes", "list"]
LIBC = [("libc.math", ["sin", "cos", "sqrt", "floor", "fabs", "pow"]),
        ("libc.stdlib", ["malloc", "free", "abs", "atoi"]),
        ("libc.string", ["memcpy", "strlen", "memset", "strcmp"]),
        ("cpython.ref", ["Py_INCREF", "Py_DECREF", "PyObject"]),
        ("cpython.list", ["PyList_Append", "PyList_New"]),
        ("cpython.dict", ["PyDict_GetItem", "PyDict_SetItem"])]
EXT_TYPES = [("cpython.array", "array"), ("cpython.complex", "complex"), ("cpython.datetime", "date"),
             ("cpython.datetime", "timedelta"), ("cpython.datetime", "datetime"), ("cpython.datetime", "tzinfo"),
             ("cpython.type", "type"), ("cpython.bool", "bool")]
PYMODS = [("os", ["path", "sep", "getcwd"]), ("sys", ["argv", "maxsize", "modules"]),
          ("collections", ["OrderedDict", "deque", "Counter"]), ("itertools", ["chain", "count", "islice"])]


class D:
    def __init__(self, draw, uid):
        self.draw = draw
        self.uid = uid
        self.n = 0

    def pick(self, seq):
        return self.draw(st.sampled_from(seq))

    def irange(self, a, b):
        return self.draw(st.integers(a, b))

    def name(self):
        return "%s_%s%d" % (self.pick(WORDS), self.pick(WORDS), self.irange(0, 99))

    def fresh(self, prefix):
        self.n += 1
        return "%s%d_%s" % (prefix, self.n, self.uid)

    def const(self, depth=0):
        k = self.irange(0, 9 if depth < 2 else 6)
        if k == 0:
            return str(self.draw(st.integers(-2 ** 70, 2 ** 70)))
        if k == 1:
            return str(self.irange(-300, 300))
        if k == 2:
            return repr(self.draw(st.floats(allow_nan=False, allow_infinity=False, width=32)))
        if k == 3:
            return repr("%s %s" % (self.name(), self.pick(["", "é", "中", "\\", "%s", "{}"])))
        if k == 4:
            return "b" + repr(self.name())
        if k == 5:
            return repr(self.name())
        if k == 6:
            return self.pick(["None", "True", "False", "...", "1j", "2.5j"])
        if k == 7:
            return "(%s,)" % ", ".join(self.const(depth + 1) for _ in range(self.irange(1, 4)))
        if k == 8:
            return "{%s}" % ", ".join(self.const(2) for _ in range(self.irange(1, 4)))
        return "{%s}" % ", ".join("%r: %s" % (self.name(), self.const(2)) for _ in range(self.irange(1, 3)))

    def call(self, target="obj"):
        kws = ", ".join("%s=%s" % (self.name(), self.const(1)) for _ in range(self.irange(0, 4)))
        return "%s.%s(%s%s)" % (target, self.name(), self.const(1), (", " + kws) if kws else "")

    def body(self, ind, n, closures=True):
        out = []
        for _ in range(n):
            k = self.irange(0, 9)
            if k == 4 and not closures:      # "closures inside cpdef functions not yet supported"
                k = 0
            if k <= 1:
                out.append("%s%s = %s" % (ind, self.name(), self.const()))
            elif k == 2:
                out.append("%sobj.%s = %s" % (ind, self.name(), self.call()))
            elif k == 3:
                out.append("%sres.append(%s)" % (ind, self.call("res")))
            elif k == 4:
                out.append("%sres.append(lambda %s=%s: %s)" % (ind, self.name(), self.const(1), self.const(1)))
            elif k == 5:
                out.append("%sres.append([%s for %s in obj if %s])" % (ind, self.const(1), self.name(), self.const(1)))
            elif k == 6:
                out.append("%sres.append(f\"{obj!r}%s{obj.%s:>{%d}}\")" % (ind, self.name(), self.name(), self.irange(1, 30)))
            elif k == 7:
                out.append("%stry:\n%s    %s\n%sexcept (%s) as exc:\n%s    res.append(exc)" % (
                    ind, ind, self.call(), ind, ", ".join(self.draw(st.permutations(["ValueError", "KeyError", "TypeError"]))[:self.irange(1, 3)]), ind))
            elif k == 8:
                out.append("%sglobal %s\n%s%s = %s" % (ind, "G_" + self.pick(WORDS), ind, "L_" + self.pick(WORDS), self.const()))
            else:
                out.append("%sres.append(obj[%s:%s])" % (ind, self.const(2), self.const(2)))
        return out

    def function(self):
        kind = self.pick(["def", "def", "closure", "gen", "cpdef", "cdef", "async"])
        name = self.fresh("fn")
        lines = []
        if kind in ("cpdef", "cdef"):
            args = ", ".join("%s %s" % (self.pick(CTYPES), self.name()) for _ in range(self.irange(0, 3)))
            lines.append("%s %s(obj%s):" % (kind, name, (", " + args) if args else ""))
        else:
            args = ", ".join("%s=%s" % (self.name(), self.const(1)) for _ in range(self.irange(0, 3)))
            lines.append("%sdef %s(obj%s):" % ("async " if kind == "async" else "", name, (", " + args) if args else ""))
        lines.append("    res = []")
        lines += self.body("    ", self.irange(1, 5), closures=kind not in ("cpdef", "cdef"))
        if kind == "closure":
            inner = self.fresh("inner")
            lines.append("    def %s(%s):" % (inner, self.name()))
            lines.append("        nonlocal res")
            lines += self.body("        ", self.irange(1, 3))
            lines.append("        return res")
            lines.append("    res.append(%s)" % inner)
        if kind == "gen":
            lines.append("    yield res")
        lines.append("    return" if kind == "gen" else "    return res")
        return lines

    def cclass(self, bases):
        name = self.fresh("Cls")
        base = self.pick(bases + [None, None]) if bases else None
        lines = ["cdef class %s%s:" % (name, "(%s)" % base if base else "")]
        for _ in range(self.irange(1, 4)):
            lines.append("    cdef %s %s %s" % (self.pick(["public", "readonly", ""]), self.pick(CTYPES[:9]), self.name()))
        for _ in range(self.irange(1, 3)):
            kind = self.pick(["def", "cpdef", "cdef"])
            lines.append("    %s %s(self%s):" % (kind, self.pick(WORDS) + "_m%d" % self.irange(0, 5), ", %s %s" % (self.pick(CTYPES[:6]), self.name()) if self.irange(0, 1) else ""))
            lines.append("        res = []")
            lines.append("        obj = self")
            lines += self.body("        ", self.irange(1, 2), closures=(kind == "def"))
            lines.append("        return res")
        if self.irange(0, 2) == 0:
            lines.append("    def __%s__(self, other):\n        return %s" % (self.pick(["add", "eq", "lt", "getitem", "contains", "and"]), self.const(1)))
        return name, lines

    def fused(self):
        tname = self.fresh("fz")
        parts = self.draw(st.permutations(FUSED_PARTS))[:self.irange(2, 4)]
        lines = ["ctypedef fused %s:" % tname] + ["    %s" % p for p in parts]
        fn = self.fresh("ff")
        lines += ["", "def %s(%s a, %s b, obj=None):" % (fn, tname, tname), "    res = [a, b]"]
        lines += self.body("    ", self.irange(1, 2))
        lines += ["    return res"]
        return lines


@st.composite
def module(draw, uid="U"):
    d = D(draw, uid)
    lines = []
    for mod, names in draw(st.permutations(LIBC))[:d.irange(0, 3)]:
        lines.append("from %s cimport %s" % (mod, ", ".join(draw(st.permutations(names))[:d.irange(1, len(names))])))
    for mod, names in draw(st.permutations(PYMODS))[:d.irange(0, 3)]:
        lines.append("from %s import %s" % (mod, ", ".join(draw(st.permutations(names))[:d.irange(1, len(names))])))
    ext = draw(st.permutations(EXT_TYPES))[:d.irange(0, 5)]
    for mod, name in ext:
        lines.append("from %s cimport %s as X%s_%s" % (mod, name, name, uid))
    lines.append("")
    if ext:      # typed arguments make the module import the extension types at init time
        lines.append("def %s(%s):\n    return None\n" % (d.fresh("typed"), ", ".join(
            "X%s_%s a%d" % (name, uid, i) for i, (mod, name) in enumerate(ext))))
    if d.irange(0, 1):
        lines.append("cpdef enum %s:" % d.fresh("En"))
        lines += ["    %s_%s = %d" % (w.upper(), uid, i) for i, w in enumerate(draw(st.permutations(WORDS))[:d.irange(2, 5)])]
        lines.append("")
    if d.irange(0, 1):
        t1, t2 = d.pick(CTYPES[:6]), d.pick(CTYPES[:6])
        lines.append("cdef (%s, %s) %s(%s a, %s b):\n    return (a, b)\n" % (t1, t2, d.fresh("ct"), t1, t2))
    if d.irange(0, 2) == 0:
        # parallel sections: the private()/reduction() clauses list the temporaries of the block
        lines.append("from cython.parallel cimport prange, parallel")
        fn = d.fresh("par")
        lines.append("cdef double %s_h(double x, int k) noexcept nogil:\n    return x * k + 1.0\n" % fn)
        lines.append("cdef long %s_g(long x) noexcept nogil:\n    return x * 3 + 1\n" % fn)
        lines.append("def %s(int n, double w):" % fn)
        lines.append("    cdef int i, j = 0")
        lines.append("    cdef double s = 0")
        lines.append("    cdef long t = 0")
        lines.append("    for i in prange(n, nogil=True%s):" % d.pick(["", ", schedule='static'", ", num_threads=2"]))
        lines.append("        s += %s_h(w + i, i) * %s_h(w, i + %d) + <double>%s_g(i) / (%s_g(i + 2) + %d)" % (fn, fn, d.irange(1, 9), fn, fn, d.irange(1, 9)))
        lines.append("        t += %s_g(i) %% 7 + %s_g(%s_g(i)) // (i + 1)" % (fn, fn, fn))
        lines.append("        j = i * 2 + <int>%s_g(i)" % fn)
        lines.append("    return s, t, j\n")
    classes = []
    nclasses = d.irange(0, 4)
    nfuncs = d.irange(2, 7)
    nfused = d.irange(0, 2)
    todo = ["c"] * nclasses + ["f"] * nfuncs + ["z"] * nfused
    for what in draw(st.permutations(todo)):
        if what == "c":
            name, ls = d.cclass(classes)
            classes.append(name)
            lines += ls
        elif what == "f":
            lines += d.function()
        else:
            lines += d.fused()
        lines.append("")
    for _ in range(d.irange(0, 4)):
        lines.append("%s = %s" % ("G_" + d.pick(WORDS), d.const()))
    return {"src": "\n".join(lines) + "\n", "nclasses": nclasses, "nfused": nfused}


def draw_modules(k, seed, parts, prefix):
    from vlib import hyp
    raw = hyp.draw_many(module("UID"), k + 1, seed, *parts)[1:]
    return [dict(m, src=m["src"].replace("UID", "%s%d" % (prefix, i))) for i, m in enumerate(raw)]
