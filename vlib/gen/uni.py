"""Near-uniform choices on top of Hypothesis strategies.

Hypothesis is not a uniform sampler: a single st.sampled_from / st.integers / st.floats draw returns the "simplest"
element (index 0 / bounds) far more often than 1/n.  For sampling test populations we want every alternative to
occur with roughly its stated probability, so a choice is the sum of three independent draws modulo n: it is
uniform as soon as one of the three draws is.
"""
from hypothesis import strategies as st


def uidx(draw, n):
    if n <= 1:
        return 0
    s = st.integers(0, n - 1)
    return (draw(s) + draw(s) + draw(s)) % n


def pick(draw, seq):
    seq = list(seq)
    return seq[uidx(draw, len(seq))]


def chance(draw, p):
    return uidx(draw, 1000) < int(round(p * 1000))


def irange(draw, a, b):
    return a + uidx(draw, b - a + 1)


def sample(draw, seq, k):
    """k distinct elements, order of selection."""
    pool = list(seq)
    out = []
    for _ in range(min(k, len(pool))):
        out.append(pool.pop(uidx(draw, len(pool))))
    return out
