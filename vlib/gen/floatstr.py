"""Numeric-string generators for float() parsing (C06): exhaustive small-alphabet strings, inf/nan edits,
length-boundary strings around the 40-byte buffer, Hypothesis grammar + byte-level mutations."""
import itertools

from hypothesis import strategies as st

from .. import hyp

ALPHABET = ["1", "_", ".", "e", "+", "-", " "]
ASCII_WS = [" ", "\t", "\n", "\r", "\x0b", "\x0c"]
UNI_WS = ["\x1c", "\x1f", "\x85", "\xa0", " ", " ", "　", " "]
NONASCII_DIGITS = ["١", "१", "１", "\U0001d7d9"]     # Arabic-Indic 1, Devanagari 1, fullwidth 1, math double-struck 1


def small_alphabet(maxlen):
    out = []
    for n in range(1, maxlen + 1):
        for t in itertools.product(ALPHABET, repeat=n):
            out.append("".join(t))
    return out


def _case_variants(w):
    outs = {w, w.upper(), w.capitalize(), w[:-1] + w[-1].upper(), w[0].upper() + w[1:].lower()}
    alt = "".join(c.upper() if i % 2 else c for i, c in enumerate(w))
    outs.add(alt)
    return sorted(outs)


def infnan_family():
    out = set()
    edits = ["", "a", "n", "e", "_", " ", "0", ".", "f", "y", "\x00", "ı"]
    for w in ("nan", "inf", "infinity"):
        for v in _case_variants(w):
            for sign in ("", "+", "-", "--", "+-", "_"):
                for pre in ("", " ", " "):
                    for suf in ("", " ", "\n"):
                        out.add(pre + sign + v + suf)
        # single edits of the lowercase word
        for i in range(len(w) + 1):
            for e in edits:
                out.add(w[:i] + e + w[i:])
                if i < len(w):
                    out.add(w[:i] + e + w[i + 1:])
        for k in range(1, len(w)):
            out.add(w[:k])
        out.add(w + w)
    out.update(["nan()", "nan(1)", "infinit", "infinityy", "in", "na", "i", "n", "-i", "+n", "1nan", "nan1", "infe5", "1inf",
                "inf.0", "i_nf", "n_an", "infinity_", "+ inf", "- nan"])
    return sorted(out)


def length_boundary(ascii_only=False):
    """Strings whose number part has 36..44 (and 100) characters, with/without underscores and padding."""
    out = []
    pads_pre = ["", " ", "\t "] + ([] if ascii_only else [" ", "\xa0", " 　"])
    pads_suf = ["", " "] + ([] if ascii_only else ["　"])
    for n in list(range(36, 45)) + [100]:
        bodies = ["1" * n,
                  "1" * (n // 2) + "_" + "1" * (n - n // 2 - 1),
                  "1_" * (n // 2) + "1" * (n % 2 or 2),
                  "1" * (n - 4) + ".5e3",
                  "1" * (n - 1) + "_",                       # malformed
                  "1" * (n - 5) + "e+_12"]                   # malformed for CPython
        for b in bodies:
            for p in pads_pre:
                for s in pads_suf:
                    out.append(p + b + s)
    return out


@st.composite
def grammar_string(draw):
    ws = st.sampled_from(ASCII_WS + UNI_WS)
    digit = st.sampled_from(list("0123456789") + NONASCII_DIGITS * 1)

    def digits(minn=1):
        n = draw(st.integers(minn, 6))
        parts = []
        for i in range(n):
            parts.append(draw(digit) if draw(st.integers(0, 9)) == 0 else draw(st.sampled_from("0123456789")))
            if i < n - 1 and draw(st.integers(0, 4)) == 0:
                parts.append(draw(st.sampled_from(["_", "_", "__"])))
        return "".join(parts)
    s = "".join(draw(st.lists(ws, max_size=2)))
    s += draw(st.sampled_from(["", "", "+", "-", "+-", "_"]))
    kind = draw(st.integers(0, 9))
    if kind == 0:
        s += draw(st.sampled_from(["nan", "inf", "infinity", "NaN", "INF", "Infinity", "iNf", "nAn"]))
    else:
        s += draw(st.sampled_from(["", "_"])) if draw(st.integers(0, 7)) == 0 else ""
        s += digits(0 if draw(st.integers(0, 5)) == 0 else 1)
        if draw(st.booleans()):
            s += draw(st.sampled_from([".", ".", "_.", "._", ".."]))
            s += digits(0 if draw(st.integers(0, 3)) == 0 else 1)
        if draw(st.integers(0, 2)) == 0:
            s += draw(st.sampled_from(["e", "E", "e", "_e", "e_", "ee"]))
            s += draw(st.sampled_from(["", "", "+", "-", "+_", "-_", "_+", "+-"]))
            s += digits(0 if draw(st.integers(0, 5)) == 0 else 1)
    s += draw(st.sampled_from(["", "", "", "_", "\x00", "x", "j", "L", "f"]))
    s += "".join(draw(st.lists(ws, max_size=2)))
    # byte-level mutation
    m = draw(st.integers(0, 3))
    if m and s:
        for _ in range(m - 1 or 1):
            i = draw(st.integers(0, len(s)))
            c = draw(st.sampled_from(list("0123456789_.eE+- \x00xnaif") + UNI_WS[:3] + NONASCII_DIGITS[:2]))
            how = draw(st.integers(0, 2))
            if how == 0:
                s = s[:i] + c + s[i:]
            elif how == 1 and i < len(s):
                s = s[:i] + s[i + 1:]
            elif i < len(s):
                s = s[:i] + c + s[i + 1:]
    return s


def grammar_strings(n, seed):
    return hyp.draw_many(grammar_string(), n + 1, seed, "floatstr")[1:]


FIXED = ["", " ", "  ", "_", ".", "e", "1e", "e1", "1e5", "1E5", "1e+5", "1e-5", "1e+_5", "1e-_5", "1e_5", "1_e5", "1e5_", "+_1", "-_1",
         "_1", "1_", "1__0", "1_0", "1_000.000_1", "1._5", "1_.5", ".5", "5.", "._5", "0x10", "0x1p3", "1,5", "1 2", "1\x002",
         "\x001", "1\x00", "1e400", "-1e400", "1e-400", "0" * 50 + "1", "1" * 400, "1" + "0" * 400, "." + "0" * 400 + "1e401",
         " 1 ", " 1_0 ", "\x1c1", "1\x1f", "١٢.٣", "１２", "1＿0", "१_२", "٣e٢",
         "12\ud800", "infinity" * 2, "1e1_0", "1e1__0", "1_0e1_0", " +1_0.0_1e+0_1 ", "1.e5", "1e.5", "++1", "+-1", "1+", "1e+",
         "1e+ 5", "1 e5", "- 1", "1_e_5", "0_0", "00_1.1_0", "9" * 39, " " + "1" * 39, " " + "1" * 38]


def is_interesting(s):
    """NT rule of C06 parsing (string part): underscore, non-ASCII, whitespace, exponent."""
    return ("_" in s or any(ord(c) > 127 for c in s) or any(c.isspace() for c in s) or "e" in s or "E" in s)
