"""C20 generator: statements whose leaves are logging calls E(i, v) and whose containers/targets are logging
proxies.  Emits Python source (valid for CPython and for Cython's pure-Python mode).

Every generated function:

    def f_<uid>(x0, x1):
        [typed or untyped declarations of ci, cj, cb, cl, cd]
        p = Px('p'); q = Px('q', False); r = a = b = None
        <one generated statement (possibly compound)>
        return nm((r, a, b, ci, cj, cb, cl, cd))

E(i, v) appends i to LOG and returns v; R(i) appends i and raises UserErr(i).  Px logs every protocol call made
on it (getitem/setitem/delitem/getattr/setattr/call/iter+next/bool/arithmetic/in-place arithmetic/comparison/
enter/exit/format/keys) with the canonical names of the operands, so that both the order of evaluation of the
sub-expressions and the order/number of the container operations are visible in LOG.  __hash__ does not log
(the moment a display hashes its keys is not a sub-expression evaluation).
"""
from hypothesis import strategies as st

HEADER = '''import cython
LOG = []


class UserErr(Exception):
    pass


def E(i, v=None):
    LOG.append(i)
    return v


def R(i):
    LOG.append(i)
    raise UserErr(i)


def nm(x):
    t = type(x)
    if t is Px or t is Mp:
        return x._n
    if t is tuple or t is list:
        return [t.__name__] + [nm(y) for y in x]
    if t is dict:
        return ["dict"] + [[nm(k), nm(v)] for k, v in x.items()]
    if t is set:
        return ["set"] + sorted(repr(nm(y)) for y in x)
    if t is slice:
        return ["slice", nm(x.start), nm(x.stop), nm(x.step)]
    if t is PxIter:
        return "iter:" + x._p._n
    if isinstance(x, type):
        return "type:" + x.__name__
    if callable(x) and hasattr(x, "__name__"):
        return "fn:" + x.__name__
    return repr(x)


class PxIter:
    def __init__(self, p):
        self._p = p
        self._i = 0

    def __iter__(self):
        return self

    def __next__(self):
        p = self._p
        LOG.append(("next", p._n, self._i))
        if self._i >= p._k:
            raise StopIteration
        self._i += 1
        return Px("%s<%d>" % (p._n, self._i - 1), p._t, p._k)


class Px:
    def __init__(self, n, t=True, k=2):
        object.__setattr__(self, "_n", n)
        object.__setattr__(self, "_t", t)
        object.__setattr__(self, "_k", k)

    def _c(self, suffix):
        return Px(self._n + suffix, self._t, self._k)

    def __getitem__(self, k):
        LOG.append(("gi", self._n, nm(k)))
        return self._c("[%s]" % (nm(k),))

    def __setitem__(self, k, v):
        LOG.append(("si", self._n, nm(k), nm(v)))

    def __delitem__(self, k):
        LOG.append(("di", self._n, nm(k)))

    def __getattr__(self, a):
        if a.startswith("_"):
            raise AttributeError(a)
        LOG.append(("ga", self._n, a))
        return self._c("." + a)

    def __setattr__(self, a, v):
        LOG.append(("sa", self._n, a, nm(v)))

    def __delattr__(self, a):
        LOG.append(("da", self._n, a))

    def __call__(self, *a, **k):
        LOG.append(("call", self._n, nm(a), nm(k)))
        return self._c("()")

    def __iter__(self):
        LOG.append(("iter", self._n))
        return PxIter(self)

    def __bool__(self):
        # not logged: how often a value is truth-tested inside nested and/or is a CPython code-generation
        # detail (CPython 3.12 tests `a` twice in `a and b or c`), short-circuiting is visible through the leaves
        return self._t

    def __hash__(self):
        return hash(self._n)

    def __contains__(self, x):
        LOG.append(("contains", self._n, nm(x)))
        return self._t

    def __enter__(self):
        LOG.append(("enter", self._n))
        return self._c(".enter")

    def __exit__(self, t, v, tb):
        LOG.append(("exit", self._n, None if t is None else t.__name__))
        return False

    def __format__(self, spec):
        LOG.append(("fmt", self._n, spec))
        return "<" + self._n + ">"

    def __repr__(self):
        LOG.append(("repr", self._n))
        return "<r:" + self._n + ">"

    def __str__(self):
        LOG.append(("str", self._n))
        return "<s:" + self._n + ">"

    def __neg__(self):
        LOG.append(("neg", self._n))
        return self._c("neg")

    def __invert__(self):
        LOG.append(("inv", self._n))
        return self._c("inv")


def _mk(op):
    def fwd(self, o):
        LOG.append((op, self._n, nm(o)))
        return self._c(op)

    def rev(self, o):
        LOG.append(("r" + op, self._n, nm(o)))
        return self._c("r" + op)

    def inp(self, o):
        LOG.append(("i" + op, self._n, nm(o)))
        return self._c("i" + op)
    return fwd, rev, inp


for _op in ("add", "sub", "mul", "and", "or", "xor", "lshift", "rshift", "floordiv", "mod", "truediv", "matmul", "pow"):
    _f, _r, _i = _mk(_op)
    setattr(Px, "__%s__" % _op, _f)
    setattr(Px, "__r%s__" % _op, _r)
    setattr(Px, "__i%s__" % _op, _i)
for _op in ("lt", "le", "gt", "ge", "eq", "ne"):
    _f, _r, _i = _mk(_op)
    setattr(Px, "__%s__" % _op, _f)


class Mp:
    """logging mapping for ** unpacking"""
    def __init__(self, n, keys=("ka", "kb")):
        self._n = n
        self._keys = keys

    def keys(self):
        LOG.append(("keys", self._n))
        return list(self._keys)

    def __getitem__(self, k):
        LOG.append(("mgi", self._n, k))
        return 1


def F0(*a, **k):
    LOG.append(("F0", nm(a), nm(k)))
    return len(a) + len(k)


def F2(x, y=5, *a, z=7, **k):
    LOG.append(("F2", nm(x), nm(y), nm(a), nm(z), nm(k)))
    return 1


def deco(tag):
    def d(f):
        LOG.append(("deco", tag, getattr(f, "__name__", "?")))
        return f
    return d


class Meta(type):
    def __new__(mcs, name, bases, ns, **kw):
        LOG.append(("Meta.new", name, nm(bases), nm(kw)))
        return type.__new__(mcs, name, bases, ns)

    def __init__(cls, name, bases, ns, **kw):
        type.__init__(cls, name, bases, ns)


class Base0:
    def __init_subclass__(cls, **kw):
        LOG.append(("init_subclass", cls.__name__, nm(kw)))


class Base1:
    pass

'''

BINOPS = ["+", "-", "*", "&", "|", "^", "<<", ">>"]
CMPOPS = ["<", "<=", "==", "!=", ">", ">="]


class G:
    def __init__(self, draw, typed, max_depth=2, raising=0.04):
        self.draw = draw
        self.typed = typed
        self.max_depth = max_depth
        self.raising = raising
        self.n = 0
        self.feats = set()
        self.side = 0            # number of side-effecting containers / non-name targets used
        self.tmp = 0
        self.no_walrus = 0       # walrus inside a class header crashes the compiler (C43 candidate)
        self.no_lambda = 0       # lambda with defaults inside an aug-assign target crashes ControlFlowAnalysis (C43)

    # -- helpers (self.draw is a random.Random seeded by Hypothesis: uniform choices, deterministic in the seed)
    def pick(self, seq):
        seq = list(seq)
        return seq[self.draw.randrange(len(seq))]

    def irange(self, a, b):
        return self.draw.randint(a, b)

    def chance(self, p):
        return self.draw.random() < p

    def pickl(self, thunks):
        return thunks[self.irange(0, len(thunks) - 1)]()

    def feat(self, f):
        self.feats.add(f)

    def E(self, val):
        self.n += 1
        if self.chance(self.raising):
            self.feat("raise")
            return "R(%d)" % self.n
        return "E(%d, %s)" % (self.n, val)

    # -- leaves
    def leaf_i(self):
        c = self.irange(0, 9)
        if c <= 4:
            return self.E(repr(self.pick([0, 0, 1, 1, 2, 3, 5, -1, 7])))
        if c == 5:
            return self.E(self.pick(["x0", "x1"]))
        if c == 6:
            self.feat("var:ci")
            return self.pick(["ci", "cj"])
        if c == 7:
            return self.pick(["x0", "x1"])
        if c == 8:
            self.feat("var:ci")
            return self.E(self.pick(["ci", "cj"]))
        return self.E(repr(self.irange(0, 2)))

    def leaf_o(self):
        c = self.irange(0, 5)
        if c <= 2:
            return self.E(self.pick(["p", "p", "q"]))
        if c == 3:
            return self.pick(["p", "q"])
        return self.E("Px('w%d', %s)" % (self.n + 1, self.pick(["True", "True", "False"])))

    def leaf(self, kind):
        if kind == "x":
            kind = self.pick("iio")
        return self.leaf_i() if kind == "i" else self.leaf_o()

    def small_index(self):
        """int-kinded expression with value in 0..2 (valid index of cl)"""
        self.n += 1
        return "E(%d, %d)" % (self.n, self.irange(0, 2))

    # -- expressions
    def ex(self, kind, d=0):
        if kind == "x":
            kind = self.pick("iioo")
        if d >= self.max_depth:
            return self.leaf(kind)
        return self.e_i(d) if kind == "i" else self.e_o(d)

    def atom(self, kind, d):
        s = self.ex(kind, d)
        return s if _is_postfix_atom(s) else "(" + s + ")"

    def e_i(self, d):
        c = self.irange(0, 19)
        e = self.ex
        if c <= 3:
            return self.leaf_i()
        if c <= 5:
            self.feat("binop")
            return "%s %s %s" % (self.atom("i", d + 1), self.pick(BINOPS[:6]), self.atom("i", d + 1))
        if c == 6:
            self.feat("condexpr")
            return "(%s if %s else %s)" % (e("i", d + 1), e("x", d + 1), e("i", d + 1))
        if c == 7:
            self.feat("boolop")
            return "(%s %s %s)" % (e("i", d + 1), self.pick(["and", "or"]), e("i", d + 1))
        if c == 8:
            self.feat("call")
            return self.call("F0" if self.chance(0.6) else self.E("F0"), d + 1)
        if c == 9:
            self.feat("call")
            return self.call_f2(d + 1)
        if c == 10:
            self.feat("builtin")
            return self.pickl([
                lambda: "%s(%s, %s%s)" % (self.pick(["min", "max"]), e("i", d + 1), e("i", d + 1),
                                          (", " + e("i", d + 1)) if self.chance(0.5) else ""),
                lambda: "abs(%s)" % e("i", d + 1),
                lambda: "len([%s, %s])" % (e("x", d + 1), e("x", d + 1)),
                lambda: "int(%s)" % e("i", d + 1),
                lambda: "pow(%s, %s)" % (e("i", d + 1), self.E("2")),
                lambda: "sum([%s, %s])" % (e("i", d + 1), e("i", d + 1)),
                lambda: "divmod(%s, %s)[0]" % (e("i", d + 1), self.E("3")),
                lambda: "int(isinstance(%s, %s))" % (e("x", d + 1), self.E("int")),
            ])
        if c == 11:
            self.feat("typedcontainer")
            self.side += 1
            return self.pickl([
                lambda: "cl[%s]" % self.small_index(),
                lambda: "cd.get(%s, %s)" % (e("i", d + 1), e("i", d + 1)),
                lambda: "cd.setdefault(%s, %s)" % (e("i", d + 1), e("i", d + 1)),
                lambda: "cd.pop(%s, %s)" % (e("i", d + 1), e("i", d + 1)),
                lambda: "cl.pop(%s)" % self.small_index(),
                lambda: "len(cl[%s:%s])" % (e("i", d + 1), e("i", d + 1)),
                lambda: "cl.index(%s, %s)" % (self.E("10"), self.E("0")),
                lambda: "cl.count(%s)" % e("i", d + 1),
            ])
        if c == 12 and not self.no_walrus:
            self.feat("walrus")
            return "(%s := %s)" % (self.pick(["a", "b"]), e("i", d + 1))
        if c == 13:
            self.feat("unary")
            return "(%s%s)" % (self.pick(["-", "~", "+"]), self.atom("i", d + 1))
        if c == 14:
            self.feat("compare")
            n = self.irange(1, 3)
            parts = [self.atom("i", d + 1)]
            for _ in range(n):
                parts.append(self.pick(CMPOPS))
                parts.append(self.atom("i", d + 1))
            if n > 1:
                self.feat("chaincmp")
            return "int(%s)" % " ".join(parts)
        if c == 15 and not self.no_lambda and not self.no_walrus:
            self.feat("lambda")
            return "(lambda u=%s, *, v=%s: u + v)(%s)" % (e("i", d + 1), e("i", d + 1),
                                                         self.pick(["", e("i", d + 1), "v=" + e("i", d + 1)]))
        if c == 16 and not self.no_walrus:
            self.feat("comprehension")
            return "sum([%s for t in %s if %s])" % (self.E("t"), self.E("[1, 2]"), self.E(self.pick(["t", "1", "0", "t - 1"])))
        if c == 17:
            self.feat("subscript-literal")
            return self.pickl([
                lambda: "[%s, %s, %s][%s]" % (e("i", d + 1), e("i", d + 1), e("i", d + 1), self.small_index()),
                lambda: "(%s, %s)[%s]" % (e("i", d + 1), e("i", d + 1), self.E(repr(self.irange(0, 1)))),
                lambda: "{%s: %s, %s: %s}[1]" % (self.E("1"), e("i", d + 1), self.E("2"), e("i", d + 1)),
            ])
        if c == 18:
            self.feat("not")
            return "int(not %s)" % e("x", d + 1)
        self.feat("in")
        return "int(%s %s (%s, %s))" % (e("i", d + 1), self.pick(["in", "not in"]), e("i", d + 1), e("i", d + 1))

    def e_o(self, d):
        c = self.irange(0, 15)
        e = self.ex
        if c <= 2:
            return self.leaf_o()
        self.side += 1
        if c <= 4:
            self.feat("subscript")
            return "%s[%s]" % (self.atom("o", d + 1), e("x", d + 1))
        if c == 5:
            self.feat("slice")
            return "%s[%s]" % (self.atom("o", d + 1), self.slice_(d + 1))
        if c == 6:
            self.feat("attr")
            return "%s.%s" % (self.atom("o", d + 1), self.pick(["x", "y", "meth"]))
        if c <= 8:
            self.feat("call")
            return self.call(self.atom("o", d + 1) + self.pick(["", "", ".m"]), d + 1)
        if c == 9:
            self.feat("binop")
            if self.chance(0.5):
                return "%s %s %s" % (self.atom("o", d + 1), self.pick(BINOPS), self.atom("x", d + 1))
            return "%s %s %s" % (self.atom("x", d + 1), self.pick(BINOPS), self.atom("o", d + 1))
        if c == 10:
            self.feat("compare")
            n = self.irange(1, 3)
            parts = [self.atom("o", d + 1)]
            for _ in range(n):
                parts.append(self.pick(CMPOPS))
                parts.append(self.atom("o", d + 1))
            if n > 1:
                self.feat("chaincmp")
            return "(%s)" % " ".join(parts)
        if c == 11:
            self.feat("condexpr")
            return "(%s if %s else %s)" % (e("o", d + 1), e("x", d + 1), e("o", d + 1))
        if c == 12:
            self.feat("boolop")
            n = self.irange(2, 3)
            ops = [self.pick(["and", "or"]) for _ in range(n - 1)]
            s = e("o", d + 1)
            for o in ops:
                s += " %s %s" % (o, e("o", d + 1))
            return "(" + s + ")"
        if c == 13:
            self.feat("tuple-index")
            return "%s[%s, %s]" % (self.atom("o", d + 1), e("x", d + 1), e("x", d + 1))
        if c == 14:
            self.feat("builtin")
            return self.pickl([
                lambda: "getattr(%s, %s, %s)" % (e("o", d + 1), self.E("'attr'"), e("x", d + 1)),
                lambda: "getattr(%s, %s)" % (e("o", d + 1), self.E("'attr'")),
            ])
        self.feat("unary")
        return "(%s%s)" % (self.pick(["-", "~"]), self.atom("o", d + 1))

    def slice_(self, d):
        parts = []
        for i in range(self.pick([2, 2, 3])):
            parts.append(self.ex("x", d) if self.chance(0.7) else "")
        return ":".join(parts)

    def call(self, fn, d):
        """argument list with positional, *, keyword, ** mixes (always a valid call)"""
        pos = []
        for _ in range(self.irange(0, 3)):
            if self.chance(0.3):
                self.feat("starargs")
                pos.append("*" + self.star_operand(d))
            else:
                pos.append(self.ex("x", d))
        kws = []
        knames = ["k1", "k2", "k3"]
        mnames = ["{'m1': 1}", "{'m2': 2, 'm3': 3}", "{}"]
        used_mp = False
        for _ in range(self.irange(0, 3)):
            c = self.irange(0, 9)
            if c <= 4 and knames:
                self.feat("kwargs")
                kws.append("%s=%s" % (knames.pop(0), self.ex("x", d)))
            elif c <= 7 and mnames:
                self.feat("starstar")
                kws.append("**" + self.E(mnames.pop(0)))
            elif kws and not any(k.startswith("**") for k in kws):
                # *iterable after a keyword argument (legal; CPython evaluates it in source order of the
                # positional group, i.e. before the keyword values)
                self.feat("star-after-kw")
                kws.append("*" + self.star_operand(d))
        return "%s(%s)" % (fn, ", ".join(pos + kws))

    def star_operand(self, d, proxy_ok=False):
        """operand of a * unpacking.  In CALLS the operand is never a logging iterable: when CPython iterates a
        star argument (immediately, or only inside CALL_FUNCTION_EX) depends on the other arguments and is not
        an evaluation of a sub-expression; in list/tuple/set DISPLAYS it is always immediate (proxy_ok)."""
        c = self.irange(0 if proxy_ok else 1, 3)
        if c == 0:
            self.side += 1
            self.feat("star-proxy")
            return self.atom("o", d + 1)
        if c == 1:
            return self.E(self.pick(["()", "(1,)", "[1, 2]", "'ab'"]))
        if c == 2:
            return "[%s, %s]" % (self.ex("x", d + 1), self.ex("x", d + 1))
        return "(%s,)" % self.ex("x", d + 1)

    def call_f2(self, d):
        e = self.ex
        form = self.irange(0, 5)
        if form == 0:
            return "F2(%s, %s)" % (e("x", d), e("x", d))
        if form == 1:
            self.feat("kwargs")
            return "F2(%s, z=%s, y=%s)" % (e("x", d), e("x", d), e("x", d))
        if form == 2:
            self.feat("kwargs")
            return "F2(y=%s, x=%s)" % (e("x", d), e("x", d))
        if form == 3:
            self.feat("starargs")
            return "F2(%s, *%s, z=%s)" % (e("x", d), self.star_operand(d), e("x", d))
        if form == 4:
            self.feat("starstar")
            return "F2(%s, **%s, w=%s)" % (e("x", d), self.E("{'z': 3}"), e("x", d))
        self.feat("starstar")
        self.feat("starargs")
        return "F2(*%s, **%s)" % (self.E("(1, 2, 3)"), self.E("{'z': 3, 'zz': 4}"))

    # -- targets
    def target(self, d=1, allow_typed=True):
        """returns (text, value kind accepted)"""
        c = self.irange(0, 11)
        if c <= 1:
            return self.pick(["r", "a", "b"]), "x"
        if c == 2 and allow_typed:
            self.feat("target:ci")
            return self.pick(["ci", "cj"]), "i"
        self.side += 1
        if c <= 4:
            self.feat("target:subscript")
            return "%s[%s]" % (self.atom("o", d), self.ex("x", d)), "x"
        if c == 5:
            self.feat("target:attr")
            return "%s.%s" % (self.atom("o", d), self.pick(["x", "y"])), "x"
        if c == 6:
            self.feat("target:deep")
            return "%s[%s][%s].%s" % (self.atom("o", d + 1), self.ex("x", d + 1), self.ex("x", d + 1), self.pick(["x", "y"])), "x"
        if c == 7:
            self.feat("target:slice")
            return "%s[%s]" % (self.atom("o", d), self.slice_(d)), "x"
        if c == 8:
            self.feat("target:cl")
            return "cl[%s]" % self.small_index(), "x"
        if c == 9:
            self.feat("target:cd")
            return "cd[%s]" % self.ex("i", d), "x"
        if c == 10:
            self.feat("target:varindex")
            # subscript whose index is a variable assigned elsewhere in the same statement
            return "%s[%s]" % (self.pick(["p", "q"]), self.pick(["a", "b", "ci", "cj"])), "x"
        self.feat("target:attr")
        return "%s.%s" % (self.pick(["p", "q"]), self.pick(["x", "y"])), "x"

    # -- statements
    def stmt(self, ind="    "):
        c = self.irange(0, 23)
        e = self.ex
        if c <= 2:
            self.feat("stmt:expr-assign")
            return [ind + "r = %s" % e("x", 0)]
        if c <= 4:
            self.feat("stmt:assign")
            t, k = self.target()
            return [ind + "%s = %s" % (t, e(k, 1))]
        if c <= 6:
            self.feat("stmt:chained")
            n = self.irange(2, 3)
            with_unpack = self.chance(0.25)
            ts = [self.target(allow_typed=not with_unpack) for _ in range(n)]
            k = "i" if any(kk == "i" for _, kk in ts) else "x"
            if with_unpack:
                self.feat("chained+unpack")
                t1, _ = self.target(allow_typed=False)
                t2, _ = self.target(allow_typed=False)
                ts.insert(self.irange(0, len(ts)), ("%s, %s" % (t1, t2), "x"))
                return [ind + " = ".join(t for t, _ in ts) + " = " + self.unpack_rhs(2, ["i" if k == "i" else "x"] * 2, False, 1)]
            return [ind + " = ".join(t for t, _ in ts) + " = " + e(k, 1)]
        if c <= 9:
            return self.unpack_stmt(ind)
        if c == 10:
            self.feat("stmt:swap")
            form = self.irange(0, 3)
            if form == 0:
                o = self.pick(["p", "q"])
                i, j = e("x", 2), e("x", 2)
                self.side += 1
                return [ind + "%s[%s], %s[%s] = %s[%s], %s[%s]" % (o, i, o, j, o, self.ex("x", 2), o, self.ex("x", 2))]
            if form == 1:
                self.feat("target:ci")
                return [ind + "ci, cj = cj %s %s, ci" % (self.pick("+-*"), self.leaf_i())]
            if form == 2:
                self.side += 1
                self.feat("target:cl")
                return [ind + "cl[%s], cl[%s] = cl[%s], cl[%s]" % (self.small_index(), self.small_index(), self.small_index(), self.small_index())]
            self.side += 1
            self.feat("target:varindex")
            v = self.pick(["ci", "a"])
            return [ind + "a = 1", ind + "%s, p[%s] = %s, %s" % (v, v, self.leaf_i(), v) if self.chance(0.5) else
                    ind + "p[%s], %s = %s, %s" % (v, v, v, self.leaf_i())]
        if c <= 13:
            self.feat("stmt:augassign")
            op = self.pick(BINOPS[:6] if True else BINOPS)
            form = self.irange(0, 7)
            if form == 0:
                self.feat("target:ci")
                return [ind + "%s %s= %s" % (self.pick(["ci", "cj"]), op, e("i", 1))]
            if form == 1:
                return [ind + "a = %s" % self.leaf("x"), ind + "a %s= %s" % (op, e("x", 1))]
            if form == 2:
                self.side += 1
                self.feat("target:cl")
                return [ind + "cl[%s] %s= %s" % (self.small_index(), op, e("i", 1))]
            if form == 3:
                self.side += 1
                self.feat("target:cd")
                return [ind + "cd[%s] = 1" % "1", ind + "cd[%s] %s= %s" % (self.E("1"), op, e("i", 1))]
            self.side += 1
            self.no_lambda += 1
            t = self.pickl([
                lambda: "%s[%s]" % (self.atom("o", 1), e("x", 1)),
                lambda: "%s.%s" % (self.atom("o", 1), self.pick(["x", "y"])),
                lambda: "%s[%s][%s].%s" % (self.atom("o", 2), e("x", 2), e("x", 2), self.pick(["x", "y"])),
                lambda: "%s[%s]" % (self.atom("o", 1), self.slice_(1)),
                lambda: "%s[%s, %s]" % (self.atom("o", 1), e("x", 2), e("x", 2)),
            ])
            self.no_lambda -= 1
            self.feat("target:proxy")
            return [ind + "%s %s= %s" % (t, self.pick(BINOPS), e("x", 1))]
        if c == 14:
            self.feat("stmt:display")
            return [ind + "r = " + self.pickl([
                lambda: "[%s, *%s, %s]" % (e("x", 1), self.star_operand(1, True), e("x", 1)),
                lambda: "(%s, *%s, *%s)" % (e("x", 1), self.star_operand(1, True), self.star_operand(1, True)),
                lambda: "{%s, *%s, %s}" % (e("i", 1), self.E("[7, 8]"), e("i", 1)),
                lambda: "{%s: %s, %s: %s}" % (e("x", 1), e("x", 1), e("x", 1), e("x", 1)),
                lambda: "{%s: %s, **%s, %s: %s}" % (e("i", 1), e("x", 1), self.E(self.pick(["{'m': 1}", "Mp('mp')"])), e("i", 1), e("x", 1)),
                lambda: "{**%s, %s: %s, **%s}" % (self.E("{'m': 1}"), e("i", 1), e("x", 1), self.E("{'m': 2, 1: 3}")),
                lambda: "[%s, [%s, %s], (%s, %s)]" % (e("x", 1), e("x", 2), e("x", 2), e("x", 2), e("x", 2)),
                lambda: "%s, %s, %s" % (e("x", 1), e("x", 1), e("x", 1)),
            ])]
        if c == 15:
            self.feat("stmt:fstring")
            parts = []
            for _ in range(self.irange(1, 3)):
                v = e("x", 1).replace('"', "'")
                conv = self.pick(["", "", "!r", "!s"])
                spec = self.pick(["", "", ":>8", ":{%s}" % self.E("'>9'")])
                if "'" in v or "{" in v or "\\" in v or "lambda" in v or ":=" in v or "!" in v:
                    v = self.E(self.pick(["p", "q", "3"]))
                parts.append("{" + v + conv + spec + "}")
            return [ind + 'r = f"' + "-".join(parts) + '"']
        if c == 16:
            self.feat("stmt:with")
            self.side += 1
            n = self.irange(1, 2)
            items = []
            for _ in range(n):
                t = ""
                if self.chance(0.6):
                    self.no_lambda += 1
                    tt, _k = self.target(allow_typed=False)
                    self.no_lambda -= 1
                    t = " as " + tt
                items.append(self.ex("o", 1) + t)
            return [ind + "with %s:" % ", ".join(items), ind + "    r = %s" % e("x", 1)]
        if c == 17:
            self.feat("stmt:def")
            lines = []
            for _ in range(self.irange(0, 2)):
                lines.append(ind + "@%s" % self.E("deco(%d)" % self.n))
            lines.append(ind + "def g(u=%s, v=%s, *, w=%s):" % (e("x", 1), e("x", 1), e("x", 1)))
            lines.append(ind + "    return (u, v, w)")
            lines.append(ind + "r = g(%s)" % self.pick(["", e("x", 1), "w=" + e("x", 1)]))
            return lines
        if c == 18:
            self.feat("stmt:class")
            lines = []
            for _ in range(self.irange(0, 2)):
                lines.append(ind + "@%s" % self.E("deco(%d)" % self.n))
            bases = [self.E("Base0")]
            if self.chance(0.5):
                bases.append(self.E("Base1"))
            if self.chance(0.3):
                bases.append("*" + self.E("()"))
            kw = []
            if self.chance(0.4):
                kw.append("metaclass=" + self.E("Meta"))
            if self.chance(0.5):
                self.no_walrus += 1
                kw.append("kx=" + e("i", 1))
                self.no_walrus -= 1
            if self.chance(0.3):
                kw.append("**" + self.E("{'ky': 2}"))
            lines.append(ind + "class C(%s):" % ", ".join(bases + kw))
            lines.append(ind + "    attr = %s" % e("x", 1))
            lines.append(ind + "    attr2 = %s" % e("x", 1))
            lines.append(ind + "r = C.__name__")
            return lines
        if c == 19:
            self.feat("stmt:del")
            self.side += 1
            ts = []
            for _ in range(self.irange(1, 3)):
                ts.append(self.pickl([
                    lambda: "%s[%s]" % (self.atom("o", 1), e("x", 1)),
                    lambda: "%s.%s" % (self.atom("o", 1), self.pick(["x", "y"])),
                    lambda: "%s[%s]" % (self.atom("o", 1), self.slice_(1)),
                ]))
            if self.chance(0.4):
                ts.insert(self.irange(0, len(ts)), "cd[%s]" % self.E("9"))
            return [ind + "cd[9] = 1", ind + "del " + ", ".join(ts)]
        if c == 20:
            self.feat("stmt:for")
            self.side += 1
            t, _k = self.target(allow_typed=False)
            if self.chance(0.3):
                t2, _k = self.target(allow_typed=False)
                it = "[(%s, %s), (%s, %s)]" % (e("x", 2), e("x", 2), e("x", 2), e("x", 2))
                t = "%s, %s" % (t, t2)
            else:
                it = self.pickl([lambda: e("o", 1), lambda: "[%s, %s]" % (e("x", 1), e("x", 1)), lambda: self.E("(1, 2)")])
            return [ind + "for %s in %s:" % (t, it), ind + "    %s" % self.E("0")]
        if c == 21:
            self.feat("stmt:assert-raise")
            if self.chance(0.5):
                return [ind + "assert %s, %s" % (e("x", 1), e("x", 1))]
            return [ind + "raise %s(%s) from %s" % (self.E("UserErr"), e("i", 1), self.E(self.pick(["None", "UserErr(0)"])))]
        if c == 22:
            self.feat("stmt:try")
            return [ind + "try:", ind + "    r = %s" % self.pick(["R(%d)" % (self.n + 1000), e("x", 1)]),
                    ind + "except %s:" % self.E("KeyError"), ind + "    r = %s" % e("x", 1),
                    ind + "except (%s, %s) as a:" % (self.E("TypeError"), self.E("UserErr")), ind + "    r = %s" % e("x", 1),
                    ind + "a = None"]
        self.feat("stmt:return")
        return [ind + "return %s, %s" % (e("x", 1), e("x", 1))]

    def unpack_rhs(self, n, kinds, starred, d):
        """RHS for an n-target unpacking (kinds per target; starred: any length >= n-1 ok)"""
        if any(k == "i" for k in kinds):
            c = self.irange(0, 1)
        else:
            c = self.irange(0, 3)
        if c == 0:
            self.feat("unpack:display")
            return ", ".join(self.ex(k, d) for k in kinds)
        if c == 1:
            self.feat("unpack:opaque-tuple")
            vals = ", ".join(str(self.irange(0, 5)) for _ in range(n)) + ("," if n == 1 else "")
            return self.E(self.pick(["(%s)", "[%s]"]) % vals)
        if c == 2:
            self.feat("unpack:proxy")
            self.side += 1
            return self.E("Px('u%d', True, %d)" % (self.n + 1, n))
        self.feat("unpack:listdisplay")
        return "[" + ", ".join(self.ex(k, d) for k in kinds) + "]"

    def unpack_stmt(self, ind):
        self.feat("stmt:unpack")
        n = self.irange(2, 3)
        ts = [self.target(d=2) for _ in range(n)]
        kinds = [k for _, k in ts]
        texts = [t for t, _ in ts]
        starred = False
        if self.chance(0.3) and all(k == "x" for k in kinds):
            self.feat("unpack:starred")
            starred = True
            i = self.irange(0, n - 1)
            texts[i] = "*" + texts[i]
        if self.chance(0.2) and n == 3 and not starred:
            self.feat("unpack:nested")
            lhs = "(%s, %s), %s" % tuple(texts)
            rhs = "(%s, %s), %s" % tuple(self.ex(k, 2) for k in kinds) if self.chance(0.6) else \
                "%s, %s" % (self.E("(1, 2)"), self.ex(kinds[2], 2))
            return [ind + "%s = %s" % (lhs, rhs)]
        return [ind + "%s = %s" % (", ".join(texts), self.unpack_rhs(n, kinds, starred, 2))]


def _is_postfix_atom(s):
    """True if s can be followed by a postfix trailer ([..], .name, (..)) without parentheses"""
    import ast
    try:
        node = ast.parse(s, mode="eval").body
    except SyntaxError:
        return False
    return isinstance(node, (ast.Name, ast.Call, ast.Subscript, ast.Attribute))


ARGS = ["0, 1", "1, 0", "2, 3", "0, 0"]


@st.composite
def function_item(draw, uid="UID", max_depth=2):
    rnd = draw(st.randoms(use_true_random=True))
    typed = rnd.random() < 0.5
    g = G(rnd, typed, max_depth=max_depth)
    body = g.stmt()
    ci0, cj0, cb0 = rnd.randint(0, 3), rnd.randint(0, 3), rnd.random() < 0.5
    lines = ["def f_%s(x0, x1):" % uid]
    if typed:
        lines += ["    ci: cython.int = %d" % ci0, "    cj: cython.long = %d" % cj0, "    cb: cython.bint = %r" % cb0,
                  "    cl: list = [10, 20, 30]", "    cd: dict = {1: 1}"]
    else:
        lines += ["    ci = %d" % ci0, "    cj = %d" % cj0, "    cb = %r" % cb0, "    cl = [10, 20, 30]", "    cd = {1: 1}"]
    lines += ["    p = Px('p')", "    q = Px('q', False)", "    r = a = b = None"]
    lines += body
    lines += ["    return nm((r, a, b, ci, cj, cb, cl, cd))"]
    nargs = rnd.randint(1, 3)
    args = rnd.sample(ARGS, nargs)
    cases = [{"expr": "M.f_%s(%s)" % (uid, a)} for a in args]
    feats = set(g.feats)
    feats.add("typed" if typed else "untyped")
    return {"src": "\n".join(lines), "cases": cases,
            "meta": {"features": sorted(feats), "leaves": g.n, "side": g.side, "typed": typed}}


def draw_items(k, seed, parts, prefix, **kw):
    from vlib import hyp
    raw = hyp.draw_many(function_item("UID", **kw), k + 1, seed, *parts)[1:]
    out = []
    for i, it in enumerate(raw):
        uid = "%s_%d" % (prefix, i)
        out.append({"src": it["src"].replace("UID", uid),
                    "cases": [{"expr": c["expr"].replace("UID", uid)} for c in it["cases"]],
                    "meta": it["meta"]})
    return out
