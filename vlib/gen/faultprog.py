"""Programs whose operands are TRACKED harness objects (vlib/faultsupport.T): every operation is a fault point."""
from hypothesis import strategies as st

BIN = ["+", "-", "*", "//", "%", "&", "|", "^", "<<", ">>"]
CMP = ["<", "<=", "==", "!=", ">", ">="]


class FG:
    def __init__(self, draw):
        self.draw = draw
        self.vars = ["a", "b", "c"]
        self.n = 0
        self.feats = set()

    def pick(self, seq):
        return self.draw(st.sampled_from(list(seq)))

    def irange(self, lo, hi):
        return self.draw(st.integers(lo, hi))

    def fresh(self):
        self.n += 1
        return "t%d" % self.n

    def v(self):
        return self.pick(self.vars)

    def expr(self, d=0):
        c = self.irange(0, 22) if d < 2 else self.irange(0, 3)
        e = lambda: self.expr(d + 1)
        if c <= 2:
            return self.v()
        if c == 3:
            return repr(self.irange(-3, 9))
        if c <= 6:
            return "(%s %s %s)" % (e(), self.pick(BIN), e())
        if c == 7:
            return "(%s%s)" % (self.pick(["-", "~", "+", "not "]), e())
        if c == 8:
            self.feats.add("cmp")
            return "(%s %s %s)" % (e(), self.pick(CMP), e())
        if c == 9:
            self.feats.add("chaincmp")
            return "(%s %s %s %s %s)" % (e(), self.pick(CMP), e(), self.pick(CMP), e())
        if c == 10:
            self.feats.add("boolop")
            return "(%s %s %s)" % (e(), self.pick(["and", "or"]), e())
        if c == 11:
            self.feats.add("condexpr")
            return "(%s if %s else %s)" % (e(), e(), e())
        if c == 12:
            self.feats.add("container")
            return self.pick(["[%s, %s]", "(%s, %s)", "{%s: %s}", "{%s, %s}", "[%s, *%s]"]) % (e(), e())
        if c == 13:
            self.feats.add("subscript")
            return "%s[%s]" % (self.v(), e())
        if c == 14:
            self.feats.add("call")
            return "%s(%s)" % (self.v(), self.pick(["", e(), "%s, %s" % (e(), e()), "%s, k=%s" % (e(), e()), "*[%s, %s]" % (e(), e()),
                                                    "**{'k': %s}" % e()]))
        if c == 15:
            self.feats.add("builtin")
            return "%s(%s)" % (self.pick(["len", "hash", "int", "bool", "abs", "str", "repr", "float", "list", "tuple", "sorted", "sum",
                                           "min", "max", "any", "all", "reversed", "iter", "set"]), self.v() if self.irange(0, 1) else "[%s, %s]" % (e(), e()))
        if c == 16:
            self.feats.add("fstring")
            return "f\"{%s}{%s!r:>6}|{%s:%s}\"" % (self.v(), self.v(), self.v(), self.pick(["d", "5", "x", ""]))
        if c == 17:
            self.feats.add("in")
            return "(%s %s %s)" % (e(), self.pick(["in", "not in"]), self.pick([self.v(), "[%s, %s]" % (e(), e()), "(%s, %s)" % (e(), e())]))
        if c == 18:
            self.feats.add("comprehension")
            return self.pick(["[z %s %s for z in %s]", "{z: %s for z in %s if z %s 1}".replace("%s", "PH", 0) if False else "[z %s %s for z in %s]",
                              "sum(z %s %s for z in %s)", "sorted(z %s %s for z in %s)"]) % (self.pick(BIN), e(), self.v())
        if c == 19:
            self.feats.add("lambda")
            return "(lambda q, r=%s: q %s r)(%s)" % (e(), self.pick(BIN), e())
        if c == 20:
            self.feats.add("builtin")
            return self.pick(["divmod(%s, %s)", "pow(%s, %s)", "range(%s, %s)", "isinstance(%s, type(%s))", "dict(k=%s, j=%s)",
                              "list(zip([%s], [%s]))", "list(map(lambda z: z, [%s, %s]))", "'%%s-%%r' %% (%s, %s)", "{**{'a': %s}, 'b': %s}"]) % (e(), e())
        if c == 21:
            self.feats.add("slice")
            return "[%s, %s, %s][%s:%s]" % (e(), e(), e(), self.pick(["", e()]), self.pick(["", e()]))
        return "%s.%s" % (self.v(), self.pick(["v", "real_missing"]))

    def stmt(self, ind, d):
        c = self.irange(0, 17)
        e = self.expr
        if c <= 3:
            v = self.fresh()
            s = [ind + "%s = %s" % (v, e())]
            self.vars.append(v)
            return s
        if c == 4:
            self.feats.add("augassign")
            return [ind + "%s %s= %s" % (self.v(), self.pick(BIN), e())]
        if c == 5:
            self.feats.add("unpack")
            x, y = self.fresh(), self.fresh()
            s = [ind + self.pick(["%s, %s = %s", "%s, *%s = %s", "[%s, %s] = %s"]) % (x, y, self.pick([self.v(), "(%s, %s)" % (e(), e()), "[%s, %s, %s]" % (e(), e(), e())]))]
            self.vars += [x, y]
            return s
        if c == 6 and d < 2:
            self.feats.add("if")
            saved = list(self.vars)
            s = [ind + "if %s:" % e()] + self.block(ind + "    ", d + 1)
            self.vars[:] = saved
            if self.irange(0, 1):
                s += [ind + "else:"] + self.block(ind + "    ", d + 1)
                self.vars[:] = saved
            return s
        if c == 7 and d < 2:
            self.feats.add("for")
            saved = list(self.vars)
            z = self.fresh()
            s = [ind + "for %s in %s:" % (z, self.pick([self.v(), "[%s, %s]" % (e(), e()), "range(%s)" % self.v(), "enumerate([%s])" % e(),
                                                         "{%s: %s}.items()" % (e(), e())]))]
            self.vars.append(z)
            s += self.block(ind + "    ", d + 1)
            if self.irange(0, 2) == 0:
                s.append(ind + "    if %s: %s" % (e(), self.pick(["break", "continue"])))
            self.vars[:] = saved
            return s
        if c == 8 and d < 2:
            self.feats.add("try")
            saved = list(self.vars)
            s = [ind + "try:"] + self.block(ind + "    ", d + 1)
            self.vars[:] = saved
            form = self.irange(0, 3)
            if form <= 1:
                s += [ind + "except %s as ex:" % self.pick(["Exception", "ValueError", "(TypeError, ZeroDivisionError)", "BaseException"]),
                      ind + "    LOG.append(type(ex).__name__)"] + self.block(ind + "    ", d + 1)
                self.vars[:] = saved
            if form >= 1:
                s += [ind + "finally:"] + self.block(ind + "    ", d + 1)
                self.vars[:] = saved
            return s
        if c == 9 and d < 2:
            self.feats.add("with")
            saved = list(self.vars)
            w = self.fresh()
            s = [ind + "with %s as %s:" % (self.v(), w)]
            self.vars.append(w)
            s += self.block(ind + "    ", d + 1)
            self.vars[:] = saved
            return s
        if c == 10 and d < 1:
            self.feats.add("closure")
            f = self.fresh()
            saved = list(self.vars)
            s = [ind + "def %s(p, q=%s, *r, **k):" % (f, e())]
            self.vars += ["p", "q"]
            s += self.block(ind + "    ", d + 2)
            s.append(ind + "    return %s" % e())
            self.vars[:] = saved
            v = self.fresh()
            s.append(ind + "%s = %s(%s)" % (v, f, self.pick([e(), "%s, %s" % (e(), e()), "%s, %s, %s, z=%s" % (e(), e(), e(), e())])))
            self.vars.append(v)
            return s
        if c == 11 and d < 1:
            self.feats.add("generator")
            g = self.fresh()
            saved = list(self.vars)
            s = [ind + "def %s(p):" % g]
            self.vars.append("p")
            s += [ind + "    yield %s" % e(), ind + "    try:", ind + "        yield %s" % e(), ind + "    finally:", ind + "        LOG.append('gfin')",
                  ind + "    yield %s" % e()]
            self.vars[:] = saved
            v = self.fresh()
            s.append(ind + "%s = %s" % (v, self.pick(["list(%s(%s))" % (g, e()), "next(%s(%s))" % (g, e()), "[z for z in %s(%s) if z]" % (g, e()),
                                                        "sum(%s(%s), %s)" % (g, e(), e())])))
            self.vars.append(v)
            return s
        if c == 12:
            return [ind + "LOG.append(%s)" % e()]
        if c == 13:
            self.feats.add("setitem")
            d_ = self.fresh()
            s = [ind + "%s = {%s: %s}" % (d_, e(), e()), ind + "%s[%s] = %s" % (d_, e(), e()), ind + "%s[%s] %s= %s" % (d_, self.v(), self.pick(BIN), e())]
            self.vars.append(d_)
            return s
        if c == 14:
            self.feats.add("del")
            v = self.fresh()
            return [ind + "%s = [%s, %s]" % (v, e(), e()), ind + "del %s[%s]" % (v, self.pick(["0", "-1", self.v()]))]
        if c == 15 and d < 2:
            self.feats.add("while")
            n = self.fresh()
            saved = list(self.vars)
            s = [ind + "%s = 0" % n, ind + "while %s < 2 and %s:" % (n, e()), ind + "    %s += 1" % n] + self.block(ind + "    ", d + 1)
            self.vars[:] = saved
            return s
        if c == 16:
            self.feats.add("assert")
            return [ind + "assert %s, %s" % (e(), e())]
        return [ind + "%s = %s" % (self.fresh(), e())]

    def block(self, ind, d):
        out = []
        for _ in range(self.irange(1, 3)):
            out += self.stmt(ind, d)
        return out


@st.composite
def fault_item(draw, uid="UID"):
    g = FG(draw)
    n = draw(st.integers(2, 5))
    body = []
    for _ in range(n):
        body += g.stmt("    ", 0)
    live = [v for v in g.vars if v.startswith("t") or v in "abc"]
    # only names assigned at function top level are definitely bound
    top = ["a", "b", "c"]
    for line in body:
        if line.startswith("    ") and not line.startswith("     ") and " = " in line.split("#")[0]:
            lhs = line.strip().split(" = ")[0]
            for nm in lhs.replace("[", "").replace("]", "").replace("*", "").split(","):
                nm = nm.strip()
                if nm.isidentifier() and nm not in top:
                    top.append(nm)
    src = ["def f_%s(a, b, c):" % uid] + body + ["    return (%s,)" % ", ".join(top)]
    return {"src": "\n".join(src), "features": sorted(g.feats)}
