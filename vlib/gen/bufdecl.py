"""C17 generator: declared buffer dtypes (with an x86-64 C layout model), acquisition kernels, and PEP 3118 format
strings built BY CONSTRUCTION from the declared layout: equivalent spellings (accept set), single-point mutations
(reject set) and debatable spellings (either set, executed but not judged).

The layout model is verified at run time against the compiled module (sizeof / offsets table) before any verdict.
"""
import itertools
import struct

# ------------------------------------------------------------------------------------------------ C layout model
#            code  size align  kind
PRIMS = {
    "char":               ("c", 1, 1, "int"),        # unpacked as 'b' (plain char is signed on this platform)
    "signed char":        ("b", 1, 1, "int"),
    "unsigned char":      ("B", 1, 1, "int"),
    "short":              ("h", 2, 2, "int"),
    "unsigned short":     ("H", 2, 2, "int"),
    "int":                ("i", 4, 4, "int"),
    "unsigned int":       ("I", 4, 4, "int"),
    "long":               ("l", 8, 8, "int"),
    "unsigned long":      ("L", 8, 8, "int"),
    "long long":          ("q", 8, 8, "int"),
    "unsigned long long": ("Q", 8, 8, "int"),
    "Py_ssize_t":         ("l", 8, 8, "int"),
    "size_t":             ("L", 8, 8, "int"),
    "float":              ("f", 4, 4, "float"),
    "double":             ("d", 8, 8, "float"),
    "long double":        ("g", 16, 16, "float"),
    "float complex":      ("Zf", 8, 4, "complex"),
    "double complex":     ("Zd", 16, 8, "complex"),
}
STD_SIZE = {"b": 1, "B": 1, "c": 1, "?": 1, "h": 2, "H": 2, "i": 4, "I": 4, "l": 4, "L": 4, "q": 8, "Q": 8, "f": 4, "d": 8}
NAT_SIZE = {"b": 1, "B": 1, "c": 1, "?": 1, "h": 2, "H": 2, "i": 4, "I": 4, "l": 8, "L": 8, "q": 8, "Q": 8, "f": 4, "d": 8,
            "g": 16, "n": 8, "N": 8}
NAT_ALIGN = dict(NAT_SIZE)


class T:
    """kind: prim | struct | array"""
    def __init__(self, kind, **kw):
        self.kind = kind
        self.__dict__.update(kw)


def prim(cname):
    code, size, align, vk = PRIMS[cname]
    return T("prim", cname=cname, code=code, size=size, align=align, vk=vk)


def array(elem, *dims):
    n = 1
    for d in dims:
        n *= d
    return T("array", elem=elem, dims=list(dims), size=elem.size * n, align=elem.align, count=n)


def struct_t(name, fields, packed=False):
    off = 0
    offs = []
    align = 1
    for fname, ft in fields:
        a = 1 if packed else ft.align
        off = (off + a - 1) // a * a
        offs.append(off)
        off += ft.size
        align = max(align, a)
    size = (off + align - 1) // align * align
    return T("struct", name=name, fields=list(fields), offsets=offs, packed=packed, size=size, align=align)


def flatten(t, base=0, path=()):
    """-> [(offset, code, path)] of primitive leaves in memory order (complex counts as one leaf 'Zf'/'Zd')."""
    if t.kind == "prim":
        return [(base, t.code, path)]
    if t.kind == "array":
        out = []
        for i in range(t.count):
            out.extend(flatten(t.elem, base + i * t.elem.size, path + (i,)))
        return out
    out = []
    for (fname, ft), off in zip(t.fields, t.offsets):
        out.extend(flatten(ft, base + off, path + (fname,)))
    return out


def leaf_size(code):
    return {"Zf": 8, "Zd": 16}.get(code) or NAT_SIZE[code]


def leaf_align(code):
    return {"Zf": 4, "Zd": 8}.get(code) or NAT_ALIGN[code]


# ------------------------------------------------------------------------------------------------ expected values
def unpack_value(t, raw, base=0):
    """Python value the compiled code should produce for one item of type t stored at raw[base:]."""
    if t.kind == "prim":
        if t.code == "g":
            return ("longdouble", bytes(raw[base:base + 10]))      # judged through numpy in the driver
        if t.vk == "complex":
            c = t.code[1]
            re, im = struct.unpack_from("=" + c + c, raw, base)
            return complex(re, im)
        return struct.unpack_from("=" + {"l": "q", "L": "Q", "c": "b"}.get(t.code, t.code), raw, base)[0]
    if t.kind == "array":
        def build(dims, off):
            if not dims:
                return unpack_value(t.elem, raw, off), off + t.elem.size
            out = []
            for _ in range(dims[0]):
                v, off = build(dims[1:], off)
                out.append(v)
            return out, off
        return build(t.dims, base)[0]
    return {fname: unpack_value(ft, raw, base + off) for (fname, ft), off in zip(t.fields, t.offsets)}


# ------------------------------------------------------------------------------------------------ declarations
def cy_decl_struct(t, out, seen):
    """ctypedef struct declarations (dependencies first)."""
    for fname, ft in t.fields:
        e = ft.elem if ft.kind == "array" else ft
        if e.kind == "struct" and e.name not in seen:
            cy_decl_struct(e, out, seen)
    if t.name in seen:
        return
    seen.add(t.name)
    lines = ["cdef %sstruct %s:" % ("packed " if t.packed else "", t.name)]
    for fname, ft in t.fields:
        if ft.kind == "array":
            lines.append("    %s %s%s" % (cy_name(ft.elem), fname, "".join("[%d]" % d for d in ft.dims)))
        else:
            lines.append("    %s %s" % (cy_name(ft), fname))
    out.append("\n".join(lines) + "\n")


def cy_name(t):
    return t.cname if t.kind == "prim" else t.name


def decls():
    """-> ordered {id: T}: the declared element types."""
    d = {}
    for cname in PRIMS:
        d[cname.replace(" ", "_")] = prim(cname)
    S1 = struct_t("S1", [("a", prim("char")), ("b", prim("int")), ("c", prim("double"))])
    S2 = struct_t("S2", [("a", prim("char")), ("b", prim("int")), ("c", prim("double"))], packed=True)
    S3 = struct_t("S3", [("x", prim("short")), ("inner", S1), ("y", prim("signed char"))])
    S4 = struct_t("S4", [("a", array(prim("int"), 3)), ("b", array(prim("double"), 2, 2)), ("c", prim("unsigned char"))])
    S5 = struct_t("S5", [("z", prim("float complex")), ("q", prim("long long"))])
    S6 = struct_t("S6", [("a", prim("int")), ("b", prim("int")), ("c", prim("int"))])
    S7 = struct_t("S7", [("d", prim("double")), ("t", prim("unsigned short"))])                     # trailing padding
    S8 = struct_t("S8", [("h", prim("unsigned char")), ("inner", S2), ("w", prim("float"))], packed=True)   # packed nested
    S9 = struct_t("S9", [("u", prim("unsigned int")), ("two", array(S7, 2)), ("k", prim("short"))])  # array of structs
    for s in (S1, S2, S3, S4, S5, S6, S7, S8, S9):
        d[s.name] = s
    return d


MODULES = {
    "c17a": ["char", "signed_char", "unsigned_char", "short", "unsigned_short", "int", "unsigned_int", "long",
             "unsigned_long", "long_long", "unsigned_long_long", "Py_ssize_t", "size_t", "float", "double", "long_double",
             "float_complex", "double_complex"],
    "c17b": ["S1", "S2", "S3", "S4", "S5", "S6", "S7", "S8"],
}
# S9 (a struct with an array-of-structs member) trips `assert False` in Buffer.get_type_information_cname
# (CArrayType.struct_nesting_depth() ignores its element type): recorded finding, compile-only replay.
EXCLUDED = {"S9": "c17b"}
# (kernel suffix, declaration template, ndim, contiguity request) for the shape / contiguity kernels
NDKERNELS = [
    ("m1c", "%s[::1]", 1, "C"),
    ("m2", "%s[:, :]", 2, None),
    ("m2c", "%s[:, ::1]", 2, "C"),
    ("m2f", "%s[::1, :]", 2, "F"),
    ("m3c", "%s[:, :, ::1]", 3, "C"),
    ("b2s", 'object[%s, ndim=2, mode="strided"]', 2, None),
    ("b2c", 'object[%s, ndim=2, mode="c"]', 2, "C"),
    ("b2f", 'object[%s, ndim=2, mode="fortran"]', 2, "F"),
]
ND_DTYPES = {"c17a": ["double", "short"], "c17b": ["S1"]}
# `const T[:]` kernels only for these (every memoryview type costs seconds of C compile time)
CONST_DTYPES = ("unsigned_char", "int", "double", "float_complex", "S1", "S2", "S4")

EXPORTER = '''
from cpython.buffer cimport (PyBUF_WRITABLE, PyBUF_FORMAT, PyBUF_STRIDES, PyBUF_C_CONTIGUOUS, PyBUF_F_CONTIGUOUS,
                             PyBUF_ANY_CONTIGUOUS)
from cpython.bytearray cimport PyByteArray_AsString

cdef class Exporter:
    """PEP 3118 exporter with caller-chosen format / itemsize / ndim / shape / strides over a bytearray."""
    cdef object data
    cdef bytes fmt
    cdef bint null_format
    cdef Py_ssize_t shape[4]
    cdef Py_ssize_t strides[4]
    cdef int ndim
    cdef Py_ssize_t itemsize, offset
    cdef bint readonly, strict
    cdef public int gets, releases, last_flags

    def __init__(self, data, fmt, Py_ssize_t itemsize, shape, strides, bint readonly=False, Py_ssize_t offset=0,
                 bint strict=True):
        self.strict = strict
        self.data = data
        self.null_format = fmt is None
        self.fmt = b"" if fmt is None else fmt
        self.itemsize = itemsize
        self.ndim = len(shape)
        assert 0 < self.ndim <= 4 and len(strides) == self.ndim
        for i in range(self.ndim):
            self.shape[i] = shape[i]
            self.strides[i] = strides[i]
        self.readonly = readonly
        self.offset = offset
        self.gets = self.releases = 0

    def __getbuffer__(self, Py_buffer *view, int flags):
        self.last_flags = flags
        if self.readonly and (flags & PyBUF_WRITABLE):
            raise BufferError("Object is not writable.")
        if self.strict:
            # a conforming exporter refuses requests it cannot satisfy (strict=False: leave the check to the consumer)
            if (flags & PyBUF_C_CONTIGUOUS) == PyBUF_C_CONTIGUOUS and not self.contig(0):
                raise BufferError("not C-contiguous")
            if (flags & PyBUF_F_CONTIGUOUS) == PyBUF_F_CONTIGUOUS and not self.contig(1):
                raise BufferError("not Fortran-contiguous")
            if (flags & PyBUF_ANY_CONTIGUOUS) == PyBUF_ANY_CONTIGUOUS and not (self.contig(0) or self.contig(1)):
                raise BufferError("not contiguous")
            if (flags & PyBUF_STRIDES) != PyBUF_STRIDES and not self.contig(0):
                raise BufferError("strides required")
        cdef Py_ssize_t n = self.itemsize
        for i in range(self.ndim):
            n *= self.shape[i]
        view.buf = PyByteArray_AsString(self.data) + self.offset
        view.obj = self
        view.len = n
        view.itemsize = self.itemsize
        view.readonly = self.readonly
        view.ndim = self.ndim
        view.format = NULL if (self.null_format or not (flags & PyBUF_FORMAT)) else <char *> self.fmt
        view.shape = self.shape
        view.strides = self.strides
        view.suboffsets = NULL
        view.internal = NULL
        self.gets += 1

    def __releasebuffer__(self, Py_buffer *view):
        self.releases += 1

    cdef bint contig(self, int fortran):
        cdef Py_ssize_t expect = self.itemsize
        cdef int i, j
        for i in range(self.ndim):
            if self.shape[i] == 0:
                return True
        for j in range(self.ndim):
            i = j if fortran else self.ndim - 1 - j
            if self.shape[i] > 1 and self.strides[i] != expect:
                return False
            expect *= self.shape[i]
        return True
'''


def module_source(modname, only=None):
    """Source + kernel list [(name, dtype id, ndim, contiguity request, kind)] of a test module.
    only=(dtype id, kernel name): the self-contained one-kernel variant used in replay files."""
    D = decls()
    ids = MODULES[modname] if only is None else [only[0]]
    nd_ids = ND_DTYPES[modname] if only is None else ([only[0]] if only[1].split("_")[0] not in ("mv", "cmv", "lb") else [])
    out = ["# cython: language_level=3\n", EXPORTER]
    seen = set()
    for i in ids:
        if D[i].kind == "struct":
            cy_decl_struct(D[i], out, seen)
    kernels = []

    def add(k, text, rec):
        if only is None or only[1] == k:
            out.append(text)
            kernels.append(rec)
    for i in ids:
        cn = cy_name(D[i])
        add("mv_" + i, "def mv_%s(obj):\n    cdef %s[:] m = obj\n    return [m[i] for i in range(m.shape[0])]\n" % (i, cn),
            ("mv_" + i, i, 1, None, "mv"))
        if i in CONST_DTYPES:
            add("cmv_" + i, "def cmv_%s(obj):\n    cdef const %s[:] m = obj\n    return [m[i] for i in range(m.shape[0])]\n" % (i, cn),
                ("cmv_" + i, i, 1, None, "cmv"))
        add("lb_" + i, "def lb_%s(object[%s, ndim=1] buf, Py_ssize_t n0):\n    return [buf[i] for i in range(n0)]\n" % (i, cn),
            ("lb_" + i, i, 1, None, "lb"))
    for i in nd_ids:
        cn = cy_name(D[i])
        for suffix, tmpl, nd, contig in NDKERNELS:
            k = "%s_%s" % (suffix, i)
            decl = tmpl % cn
            idx = ", ".join("i%d" % j for j in range(nd))
            if suffix[0] == "m":
                loops = "".join(" for i%d in range(m.shape[%d])" % (j, j) for j in range(nd))
                text = "def %s(obj):\n    cdef %s m = obj\n    return [m[%s]%s]\n" % (k, decl, idx, loops)
            else:
                loops = "".join(" for i%d in range(n%d)" % (j, j) for j in range(nd))
                sig = "".join(", Py_ssize_t n%d" % j for j in range(nd))
                text = "def %s(%s m%s):\n    return [m[%s]%s]\n" % (k, decl, sig, idx, loops)
            add(k, text, (k, i, nd, contig, "mv" if suffix[0] == "m" else "lb"))
    # layout read-back
    rows = []
    for i in ids:
        t = D[i]
        cn = cy_name(t)
        row = ["sizeof(%s)" % cn]
        if t.kind == "struct":
            row += ["<size_t>&(<%s*>NULL).%s" % (cn, f) for f, _ in t.fields]
        rows.append("%r: [%s]" % (i, ", ".join(row)))
    out.append("def LAYOUT():\n    return {%s}\n" % ", ".join(rows))
    return "\n".join(out), kernels


def model_layout(i):
    t = decls()[i]
    return [t.size] + (list(t.offsets) if t.kind == "struct" else [])


# ------------------------------------------------------------------------------------------------ format spellings
def _pad(n, style):
    if n <= 0:
        return ""
    if style == "count":
        return "%dx" % n
    return "x" * n


def spell(t, mode="@", wrap=False, names=False, counts=False, ws="", padstyle="x", trailing=False, arrays="paren",
          complex_as="Z", inner_wrap=True, mutate=None):
    """Format string for ONE item of type t under byte-order/alignment `mode` ('' = no prefix = native).

    Offsets are tracked with struct-module semantics ('@'/'' align each primitive natively, '=', '<', '^' never
    pad) and explicit 'x' padding is inserted wherever those semantics would not reach the C offset.
    mutate: None or a callable(tokens) -> tokens applied to the flat token list before joining (reject set).
    Tokens: ("pad", n) | ("prim", code, count) | ("open",) | ("close", name) | ("arr", dims, code)
    """
    native = mode in ("@", "")
    toks = []
    cur = [0]

    def goto(target, code=None):
        c = cur[0]
        if native and code is not None:
            a = leaf_align(code)
            aligned = (c + a - 1) // a * a
            if aligned == target:
                cur[0] = target
                return
            # explicit padding up to the target (which is aligned in every non-packed C layout; for packed layouts
            # native alignment cannot be expressed and the caller must not use a native mode)
            assert target % a == 0, "native mode cannot express an unaligned field"
        if target > c:
            toks.append(("pad", target - c))
        cur[0] = target

    def emit(t, base, name):
        if t.kind == "prim":
            codes = [t.code]
            if t.vk == "complex" and complex_as != "Z":
                codes = [t.code[1], t.code[1]]
            off = base
            for j, code in enumerate(codes):
                goto(off, code)
                toks.append(("prim", code, 1, name if j == len(codes) - 1 else None))
                cur[0] = off + leaf_size(code)
                off += leaf_size(code)
        elif t.kind == "array":
            if arrays == "paren" and t.elem.kind == "prim" and not (t.elem.vk == "complex" and complex_as != "Z"):
                goto(base, t.elem.code)
                toks.append(("arr", t.dims, t.elem.code, name))
                cur[0] = base + t.size
            else:
                for i in range(t.count):
                    emit(t.elem, base + i * t.elem.size, name if i == t.count - 1 else None)
        else:
            w = inner_wrap
            if w:
                first = flatten(t, base)[0]
                goto(first[0] if native else base, first[1] if native else None)
                if not native:
                    goto(base)
                toks.append(("open",))
            for (fname, ft), off in zip(t.fields, t.offsets):
                emit(ft, base + off, fname)
            if w:
                goto(base + t.size)                       # explicit trailing padding inside T{}
                toks.append(("close", name))

    if t.kind == "struct":
        first = flatten(t)[0]
        if wrap:
            toks.append(("open",))
        for (fname, ft), off in zip(t.fields, t.offsets):
            emit(ft, off, fname)
        if trailing:
            goto(t.size)
        if wrap:
            toks.append(("close", None))
    else:
        emit(t, 0, None)
    if mutate is not None:
        toks = mutate(toks)
        if toks is None:
            return None
    # merge runs of identical unnamed primitives into repeat counts
    out = []
    i = 0
    while i < len(toks):
        tk = toks[i]
        if tk[0] == "pad":
            out.append(_pad(tk[1], padstyle))
        elif tk[0] == "open":
            out.append("T{")
        elif tk[0] == "close":
            out.append("}" + (":%s:" % tk[1] if (names and tk[1]) else ""))
        elif tk[0] == "arr":
            out.append("(%s)%s" % (",".join(str(d) for d in tk[1]), tk[2]) + (":%s:" % tk[3] if (names and tk[3]) else ""))
        elif tk[0] == "raw":
            out.append(tk[1])
        else:
            n = tk[2]
            if counts and not names:
                j = i + 1
                while j < len(toks) and toks[j][0] == "prim" and toks[j][1] == tk[1]:
                    n += toks[j][2]
                    j += 1
                i = j - 1
            out.append(("%d" % n if (n != 1 or counts == "always") else "") + tk[1] + (":%s:" % tk[3] if (names and tk[3]) else ""))
        i += 1
    return mode + ws.join(out)


def repack(t, packed):
    """Deep copy of a struct type with every (nested) struct packed / naturally aligned."""
    if t.kind == "prim":
        return t
    if t.kind == "array":
        return array(repack(t.elem, packed), *t.dims)
    return struct_t(t.name, [(f, repack(ft, packed)) for f, ft in t.fields], packed=packed)


def expressible_native(t):
    """Native-alignment modes can spell the layout iff every leaf sits on a multiple of its alignment."""
    return all(off % leaf_align(code) == 0 for off, code, _ in flatten(t))


def accept_spellings(t):
    """[(class label, format)] - every entry lays out exactly the declared C type by PEP 3118 / struct rules."""
    out = []
    nat = expressible_native(t)
    is_struct = t.kind == "struct"
    has_cx = any(c in ("Zf", "Zd") for _, c, _ in flatten(t))
    has_g = any(c == "g" for _, c, _ in flatten(t))
    modes = ([("", "native"), ("@", "native@")] if nat else []) + [("^", "unaligned^")]
    if not has_g and all((c in ("Zf", "Zd")) or STD_SIZE.get(c) == NAT_SIZE.get(c) for _, c, _ in flatten(t)):
        modes += [("=", "std="), ("<", "std<")]
    for mode, ml in modes:
        out.append(("plain/" + ml, spell(t, mode)))
        if is_struct:
            out.append(("T{}/" + ml, spell(t, mode, wrap=True)))
            out.append(("T{}+names/" + ml, spell(t, mode, wrap=True, names=True)))
            out.append(("names/" + ml, spell(t, mode, names=True)))
            out.append(("counts/" + ml, spell(t, mode, counts=True)))
            out.append(("trailing-pad/" + ml, spell(t, mode, trailing=True, wrap=True)))
            out.append(("pad-as-count/" + ml, spell(t, mode, padstyle="count", trailing=True)))
            out.append(("whitespace/" + ml, spell(t, mode, ws=" ", wrap=True)))
            out.append(("flat-inner/" + ml, spell(t, mode, inner_wrap=False)))
        else:
            out.append(("count1/" + ml, spell(t, mode, counts="always")))
            out.append(("whitespace/" + ml, " " + spell(t, mode) + " "))
    # standard-size spellings whose sizes differ from native: 4-byte int is '=l', 8-byte long is '=q'
    if t.kind == "prim" and t.code in ("i", "I"):
        out.append(("std-size-l", "=" + ("l" if t.code == "i" else "L")))
        out.append(("std-size-l", "<" + ("l" if t.code == "i" else "L")))
    if t.kind == "prim" and t.code in ("l", "L"):
        out.append(("std-size-q", "=" + ("q" if t.code == "l" else "Q")))
        out.append(("std-size-q", "<" + ("q" if t.code == "l" else "Q")))
    if t.kind == "prim" and t.cname == "char":
        out += [("char-as-b", "b"), ("char-as-b", "@b"), ("char-as-b", "=b")]
    if t.kind == "prim" and t.cname in ("Py_ssize_t", "size_t"):
        out.append(("ssize-n", "n" if t.cname == "Py_ssize_t" else "N"))
    seen = set()
    res = []
    for cl, f in out:
        if f is not None and (cl, f) not in seen:
            seen.add((cl, f))
            res.append((cl, f))
    return res


WRONG_KIND = {"b": ["B", "h", "?"], "B": ["b", "H"], "h": ["H", "i", "b"], "H": ["h", "I"], "i": ["I", "f", "h", "q"],
              "I": ["i", "f", "H"], "l": ["L", "d", "i"], "L": ["l", "d", "I"], "q": ["Q", "d", "i"], "Q": ["q", "d"],
              "f": ["i", "d", "Zf"], "d": ["q", "f", "Zd", "g"], "g": ["d", "Zd"], "Zf": ["f", "Zd", "q"], "Zd": ["d", "Zf"],
              "c": ["h"]}


def reject_spellings(t, either_extra=None):
    """[(class label, format)] - single-point mutations of an accepted spelling that change the described layout."""
    out = []
    if either_extra is None:
        either_extra = []
    nat = expressible_native(t)
    base_modes = ([""] if nat else []) + ["^"]
    leaves = flatten(t)
    multibyte = any(leaf_size(c) > 1 for _, c, _ in leaves)
    for mode in base_modes:
        prim_positions = []

        def probe(toks):
            prim_positions.extend(i for i, tk in enumerate(toks) if tk[0] in ("prim", "arr"))
            return toks
        spell(t, mode, mutate=probe)
        for pi, pos in enumerate(prim_positions):
            def change(toks, pos=pos, alt=None):
                tk = toks[pos]
                code = tk[1] if tk[0] == "prim" else tk[2]
                new = list(toks)
                new[pos] = (("prim", alt, tk[2], tk[3]) if tk[0] == "prim" else ("arr", tk[1], alt, tk[3]))
                return new
            tk_code = []
            spell(t, mode, mutate=lambda toks, pos=pos: tk_code.append(toks[pos][1] if toks[pos][0] == "prim" else toks[pos][2]) or toks)
            for alt in WRONG_KIND.get(tk_code[0], [])[: 3 if len(prim_positions) <= 3 else 1]:
                out.append(("wrong-primitive:%s->%s" % (tk_code[0], alt), spell(t, mode, mutate=lambda toks, pos=pos, alt=alt: change(toks, pos, alt))))
        # one field more / one field less
        out.append(("extra-field", spell(t, mode, mutate=lambda toks: toks + [("prim", "b", 1, None)])))
        out.append(("extra-field", spell(t, mode, mutate=lambda toks: [("prim", "b", 1, None)] + toks)))
        if len(prim_positions) > 1:
            out.append(("missing-field", spell(t, mode, mutate=lambda toks: [tk for i, tk in enumerate(toks) if i != prim_positions[-1]])))
            out.append(("missing-field", spell(t, mode, mutate=lambda toks: [tk for i, tk in enumerate(toks) if i != prim_positions[0]])))
        else:
            out.append(("count+1", spell(t, mode, mutate=lambda toks: [(("prim", tk[1], 2, tk[3]) if tk[0] == "prim" else tk) for tk in toks])))
            out.append(("count-0", spell(t, mode, mutate=lambda toks: [(("prim", tk[1], 0, tk[3]) if tk[0] == "prim" else tk) for tk in toks], counts="always")))
        # padding mutations: an extra pad byte before the second primitive / a dropped pad
        if len(prim_positions) > 1:
            p1 = prim_positions[1]
            out.append(("extra-pad", spell(t, "^", mutate=lambda toks: toks[:p1] + [("pad", 1)] + toks[p1:])))
        pads = []
        spell(t, "^", mutate=lambda toks: pads.extend(i for i, tk in enumerate(toks) if tk[0] == "pad") or toks)
        for pp in pads[:2]:
            nxt = []
            spell(t, "^", mutate=lambda toks, pp=pp: nxt.append(toks[pp + 1][0] if pp + 1 < len(toks) else "end") or toks)
            if nxt[0] in ("prim", "arr", "open"):
                out.append(("missing-pad", spell(t, "^", mutate=lambda toks, pp=pp: toks[:pp] + toks[pp + 1:])))
                out.append(("short-pad", spell(t, "^", mutate=lambda toks, pp=pp: toks[:pp] + ([("pad", toks[pp][1] - 1)] if toks[pp][1] > 1 else []) + toks[pp + 1:])))
        # array dimensions
        arrs = []
        spell(t, mode, mutate=lambda toks: arrs.extend(i for i, tk in enumerate(toks) if tk[0] == "arr") or toks)
        for ap in arrs:
            out.append(("array-dim+1", spell(t, mode, mutate=lambda toks, ap=ap: toks[:ap] + [("arr", [toks[ap][1][0] + 1] + toks[ap][1][1:], toks[ap][2], toks[ap][3])] + toks[ap + 1:])))
            either_extra.append(("array-ndim+1-of-extent-1", spell(t, mode, mutate=lambda toks, ap=ap: toks[:ap] + [("arr", toks[ap][1] + [1], toks[ap][2], toks[ap][3])] + toks[ap + 1:])))
    # alignment-rule confusion: native spelling of a packed struct / '=' spelling without pads of an aligned struct
    if t.kind == "struct":
        pk = repack(t, True)
        al = repack(t, False)
        if [o for o, _, _ in flatten(pk)] != [o for o, _, _ in flatten(al)]:
            if t.packed:
                out.append(("aligned-format-for-packed", spell(al, "")))
                out.append(("aligned-format-for-packed", spell(al, "@", wrap=True)))
            else:
                out.append(("packed-format-for-aligned", spell(pk, "^")))
                if all((c in ("Zf", "Zd")) or STD_SIZE.get(c) == NAT_SIZE.get(c) for _, c, _ in leaves):
                    out.append(("packed-format-for-aligned", spell(pk, "=")))
    # byte order
    if multibyte and not any(c == "g" for _, c, _ in leaves):
        for m in (">", "!"):
            pk = spell(t, "^")[1:]
            if all((c in ("Zf", "Zd")) or STD_SIZE.get(c) == NAT_SIZE.get(c) for _, c, _ in leaves):
                out.append(("big-endian", m + pk))
    # garbled strings
    good = spell(t, "" if nat else "^", wrap=(t.kind == "struct"))
    out.append(("garbled:unbalanced-open", "T{" + good))
    out.append(("garbled:unknown-code", good + "y"))
    out.append(("garbled:unknown-code", "&" + good))
    if t.kind != "struct":
        out.append(("garbled:huge-count", "99999999" + good.lstrip("^")))
    out.append(("garbled:Z-alone", good + "Z"))
    out.append(("garbled:Zi", "Zi"))
    out.append(("garbled:T-without-brace", "T" + good))
    out.append(("garbled:empty", ""))
    res = []
    seen = set()
    for cl, f in out:
        if f is not None and f not in seen:
            seen.add(f)
            res.append((cl, f))
    return res


def risky_reject_spellings(t):
    """Reject-set members that crash the unchanged tree (recorded finding): run in their own runner case."""
    out = []
    if t.kind == "struct":
        nat = expressible_native(t)
        body = spell(t, "" if nat else "^", wrap=True)
        prefix, body = (body[0], body[1:]) if body[0] in "^=<@" else ("", body)
        out.append(("struct-count+1", prefix + "2" + body))
        out.append(("garbled:huge-count", prefix + "99999999" + body))
    return out


def either_spellings(t):
    """Debatable spellings: executed (crash / sanitizer coverage), never judged."""
    out = []
    if t.kind == "prim":
        if t.code in ("l", "L"):
            out.append(("l-vs-q", "q" if t.code == "l" else "Q"))
        if t.code in ("q", "Q"):
            out.append(("l-vs-q", "l" if t.code == "q" else "L"))
        if t.cname in ("long", "long long"):
            out.append(("ssize-n-for-long", "n"))
        if leaf_size(t.code) == 1:
            out.append(("big-endian-single-byte", ">" + t.code))
        if t.cname == "unsigned char":
            out.append(("bool-for-uchar", "?"))
        if t.cname == "char":
            out.append(("uchar-for-char", "B"))
        if t.cname in ("char", "signed char", "unsigned char"):
            out.append(("string-s", "s"))
            out.append(("string-1s", "1s"))
    if any(tk == "array" for tk in [f.kind for _, f in getattr(t, "fields", [])]):
        out.append(("array-as-repeat", spell(t, "" if expressible_native(t) else "^", arrays="flat", counts=True)))
        out.append(("array-as-flat", spell(t, "" if expressible_native(t) else "^", arrays="flat")))
    if any(c in ("Zf", "Zd") for _, c, _ in flatten(t)):
        # a complex number spelled as two reals: same memory, different element kind -> debatable
        m = "" if expressible_native(t) else "^"
        out.append(("complex-as-two-reals", spell(t, m, complex_as="pair")))
        out.append(("complex-as-two-reals", spell(t, "=", complex_as="pair")))
    if t.kind == "struct":
        good = spell(t, "" if expressible_native(t) else "^", wrap=True, names=True)
        if expressible_native(t):
            out.append(("native-T{}-no-trailing-pad", spell(t, "@", wrap=True, trailing=False)))
    acc = {f for _, f in accept_spellings(t)}
    return [(cl, f) for cl, f in out if f is not None and f not in acc]
