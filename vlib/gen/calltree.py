"""Call-tree programs for C45 (profiling / tracing events balanced and well nested).

One *tree* = a handful of functions t<uid>_<role><k>(x) whose bodies call the later ones: plain returns, raises
(caught at generated levels or escaping), try/finally and `with` early returns, loop early exits, recursion,
methods, closures, argument-count errors, and generators that are exhausted, abandoned after one item,
closed, or thrown into.  All statements are single-line, so the set of lines that hold a statement of a function
is exactly known.  The integer argument x steers which path is taken; every tree comes with a few x values.
"""
from hypothesis import strategies as st

HEADER = '''class TErr(Exception):
    pass


class CM_:
    def __init__(self, swallow):
        self.swallow = swallow

    def __enter__(self):
        return self

    def __exit__(self, et, ev, tb):
        return self.swallow and et is not None and issubclass(et, TErr)


def H_(x):
    return x

'''

# the recorder, exec'd in the runner namespace (M = module under test)
SETUP = r'''
import json as _json, re as _re, sys as _sys
_NAME = _re.compile(r"^t\d+_\w+$")

def REC(mode, fname, *args):
    events = []
    def prof(frame, event, arg):
        if event in ("call", "return"):
            co = frame.f_code
            if _NAME.match(co.co_name):
                events.append([event, co.co_name, frame.f_lineno])
    def local(frame, event, arg):
        co = frame.f_code
        events.append([event, co.co_name, frame.f_lineno])
        return local
    def local_f(frame, event, arg):
        co = frame.f_code
        if _NAME.match(co.co_name):
            events.append([event, co.co_name, frame.f_lineno])
        return local_f
    def glob(frame, event, arg):
        # "selective": the documented way of not tracing a scope - return None from the global trace function
        co = frame.f_code
        if event == "call" and _NAME.match(co.co_name):
            events.append([event, co.co_name, frame.f_lineno])
            return local
        return None
    def glob_all(frame, event, arg):
        # "trace": every scope gets a local trace function; foreign scopes are filtered when recording
        return local_f(frame, event, arg)
    fn = getattr(M, fname)
    if mode == "profile":
        _sys.setprofile(prof)
    elif mode == "trace":
        _sys.settrace(glob_all)
    elif mode == "selective":
        _sys.settrace(glob)
    try:
        try:
            out = ["ok", repr(fn(*args))]
        except BaseException as e:
            out = ["exc", type(e).__name__]
    finally:
        _sys.setprofile(None)
        _sys.settrace(None)
    return _json.dumps({"events": events, "outcome": out})
'''


class T:
    def __init__(self, draw, uid, size):
        self.draw = draw
        self.uid = uid
        self.size = size
        self.kinds = {}       # function name -> node kind
        self.funcs = []       # list of source line lists, in definition order
        self.feats = set()

    def pick(self, seq):
        return self.draw(st.sampled_from(seq))

    def irange(self, a, b):
        return self.draw(st.integers(a, b))

    def name(self, role, k):
        return "t%s_%s%d" % (self.uid, role, k)

    def call(self, k, arg="x"):
        """expression calling node k (or a constant when there is no node k)."""
        if k >= self.size:
            return "(%s + 1)" % arg
        kind, nm = self.nodes[k]
        if kind == "method":
            return "K%s_%d().%s(%s)" % (self.uid, k, nm, arg)
        if kind == "gen":
            how = self.pick(["list", "first", "close", "throw", "break", "sum"])
            self.feats.add("gen-" + how)
            if how == "list":
                return "len(list(%s(%s)))" % (nm, arg)
            if how == "sum":
                return "sum(%s(%s))" % (nm, arg)
            helper = self.name("use" + how, len(self.funcs) + 100 * k)
            lines = ["def %s(x):" % helper, "    g = %s(x)" % nm]
            if how == "first":
                lines += ["    r = next(g, -1)", "    del g", "    return r"]
            elif how == "close":
                lines += ["    r = next(g, -1)", "    g.close()", "    return r"]
            elif how == "throw":
                lines += ["    r = next(g, -1)", "    try:", "        r = g.throw(TErr(x))", "    except TErr:", "        r = -2",
                          "    except StopIteration:", "        r = -3", "    return r"]
            else:
                lines += ["    r = 0", "    for v in g:", "        r += v", "        if r > x:", "            break", "    return r"]
            self.kinds[helper] = "use" + how
            self.funcs.append(lines)
            return "%s(%s)" % (helper, arg)
        return "%s(%s)" % (nm, arg)

    def children(self, k):
        """indices of 0..2 later nodes"""
        n = self.irange(1, 2) if k < self.size - 1 else 0
        return sorted(set(self.irange(k + 1, self.size - 1) for _ in range(n))) if n else []

    def body(self, k, kind, nm, ind="    "):
        ch = self.children(k)
        c0 = self.call(ch[0]) if ch else "(x + 2)"
        c1 = self.call(ch[1], "x - 1") if len(ch) > 1 else "x"
        m = self.irange(2, 3)
        r = self.irange(0, m - 1)
        L = []
        if kind == "plain":
            L += ["a = %s" % c0, "b = H_(%s)" % c1, "return a + b"]
        elif kind == "raise":
            self.feats.add("raise")
            L += ["if x %% %d == %d:" % (m, r), "    raise TErr(x)", "a = %s" % c0, "return a"]
        elif kind == "catch":
            self.feats.add("catch")
            L += ["try:", "    a = %s" % c0, "except TErr:", "    a = -1", "b = %s" % c1, "return a + b"]
        elif kind == "reraise":
            self.feats.add("reraise")
            L += ["try:", "    a = %s" % c0, "except TErr as e:", "    if x %% %d == %d:" % (m, r), "        raise",
                  "    raise ValueError(x)", "return a"]
        elif kind == "finally":
            self.feats.add("finally")
            L += ["a = 0", "try:", "    a = %s" % c0, "    if a %% %d == %d:" % (m, r), "        return a", "finally:", "    a = a + 1",
                  "return a + %s" % c1]
        elif kind == "with":
            self.feats.add("with")
            L += ["with CM_(%s):" % self.pick(["True", "False"]), "    a = %s" % c0, "    if a %% %d == %d:" % (m, r), "        return a",
                  "return %s" % c1]
        elif kind == "loop":
            self.feats.add("loop")
            L += ["a = 0", "for i in range(3):", "    a += %s" % (self.call(ch[0], "x + i") if ch else "i"),
                  "    if a %% %d == %d:" % (m, r), "        %s" % self.pick(["return a", "break", "continue"]), "return a + %s" % c1]
        elif kind == "rec":
            self.feats.add("recursion")
            L += ["if x <= 0:", "    return %s" % c0, "return %s(x - 2) + 1" % nm]
        elif kind == "closure":
            self.feats.add("closure")
            inner = self.name("inner", k)
            self.kinds[inner] = "inner"
            L += ["def %s(y):" % inner, "    return %s + y" % c0, "return %s(%s)" % (inner, c1)]
        elif kind == "argerr":
            self.feats.add("argerr")
            target = self.nodes[ch[0]][1] if ch and self.nodes[ch[0]][0] not in ("method", "gen") else nm
            L += ["try:", "    a = %s(%s)" % (target, self.pick(["", "x, x", "x, y=1"])), "except TypeError:", "    a = -1",
                  "return a + %s" % (c1 if target != nm else "x")]
        elif kind == "gen":
            self.feats.add("generator")
            L += ["yield x", "a = %s" % c0, "yield a", "if a %% %d == %d:" % (m, r), "    return", "yield %s" % c1]
        elif kind == "gentry":
            self.feats.add("generator")
            L += ["try:", "    yield x", "    a = %s" % c0, "    yield a", "finally:", "    a = 0", "yield %s" % c1]
        return [ind + x for x in L]


@st.composite
def tree(draw, uid="U"):
    size = draw(st.integers(3, 7))
    t = T(draw, uid, size)
    kinds = ["plain", "raise", "raise", "catch", "reraise", "finally", "with", "loop", "rec", "closure", "argerr",
             "gen", "gentry", "method"]
    full = []
    for k in range(size):
        kind = draw(st.sampled_from(["plain", "catch", "finally", "with", "loop", "closure"])) if k == 0 else draw(st.sampled_from(kinds))
        role = {"gentry": "gen", "method": "m"}.get(kind, kind)
        full.append((kind, t.name(role, k)))
    t.nodes = [("gen" if kd == "gentry" else kd, nm) for kd, nm in full]
    blocks = {}
    for k in range(size - 1, -1, -1):
        kind, nm = full[k]
        nfun = len(t.funcs)
        if kind == "method":
            inner_kind = draw(st.sampled_from(["plain", "raise", "catch", "finally"]))
            body = t.body(k, inner_kind, nm, "        ")
            t.kinds[nm] = "method-" + inner_kind
            t.feats.add("method")
            block = ["class K%s_%d:" % (uid, k), "    def %s(self, x):" % nm] + body
        else:
            t.kinds[nm] = kind
            block = ["def %s(x):" % nm] + t.body(k, kind, nm)
        # helper functions created while rendering this body were appended to t.funcs; the body itself goes after them
        t.funcs.append(block)
    root = full[0][1]
    src = "\n\n".join("\n".join(b) for b in t.funcs)
    xs = draw(st.lists(st.integers(0, 7), min_size=2, max_size=4, unique=True))
    return {"src": src, "root": root, "xs": xs, "kinds": dict(t.kinds), "features": sorted(t.feats)}


def draw_trees(k, seed, parts, prefix):
    from vlib import hyp
    raw = hyp.draw_many(tree("UID"), k + 1, seed, *parts)[1:]
    out = []
    for i, it in enumerate(raw):
        uid = "%d" % (int(prefix) * 1000 + i)      # numeric: the recorder filters names by ^t\d+_
        ren = lambda s: s.replace("UID", uid)
        out.append({"src": ren(it["src"]), "root": ren(it["root"]), "xs": it["xs"],
                    "kinds": {ren(a): b for a, b in it["kinds"].items()}, "features": it["features"]})
    return out
