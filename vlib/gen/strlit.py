"""Generator of string / bytes literal SOURCE TEXT (C10).

literal(draw, latin1_only) -> dict(text=<source text of one literal expression, possibly an implicit concatenation in
parentheses>, kinds=<set of piece kinds>, family="str"|"bytes", prefixes=[...], pieces=[(kind, source, class)])
The scanner-level forms are what matters here: prefixes x quote styles x escape kinds x raw characters x implicit
concatenation x lengths.  Validity is decided by CPython's own compile(); invalid combinations are filtered by the
caller (they should be rare).
"""
from hypothesis import strategies as st

STR_PREFIXES = ["", "", "", "u", "U", "f", "F"]
STR_RAW_PREFIXES = ["r", "R", "fr", "rf", "Fr", "rF", "FR", "Rf"]
BYTES_PREFIXES = ["b", "b", "B"]
BYTES_RAW_PREFIXES = ["br", "rb", "Br", "bR", "BR", "Rb", "rB", "RB"]
QUOTES = ["'", '"', "'''", '"""']

PLAIN = ["a", "abc", "Hello", "x y z", "0", "7", "89", "A1b2", "spam and eggs", ";", ",", "#", "# not a comment", "$", "@",
         "~`^&*()-_=+[]|;:,.<>/?", "if x: pass", "\t", "  ", "q", "N", "u0041", "x41", "0x41"]
SIMPLE_ESC = ["\\n", "\\t", "\\r", "\\\\", "\\'", '\\"', "\\a", "\\b", "\\f", "\\v", "\\0"]
OCTAL_ESC = ["\\1", "\\7", "\\12", "\\77", "\\123", "\\177", "\\200", "\\377", "\\400", "\\777", "\\0", "\\00", "\\000", "\\08",
             "\\1234", "\\18", "\\3777"]
HEX_ESC = ["\\x00", "\\x01", "\\x0a", "\\x22", "\\x27", "\\x5c", "\\x7f", "\\x80", "\\xe9", "\\xff", "\\xFF", "\\xaB", "\\x411",
           "\\x0g"[:-1] + "0g"]
U4_ESC = ["\\u0000", "\\u0041", "\\u00e9", "\\u00ff", "\\u0100", "\\u20ac", "\\u4e2d", "\\ud7ff", "\\ud800", "\\udbff", "\\udc00",
          "\\udfff", "\\ue000", "\\ufffe", "\\uffff", "\\ud83d\\ude00", "\\u00e91"]
U8_ESC = ["\\U00000000", "\\U00000041", "\\U000000e9", "\\U0000ffff", "\\U00010000", "\\U0001f600", "\\U0010ffff", "\\U0000d800",
          "\\U0000dfff", "\\U0001F600"]
NAMED_ESC = ["\\N{LATIN SMALL LETTER E WITH ACUTE}", "\\N{EURO SIGN}", "\\N{GRINNING FACE}", "\\N{latin small letter a}",
             "\\N{NULL}", "\\N{LINE FEED}", "\\N{HYPHEN-MINUS}", "\\N{CJK UNIFIED IDEOGRAPH-4E2D}", "\\N{SPACE}",
             "\\N{LATIN CAPITAL LETTER A WITH RING ABOVE}"]
UNKNOWN_ESC = ["\\q", "\\8", "\\9", "\\.", "\\%", "\\ ", "\\z", "\\-", "\\d", "\\w", "\\(", "\\/", "\\e", "\\c", "\\E", "\\X41"]
BYTES_NONESC = ["\\u1234", "\\U0001f600", "\\N{EURO SIGN}", "\\N"]            # no escapes in bytes literals
BACKSLASHES = ["\\\\", "\\\\\\\\", "\\\\n", "\\\\\\n", "\\\\\\\\x41", "\\\\'", '\\\\"', "\\\\\\\\\\\\"]
RAW_BACKSLASH = ["\\n", "\\\\", "\\x41", "\\u1234", "\\N{EURO SIGN}", "\\0", "\\q", "\\d+\\.\\d*", "\\\\\\\\", "\\az", "\\ z", "C:\\temp\\new"]
TRIGRAPHS = ["??=", "??/x", "??(", "??!", "??<", "??>", "??-", "???", "??)"]
PERCENT_BRACE = ["%s", "%%", "%d %r", "%(name)s", "{}", "{0}", "{name!r:>10}", "{{", "}}", "{", "}", "${x}", "%", "{}{}"]
NONASCII_LATIN1 = ["\xe9", "\xff", "\xa0", "\xa3", "\xdf", "\xe9t\xe9", "\xc3\xa9", "\x80", "\xad", "\xb5"]
NONASCII_WIDE = ["\u20ac", "\u4e2d\u6587", "\U0001f600", "e\u0301", "\u0100", "\ufeff", "\u2028", "\u2029", "\uffff", "\U0010ffff",
                 "\u0430\u0431\u0432", "\u05d0", "\u200b", "\u00e9\u20ac\U0001f600"]
CTRL_RAW = ["\x01", "\x7f", "\x0c", "\x1f", "\x0b", "\x1b[0m", "\x08", "\x1a", "\x7f\x7f"]


def _brace_escape(s):
    return s.replace("{", "{{").replace("}", "}}")


@st.composite
def _pieces(draw, cls, quote, latin1_only, nmax):
    """cls in S (str), SR (raw str), B (bytes), BR (raw bytes).  -> list of (kind, source)"""
    triple = len(quote) == 3
    q = quote[0]
    other = '"' if q == "'" else "'"
    kinds = ["plain", "plain", "percent-brace", "trigraph", "otherquote", "ctrl-raw"]
    if cls == "S":
        kinds += ["simple", "simple", "octal", "hex", "u4", "U8", "named", "unknown", "backslashes", "linecont", "nonascii", "nonascii"]
    elif cls == "B":
        kinds += ["simple", "simple", "octal", "octal", "hex", "hex", "unknown", "backslashes", "linecont", "bytes-nonescape"]
    elif cls == "SR":
        kinds += ["rawbs", "rawbs", "rawbs", "nonascii", "nonascii"]
    else:
        kinds += ["rawbs", "rawbs", "rawbs"]
    if triple:
        kinds += ["newline", "crlf", "quotes-in-triple"]
    n = draw(st.sampled_from([0, 1, 1, 2, 2, 3, 3, 4, 5, 6, nmax, nmax + 3]))
    out = []
    for _ in range(n):
        k = draw(st.sampled_from(kinds))
        if k == "plain":
            t = draw(st.sampled_from(PLAIN))
        elif k == "simple":
            t = draw(st.sampled_from(SIMPLE_ESC))
        elif k == "octal":
            t = draw(st.sampled_from(OCTAL_ESC))
        elif k == "hex":
            t = draw(st.sampled_from(HEX_ESC))
        elif k == "u4":
            t = draw(st.sampled_from(U4_ESC))
        elif k == "U8":
            t = draw(st.sampled_from(U8_ESC))
        elif k == "named":
            t = draw(st.sampled_from(NAMED_ESC))
        elif k == "unknown":
            t = draw(st.sampled_from(UNKNOWN_ESC))
        elif k == "bytes-nonescape":
            t = draw(st.sampled_from(BYTES_NONESC))
        elif k == "backslashes":
            t = draw(st.sampled_from(BACKSLASHES))
        elif k == "rawbs":
            t = draw(st.sampled_from(RAW_BACKSLASH)) + draw(st.sampled_from(["", "z", " "]))
            if t.endswith("\\"):
                t += "z"
        elif k == "linecont":
            t = "\\\n" + draw(st.sampled_from(["", "  ", "x"]))
        elif k == "newline":
            t = draw(st.sampled_from(["\n", "\n\n", "\n    indented\n", "line1\nline2"]))
        elif k == "crlf":
            t = draw(st.sampled_from(["\r\n", "a\r\nb", "\r\n\r\n"]))
        elif k == "quotes-in-triple":
            t = draw(st.sampled_from([q, q + q + "x", other * 3, other, q + other + q, "x" + q + "y"]))
        elif k == "otherquote":
            t = draw(st.sampled_from([other, other * 2, "it" + other + "s", other * 3 + "x"]))
        elif k == "trigraph":
            t = draw(st.sampled_from(TRIGRAPHS))
        elif k == "percent-brace":
            t = draw(st.sampled_from(PERCENT_BRACE))
        elif k == "ctrl-raw":
            t = draw(st.sampled_from(CTRL_RAW))
        else:
            pool = NONASCII_LATIN1 if latin1_only else NONASCII_LATIN1 + NONASCII_WIDE + NONASCII_WIDE
            t = draw(st.sampled_from(pool))
        out.append((k, t))
    return out


def _fix_quotes(pieces, quote, raw):
    """Make sure no piece closes the literal early: unescaped occurrences of the quote character are escaped
    (non-raw) or replaced (raw); a literal must not end with an odd backslash run or with its own quote char."""
    q = quote[0]
    fixed = []
    for k, t in pieces:
        if k in ("simple", "backslashes", "rawbs") and q in t:
            # an escaped / backslashed quote: fine for single-quoted literals as long as it is preceded by a backslash
            pass
        elif q in t:
            if len(quote) == 1:
                t = t.replace(q, "\\" + q) if not raw else t.replace(q, "Q")
            else:
                # in a triple-quoted literal up to two quote chars in a row are fine; three would close it
                while q * 3 in t:
                    t = t.replace(q * 3, q * 2 + ("\\" + q if not raw else "Q"))
        fixed.append((k, t))
    return fixed


@st.composite
def one_literal(draw, family, latin1_only, target=None):
    """-> (source text of ONE literal, prefix, quote, pieces)"""
    raw = draw(st.integers(0, 3)) == 0
    if family == "str":
        prefix = draw(st.sampled_from(STR_RAW_PREFIXES if raw else STR_PREFIXES))
        cls = "SR" if raw else "S"
    else:
        prefix = draw(st.sampled_from(BYTES_RAW_PREFIXES if raw else BYTES_PREFIXES))
        cls = "BR" if raw else "B"
    quote = draw(st.sampled_from(QUOTES))
    pieces = draw(_pieces(cls, quote, latin1_only, 7))
    if target:
        unit = pieces or [("plain", "filler")]
        body_len = sum(len(t) for _, t in unit)
        reps = max(1, target // max(1, body_len))
        varied = []
        for i in range(reps):
            varied.extend(unit)
            varied.append(("plain", "%d," % i))          # keeps the long literal from being one repeated run
        pieces = varied
        pad = target - sum(len(t) for _, t in pieces)
        if pad > 0:
            pieces.append(("plain", ("0123456789abcdefghijklmnopqrstuvwxyz" * (pad // 36 + 1))[:pad]))
    pieces = _fix_quotes(pieces, quote, raw)
    is_f = "f" in prefix.lower()
    body = []
    for k, t in pieces:
        if is_f and k != "named":
            t = _brace_escape(t)
        body.append(t)
    text = "".join(body)
    q = quote[0]
    # the body must not end with the quote char (would merge with the closing quotes) or an odd backslash run
    if text.endswith(q) and not text.endswith("\\" + q):
        text += " "
    n = len(text) - len(text.rstrip("\\"))
    if n % 2 == 1:
        text += "\\" if not raw else "z"
    if len(quote) == 1 and ("\n" in text.replace("\\\n", "")):
        text = text.replace("\\\n", "\0").replace("\r\n", " ").replace("\n", " ").replace("\r", " ").replace("\0", "\\\n")
    if len(quote) == 1 and "\r" in text:
        text = text.replace("\r", " ")
    return prefix + quote + text + quote, prefix, quote, pieces


@st.composite
def literal(draw, latin1_only=False, target=None):
    family = draw(st.sampled_from(["str", "str", "str", "bytes", "bytes"]))
    n = draw(st.sampled_from([1, 1, 1, 2, 2, 3])) if not target else 1
    parts = [draw(one_literal(family, latin1_only, target)) for _ in range(n)]
    kinds = set()
    for _, prefix, quote, pieces in parts:
        kinds |= {k for k, _ in pieces}
        kinds.add("prefix:" + (prefix.lower() or "none"))
        kinds.add("quote:" + ("triple" if len(quote) == 3 else "single"))
    if n == 1:
        text = parts[0][0]
    else:
        sep = draw(st.sampled_from([" ", " ", "\n     ", "  \\\n    "]))
        text = "(" + sep.join(p[0] for p in parts) + ")"
        kinds.add("concat:%d" % n)
        if len({p[1].lower() for p in parts}) > 1:
            kinds.add("concat:mixed-prefix")
    return {"text": text, "kinds": kinds, "family": family, "pieces": [(k, t) for p in parts for k, t in p[3]]}


CHAR_BODIES = (["\\x%02x" % i for i in range(256)] + [chr(i) for i in range(32, 127) if chr(i) not in "'\\"]
               + ["\\n", "\\t", "\\r", "\\\\", "\\'", '\\"', "\\0", "\\a", "\\b", "\\f", "\\v", "\\1", "\\12", "\\177", "\\377", '"'])
