"""C26 generator: a fixed reader/writer module + Hypothesis histories of module-dict / builtins mutations.

The module source (MODULE) is compiled once per configuration; histories are executed by a driver (SETUP, class H) inside
the runner.  Every read reports (what the compiled/CPython function returned, what a plain dict-chain model
`module.__dict__ -> builtins.__dict__` says at that moment).
"""
from hypothesis import strategies as st

# names: ga (defined at import), gb (only assigned by a writer: starts undefined), len (builtin shadowed by a writer),
# abs / zz_new (never assigned in the module: compile-time builtins; mutated only through `builtins` with cache_builtins=False)
MOD_NAMES = ["ga", "gb", "len"]
BUILTIN_ONLY = ["abs", "zz_new"]
SITES = 4          # reader call sites per name

_readers = []
for _n in MOD_NAMES + BUILTIN_ONLY:
    _readers.append("def r_%s_0():\n    return %s\n" % (_n, _n))
    _readers.append("def r_%s_1():\n    x = %s\n    return x\n" % (_n, _n))
    _readers.append("def r_%s_2():\n    def inner():\n        return %s\n    return inner()\n" % (_n, _n))
    _readers.append("def r_%s_3():\n    return [%s for _i in range(2)][1]\n" % (_n, _n))
    _readers.append("def rr_%s():\n    a = %s\n    b = %s\n    return (a, b)\n" % (_n, _n, _n))

MODULE = '''LOG = []
ga = "ga0"


def w_ga(v):
    global ga
    ga = v


def d_ga():
    global ga
    del ga


def w_gb(v):
    global gb
    gb = v


def d_gb():
    global gb
    del gb


def w_len(v):
    global len
    len = v


def d_len():
    global len
    del len


def wr_ga(v):
    """write then read in one function"""
    global ga
    ga = v
    return ga


def rd_ga():
    """read, delete, read again"""
    global ga
    a = ga
    del ga
    try:
        return (a, ga)
    except NameError:
        return (a, "NameError")


''' + "\n\n".join(_readers)

SETUP = r'''
import builtins

class H:
    MISSING = ("<missing>",)
    snapshot = None
    b_snapshot = None

    @staticmethod
    def model(M, name):
        d = M.__dict__
        if name in d:
            return ("ok", d[name])
        b = builtins.__dict__
        if name in b:
            return ("ok", b[name])
        return ("NameError",)

    @staticmethod
    def outcome(fn):
        try:
            return ("ok", fn())
        except NameError:
            return ("NameError",)
        except Exception as e:
            return ("exc", type(e).__name__)

    @staticmethod
    def reset(M):
        if H.snapshot is None:
            H.snapshot = dict(M.__dict__)
            H.b_snapshot = dict(builtins.__dict__)
            return
        d = M.__dict__
        for k in list(d):
            if k not in H.snapshot:
                del d[k]
        for k, v in H.snapshot.items():
            if k not in d or d[k] is not v:
                d[k] = v
        b = builtins.__dict__
        for k in list(b):
            if k not in H.b_snapshot:
                del b[k]
        for k, v in H.b_snapshot.items():
            if k not in b or b[k] is not v:
                b[k] = v

    @staticmethod
    def run(M, history):
        H.reset(M)
        out = []
        try:
            for step in history:
                op = step[0]
                if op == "read":
                    _, name, site = step
                    got = H.outcome(getattr(M, "r_%s_%d" % (name, site)))
                    out.append(("read", name, site, got, H.model(M, name)))
                elif op == "read2":
                    name = step[1]
                    got = H.outcome(getattr(M, "rr_" + name))
                    m = H.model(M, name)
                    out.append(("read2", name, got, m if m[0] != "ok" else ("ok", (m[1], m[1]))))
                elif op == "setattr":
                    setattr(M, step[1], step[2])
                elif op == "delattr":
                    if step[1] in M.__dict__:
                        delattr(M, step[1])
                elif op == "dictset":
                    M.__dict__[step[1]] = step[2]
                elif op == "dictpop":
                    M.__dict__.pop(step[1], None)
                elif op == "dictupdate":
                    M.__dict__.update({step[1]: step[2]})
                elif op == "clear_restore":
                    d = M.__dict__
                    save = dict(d)
                    d.clear()
                    if step[1] is not None:
                        save.pop(step[1], None)
                    d.update(save)
                elif op == "w":
                    getattr(M, "w_" + step[1])(step[2])
                elif op == "d":
                    got = H.outcome(getattr(M, "d_" + step[1]))
                    out.append(("del", step[1], got[0]))
                elif op == "wr":
                    out.append(("wr", H.outcome(lambda: M.wr_ga(step[1]))))
                elif op == "rd":
                    out.append(("rd", H.outcome(M.rd_ga)))
                elif op == "bset":
                    setattr(builtins, step[1], step[2])
                elif op == "bdel":
                    if step[1] in builtins.__dict__:
                        delattr(builtins, step[1])
                elif op == "churn":
                    # unrelated module-dict traffic (bumps the dict version without touching the names)
                    for i in range(step[1]):
                        M.__dict__["_churn%d" % i] = i
                    for i in range(step[1]):
                        del M.__dict__["_churn%d" % i]
                else:
                    raise ValueError(op)
        finally:
            H.reset(M)
        return out
'''


@st.composite
def histories(draw, with_builtins, maxlen=10):
    """list of steps; values are distinct strings 'v<k>' so that a stale read is visible."""
    n = draw(st.integers(3, maxlen))
    focus = draw(st.sampled_from(MOD_NAMES + (BUILTIN_ONLY if with_builtins else [])))
    steps = []
    k = 0
    for i in range(n):
        name = focus if draw(st.integers(0, 3)) else draw(st.sampled_from(MOD_NAMES + (BUILTIN_ONLY if with_builtins else [])))
        is_mod = name in MOD_NAMES
        r = draw(st.integers(0, 19))
        k += 1
        v = "v%d" % k
        if r <= 7:
            steps.append(["read", name, draw(st.integers(0, SITES - 1))])
        elif r == 8:
            steps.append(["read2", name])
        elif not is_mod:
            # names the module never assigns: only builtins mutations (C26 guard)
            # ... and, since the cache_builtins=False build looks these names up at run time (module dict, then
            # builtins), shadowing / un-shadowing them through the module namespace from outside
            # (only for the name that is NOT a builtin known at compile time: a known builtin such as `abs` is
            # bound to the builtins module by documented design and is not looked up in the module dict)
            opts = [["bset", name, v], ["bset", name, v], ["bdel", name]]
            if name == "zz_new":
                opts += [["setattr", name, "m" + v], ["dictset", name, "m" + v], ["delattr", name], ["dictpop", name]]
            steps.append(draw(st.sampled_from(opts)))
        elif r == 9:
            steps.append(["setattr", name, v])
        elif r == 10:
            steps.append(["delattr", name])
        elif r == 11:
            steps.append(["dictset", name, v])
        elif r == 12:
            steps.append(["dictpop", name])
        elif r == 13:
            steps.append(draw(st.sampled_from([["clear_restore", None], ["clear_restore", name], ["dictupdate", name, v]])))
        elif r == 14:
            steps.append(["w", name, v])
        elif r == 15:
            steps.append(["d", name])
        elif r == 16:
            steps.append(draw(st.sampled_from([["wr", v], ["rd"]])))
        elif r == 17:
            steps.append(["churn", draw(st.sampled_from([1, 3, 40]))])
        elif with_builtins:
            # shadowing interplay: mutate builtins for a name the module also assigns (len) / a fresh one
            steps.append(draw(st.sampled_from([["bset", name, "b" + v], ["bdel", name]])) if name == "len" else ["bset", name, "b" + v])
        else:
            steps.append(["read", name, draw(st.integers(0, SITES - 1))])
    # always end with reads of the focus name at two sites
    steps.append(["read", focus, draw(st.integers(0, SITES - 1))])
    steps.append(["read", focus, draw(st.integers(0, SITES - 1))])
    return steps


MUTATORS = {"setattr", "delattr", "dictset", "dictpop", "dictupdate", "clear_restore", "w", "d", "wr", "rd", "bset", "bdel"}


def nontrivial(history):
    """a read follows a mutation of the same name after an earlier read at the same call site (cache warm)"""
    warm = set()          # (name, site) read before
    dirty = set()         # names mutated since
    for s in history:
        if s[0] == "read":
            key = (s[1], s[2])
            if key in warm and s[1] in dirty:
                return True
            warm.add(key)
        elif s[0] in MUTATORS:
            nm = "ga" if s[0] in ("wr", "rd") else s[1]
            if nm is None:
                dirty.update(MOD_NAMES)
            else:
                dirty.add(nm)
    return False


def classes(history):
    return sorted({"op:" + s[0] for s in history})
