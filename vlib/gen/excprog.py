"""C22 generator: nested exception-handling statements with raise points selected by input bits.

Every generated function  def f_<uid>(x):  consists of nested (depth <= 3) try/except/else/finally, try/except*,
with, for-loops and guarded actions `if x & BIT: <raise | return | break | continue>`.  Every block starts with
L("<id>.<kind>") which logs the block id and sys.exc_info() (type name + args of USER exceptions; messages of
interpreter-raised exceptions are never compared).  The wrappers W / WH (run by CPython in both runners, defined
in SETUP) call the function outside / inside an active `except KeyError` handler, render a propagated exception
recursively (type, user args, __cause__, __context__, __suppress_context__, sub-exceptions of groups) and
record sys.exc_info() after the call.
"""
from hypothesis import strategies as st

HEADER = '''import sys
LOG = []
ZERO = 0


class EA(Exception):
    pass


class EB(EA):
    pass


class EC(Exception):
    pass


class ED(BaseException):
    pass


USER = ("EA", "EB", "EC", "ED", "KeyError")


def uargs(v):
    if isinstance(v, BaseExceptionGroup):
        return (v.message, tuple([(type(s).__name__, uargs(s)) for s in v.exceptions]))
    if type(v).__name__ in USER:
        return v.args
    return None


def ei():
    t, v, tb = sys.exc_info()
    if t is None:
        return None
    return (t.__name__, uargs(v))


def L(tag):
    LOG.append((tag, ei()))


def raiser(cls, n):
    raise cls(n)


class CM:
    def __init__(self, tag, suppress=False, enter_raise=False, exit_raise=False):
        self.tag = tag
        self.suppress = suppress
        self.enter_raise = enter_raise
        self.exit_raise = exit_raise

    def __enter__(self):
        L(self.tag + ".enter")
        if self.enter_raise:
            raise EC("enter", self.tag)
        return self.tag

    def __exit__(self, t, v, tb):
        LOG.append((self.tag + ".exit", None if t is None else (t.__name__, uargs(v)), ei()))
        if self.exit_raise:
            raise EC("exit", self.tag)
        return self.suppress

'''

SETUP = '''
def _chain(e, depth=0):
    if e is None:
        return None
    if depth > 8:
        return "deep"
    subs = None
    if isinstance(e, BaseExceptionGroup):
        subs = tuple([_chain(s, depth + 1) for s in e.exceptions])
    return (type(e).__name__, M.uargs(e) if subs is None else e.message, subs,
            ("cause", _chain(e.__cause__, depth + 1)), ("context", _chain(e.__context__, depth + 1)),
            ("suppress", e.__suppress_context__))


def W(f, x):
    try:
        out = ("ok", f(x))
    except BaseException as e:
        out = ("exc", _chain(e))
    return (out, ("after", M.ei()))


def WH(f, x):
    out = None
    after = None
    try:
        raise KeyError("outer")
    except KeyError:
        try:
            out = ("ok", f(x))
        except BaseException as e:
            out = ("exc", _chain(e))
        after = M.ei()
    return (out, ("after", after), ("after2", M.ei()))
'''

MAXBITS = 6


class G:
    def __init__(self, rnd, max_depth=3):
        self.r = rnd
        self.max_depth = max_depth
        self.max_blocks = 16
        self.bits = 0
        self.nid = 0
        self.nraise = 0
        self.paths = {}
        self.feats = set()
        self.in_loop = 0
        self.in_star = 0        # inside an except* handler: no return/break/continue
        self.in_finally_loopless = 0
        self.names = []          # bound exception names (as e) in scope of a handler
        self.maxnest = 0

    def pick(self, seq):
        seq = list(seq)
        return seq[self.r.randrange(len(seq))]

    def chance(self, p):
        return self.r.random() < p

    def irange(self, a, b):
        return self.r.randint(a, b)

    def bit(self):
        if self.bits < MAXBITS and (self.bits < 2 or self.chance(0.8)):
            k = self.bits
            self.bits += 1
        else:
            k = self.irange(0, self.bits - 1)
        return "x & %d" % (1 << k)

    def new_id(self, path):
        self.nid += 1
        self.paths[str(self.nid)] = list(path)
        self.maxnest = max(self.maxnest, len(path))
        return self.nid

    # -- raise expressions
    def exc_value(self):
        self.nraise += 1
        n = self.nraise
        c = self.irange(0, 11)
        if c <= 3:
            return "EA(%d)" % n
        if c <= 5:
            return "EB(%d)" % n
        if c <= 7:
            return "EC(%d)" % n
        if c == 8:
            self.feats.add("raise:BaseException")
            return "ED(%d)" % n
        if c == 9:
            self.feats.add("raise:group")
            return 'ExceptionGroup("g%d", [EA(%d), EC(%d)])' % (n, n, n + 100)
        if c == 10:
            self.feats.add("raise:group")
            return 'ExceptionGroup("g%d", [EB(%d), ExceptionGroup("h%d", [EC(%d), EA(%d)])])' % (n, n, n, n + 100, n + 200)
        return "EA(%d, 'x')" % n

    def raise_stmt(self):
        c = self.irange(0, 13)
        if c <= 4:
            self.feats.add("raise:plain")
            return "raise " + self.exc_value()
        if c == 5:
            self.feats.add("raise:from")
            return "raise %s from %s" % (self.exc_value(), self.exc_value())
        if c == 6:
            self.feats.add("raise:from-none")
            return "raise %s from None" % self.exc_value()
        if c == 7 and self.names:
            self.feats.add("raise:from-name")
            return "raise %s from %s" % (self.exc_value(), self.pick(self.names))
        if c == 8 and self.names:
            self.feats.add("raise:name")
            return "raise %s" % self.pick(self.names)
        if c <= 9:
            self.feats.add("raise:bare")
            return "raise"
        if c == 10:
            self.feats.add("raise:call")
            self.nraise += 1
            return "raiser(%s, %d)" % (self.pick(["EA", "EB", "EC"]), self.nraise)
        if c == 11:
            self.feats.add("raise:builtin")
            return "LOG.append(1 // ZERO)"
        if c == 12:
            self.feats.add("raise:class")
            return "raise " + self.pick(["EA", "EC"])
        self.feats.add("raise:plain")
        return "raise " + self.exc_value()

    # -- statements
    def action(self, ind):
        """guarded raise / return / break / continue"""
        c = self.irange(0, 9)
        g = self.bit()
        if c <= 5 or self.in_star:
            return [ind + "if %s:" % g, ind + "    " + self.raise_stmt()]
        if c <= 7:
            self.feats.add("return")
            self.nraise += 1
            return [ind + "if %s:" % g, ind + "    return 'r%d'" % self.nraise]
        if self.in_loop:
            k = self.pick(["break", "continue"])
            self.feats.add(k)
            return [ind + "if %s:" % g, ind + "    " + k]
        return [ind + "if %s:" % g, ind + "    " + self.raise_stmt()]

    def block(self, ind, depth, path, kind, n=None):
        bid = self.new_id(path)
        lines = [ind + "L('%d.%s')" % (bid, kind)]
        n = n if n is not None else self.irange(1, 2)
        for _ in range(n):
            lines += self.stmt(ind, depth, path)
        return lines

    def stmt(self, ind, depth, path):
        if depth >= self.max_depth or self.nid >= self.max_blocks or self.chance([0.0, 0.35, 0.6, 1.0][min(depth, 3)]):
            return self.action(ind)
        c = self.irange(3, 10)
        if c <= 2:
            return self.action(ind)
        if c <= 6:
            return self.try_stmt(ind, depth, path)
        if c == 7:
            return self.star_stmt(ind, depth, path)
        if c <= 9:
            return self.with_stmt(ind, depth, path)
        if c == 10:
            return self.loop_stmt(ind, depth, path)
        return self.action(ind)

    def handler_type(self):
        return self.pick(["EA", "EA", "EB", "EC", "(EA, EC)", "Exception", "BaseException", "", "ZeroDivisionError",
                          "RuntimeError", "ExceptionGroup", "(EC, ED)", "KeyError"])

    def try_stmt(self, ind, depth, path):
        i2 = ind + "    "
        form = self.irange(0, 9)       # 0-5 except [else] [finally]; 6-7 finally only; 8-9 except+finally
        has_except = form <= 5 or form >= 8
        has_finally = form >= 6 or self.chance(0.35)
        has_else = has_except and self.chance(0.3)
        lines = [ind + "try:"]
        self.feats.add("try")
        p2 = path + [("tf" if has_finally else "") + ("te" if has_except else "")]
        lines += self.block(i2, depth + 1, p2, "try")
        if has_except:
            nh = self.irange(1, 2)
            used = set()
            for _ in range(nh):
                t = self.handler_type()
                if t in used or ("" in used):
                    continue
                used.add(t)
                name = None
                if t and self.chance(0.5):
                    name = "e%d" % (self.nid + 1)
                    self.feats.add("as-name")
                if t == "":
                    self.feats.add("except:bare")
                    lines.append(ind + "except:")
                else:
                    lines.append(ind + "except %s%s:" % (t, (" as " + name) if name else ""))
                if name:
                    self.names.append(name)
                lines += self.block(i2, depth + 1, p2 + ["except"], "except")
                if name:
                    self.names.pop()
            if "" not in used and self.chance(0.0):
                pass
        if has_else:
            self.feats.add("else")
            lines.append(ind + "else:")
            lines += self.block(i2, depth + 1, p2 + ["else"], "else", 1)
        if has_finally:
            self.feats.add("finally")
            lines.append(ind + "finally:")
            lines += self.block(i2, depth + 1, p2 + ["finally"], "finally", 1)
        aid = self.new_id(path)
        lines.append(ind + "L('%d.after')" % aid)
        return lines

    def star_stmt(self, ind, depth, path):
        i2 = ind + "    "
        self.feats.add("except*")
        lines = [ind + "try:"]
        p2 = path + ["ts"]
        lines += self.block(i2, depth + 1, p2, "try")
        used = set()
        for _ in range(self.irange(1, 2)):
            t = self.pick(["EA", "EB", "EC", "(EA, EC)", "Exception", "ED"])
            if t in used:
                continue
            used.add(t)
            name = None
            if self.chance(0.5):
                name = "g%d" % (self.nid + 1)
            lines.append(ind + "except* %s%s:" % (t, (" as " + name) if name else ""))
            self.in_star += 1
            if name:
                self.names.append(name)
                lines.append(i2 + "LOG.append(('grp', uargs(%s)))" % name)
            lines += self.block(i2, depth + 1, p2 + ["except*"], "exceptstar")
            if name:
                self.names.pop()
            self.in_star -= 1
        if self.chance(0.3):
            lines.append(ind + "else:")
            lines += self.block(i2, depth + 1, p2 + ["else"], "else", 1)
        if self.chance(0.3):
            self.feats.add("finally")
            lines.append(ind + "finally:")
            lines += self.block(i2, depth + 1, p2 + ["finally"], "finally", 1)
        aid = self.new_id(path)
        lines.append(ind + "L('%d.after')" % aid)
        return lines

    def with_stmt(self, ind, depth, path):
        i2 = ind + "    "
        self.feats.add("with")
        items = []
        for _ in range(1 if self.chance(0.75) else 2):
            self.nid += 1
            tag = "c%d" % self.nid
            sup = self.chance(0.35)
            er = self.chance(0.1)
            xr = self.chance(0.15)
            if sup:
                self.feats.add("with:suppress")
            if er:
                self.feats.add("with:enter-raises")
            if xr:
                self.feats.add("with:exit-raises")
            items.append("CM('%s', %r, %r, %r)%s" % (tag, sup, er, xr, (" as v%d" % self.nid) if self.chance(0.3) else ""))
        lines = [ind + "with %s:" % ", ".join(items)]
        lines += self.block(i2, depth + 1, path + ["with"], "with")
        aid = self.new_id(path)
        lines.append(ind + "L('%d.after')" % aid)
        return lines

    def loop_stmt(self, ind, depth, path):
        i2 = ind + "    "
        self.feats.add("loop")
        self.nid += 1
        lines = [ind + "for i%d in range(2):" % self.nid]
        self.in_loop += 1
        saved_star = self.in_star
        lines += self.block(i2, depth + 1, path + ["loop"], "loop")
        self.in_loop -= 1
        if self.chance(0.3):
            lines.append(ind + "else:")
            lines += self.block(i2, depth + 1, path + ["loop-else"], "loopelse", 1)
        aid = self.new_id(path)
        lines.append(ind + "L('%d.after')" % aid)
        return lines


@st.composite
def function_item(draw, uid="UID", max_depth=3):
    rnd = draw(st.randoms(use_true_random=True))
    g = G(rnd, max_depth=max_depth)
    body = []
    n = rnd.randint(1, 2)
    # the top level always starts with a compound statement
    first = rnd.randint(0, 9)
    if first <= 5:
        body += g.try_stmt("    ", 0, [])
    elif first == 6:
        body += g.star_stmt("    ", 0, [])
    elif first <= 8:
        body += g.with_stmt("    ", 0, [])
    else:
        body += g.loop_stmt("    ", 0, [])
    for _ in range(n - 1):
        body += g.stmt("    ", 0, [])
    lines = ["def f_%s(x):" % uid, "    L('0.start')"] + body + ["    L('0.end')", "    return 'end'"]
    nb = max(1, g.bits)
    xs = list(range(1 << nb))
    cases = [{"expr": "W(M.f_%s, %d)" % (uid, x)} for x in xs]
    whs = xs if nb <= 4 else rnd.sample(xs, 16)
    cases += [{"expr": "WH(M.f_%s, %d)" % (uid, x)} for x in sorted(whs)]
    return {"src": "\n".join(lines), "cases": cases,
            "meta": {"features": sorted(g.feats), "bits": nb, "paths": g.paths, "nest": g.maxnest}}


def draw_items(k, seed, parts, prefix, **kw):
    from vlib import hyp
    raw = hyp.draw_many(function_item("UID", **kw), k + 1, seed, *parts)[1:]
    out = []
    for i, it in enumerate(raw):
        uid = "%s_%d" % (prefix, i)
        out.append({"src": it["src"].replace("UID", uid),
                    "cases": [{"expr": c["expr"].replace("UID", uid)} for c in it["cases"]],
                    "meta": it["meta"]})
    return out
