"""C31 generator: match statements x subjects (DESIGN §4 C31).

Pattern IR (nested tuples):
  ("lit", text) ("cap", name) ("wild",) ("val", dotted) ("seq", style, [pats|("star", name_or_None)])
  ("map", [(keytext, pat)], rest_name|None) ("cls", clsname, [pos pats], [(kw, pat)]) ("or", [pats]) ("as", pat, name)
Each item is one function `f_<uid>(s)`: every case body returns (case index, bound names...); guards log through G().
Names bound by cases that were not selected are never observed (PEP 634 leaves them implementation-defined).
"""
from hypothesis import strategies as st

HEADER = '''import cython
import collections
import collections.abc
LOG = []


def G(k, res, *vals):
    LOG.append(("guard", k, vals))
    return res


def SUBJ(s):
    LOG.append(("subject",))
    return s


class K:
    A = "ka"
    B = 7
    C = (1, 2)
    N = None
    F = 2.5

    class In:
        Z = b"z"


class Point:
    __match_args__ = ("x", "y")

    def __init__(self, x, y):
        self.x = x
        self.y = y

    def __canon__(self):
        return ("Point", self.x, self.y)


class P3(Point):
    __match_args__ = ("x", "y", "z")

    def __init__(self, x, y, z):
        Point.__init__(self, x, y)
        self.z = z

    def __canon__(self):
        return ("P3", self.x, self.y, self.z)


class NoMA:
    def __init__(self, x=1):
        self.x = x

    def __canon__(self):
        return ("NoMA", self.x)


class BadMA(NoMA):
    __match_args__ = ["x"]


class One(NoMA):
    """single positional attribute: `case One(a, x=b)` names x twice -> TypeError in CPython"""
    __match_args__ = ("x",)


class Dup(NoMA):
    """__match_args__ repeats a name: two positional sub-patterns name x twice -> TypeError in CPython"""
    __match_args__ = ("x", "x")


class BadMA2(NoMA):
    __match_args__ = (1,)


class Lazy:
    """x is missing (AttributeError), y raises ValueError, z is fine"""
    __match_args__ = ("x", "y", "z")
    z = 3

    @property
    def y(self):
        raise ValueError("Lazy.y")

    def __canon__(self):
        return ("Lazy",)


class IntSub(int):
    pass


class MySeq(collections.abc.Sequence):
    def __init__(self, *items):
        self.items = list(items)

    def __getitem__(self, i):
        return self.items[i]

    def __len__(self):
        return len(self.items)

    def __canon__(self):
        return ("MySeq", self.items)


class VSeq:
    """registered virtual Sequence"""
    def __init__(self, *items):
        self.items = list(items)

    def __getitem__(self, i):
        return self.items[i]

    def __len__(self):
        return len(self.items)

    def __canon__(self):
        return ("VSeq", self.items)


collections.abc.Sequence.register(VSeq)


class NotSeq:
    """has __getitem__/__len__ but is no Sequence"""
    def __init__(self, *items):
        self.items = list(items)

    def __getitem__(self, i):
        return self.items[i]

    def __len__(self):
        return len(self.items)

    def __canon__(self):
        return ("NotSeq", self.items)


class BadLenSeq(MySeq):
    def __len__(self):
        raise ValueError("BadLenSeq.__len__")


class MyMap(collections.abc.Mapping):
    def __init__(self, d):
        self.d = dict(d)

    def __getitem__(self, k):
        return self.d[k]

    def __iter__(self):
        return iter(self.d)

    def __len__(self):
        return len(self.d)

    def __canon__(self):
        return ("MyMap", self.d)


class VMap:
    """registered virtual Mapping with get/keys"""
    def __init__(self, d):
        self.d = dict(d)

    def get(self, k, default=None):
        return self.d.get(k, default)

    def keys(self):
        return self.d.keys()

    def __getitem__(self, k):
        return self.d[k]

    def __len__(self):
        return len(self.d)

    def __canon__(self):
        return ("VMap", self.d)


collections.abc.Mapping.register(VMap)


class BadGetMap(MyMap):
    def get(self, k, default=None):
        raise ValueError("BadGetMap.get")


class DictSub(dict):
    pass


class ListSub(list):
    pass
'''

SETUP = "import array, collections\n"

ATOMS = ["0", "1", "2", "-1", "7", "10**20", "1.5", "2.5", "-0.0", "1+2j", "'a'", "'ka'", "''", "b'z'", "None", "True",
         "False", "(1, 2)", "[1, 2]", "M.IntSub(1)", "1.0"]
LITS = ["0", "1", "2", "-1", "7", "100000000000000000000", "1.5", "-0.0", "1+2j", "-1-2j", "2.5", "'a'", "''", "'ka'",
        "b'z'", "b''", "None", "True", "False"]
VALS = ["K.A", "K.B", "K.C", "K.N", "K.F", "K.In.Z"]
MAPKEYS = ["'k'", "'j'", "1", "2", "None", "K.A", "K.B", "b'z'", "-1", "1.5"]
BUILTIN_CLS = ["int", "str", "float", "list", "dict", "tuple", "bool", "bytes", "set", "frozenset", "bytearray"]
USER_CLS = ["Point", "Point", "P3", "NoMA", "BadMA", "BadMA2", "Lazy", "MySeq", "IntSub", "One", "One", "Dup"]


class PG:
    def __init__(self, draw):
        self.draw = draw
        self.n = 0

    def pick(self, seq):
        return self.draw(st.sampled_from(list(seq)))

    def fresh(self):
        self.n += 1
        return "n%d" % self.n

    def closed(self, depth):
        """pattern that is never irrefutable (safe as or-alternative / non-last case)"""
        k = self.draw(st.integers(0, 12))
        if depth <= 0:
            k = min(k, 3)
        if k <= 1:
            return ("lit", self.pick(LITS))
        if k == 2:
            return ("val", self.pick(VALS))
        if k == 3:
            return ("cls", self.pick(BUILTIN_CLS[:4]), [], [])
        if k <= 6:
            return self.seq(depth)
        if k <= 8:
            return self.mapping(depth)
        if k <= 10:
            return self.cls(depth)
        if k == 11:
            return self.orpat(depth)
        return ("as", self.closed(depth - 1), self.fresh())

    def sub(self, depth):
        """sub-pattern (captures / wildcards allowed)"""
        k = self.draw(st.integers(0, 9))
        if k <= 1:
            return ("cap", self.fresh())
        if k == 2:
            return ("wild",)
        if k <= 4 or depth <= 0:
            return ("lit", self.pick(LITS))
        return self.closed(depth)

    def seq(self, depth):
        n = self.draw(st.sampled_from([0, 1, 1, 2, 2, 3]))
        pats = [self.sub(depth - 1) for _ in range(n)]
        if self.draw(st.integers(0, 2)) == 0:
            star = ("star", self.fresh() if self.draw(st.booleans()) else None)
            pats.insert(self.draw(st.integers(0, len(pats))), star)
        style = self.pick(["list", "list", "tuple", "open"])
        return ("seq", style, pats)

    def mapping(self, depth):
        n = self.draw(st.sampled_from([0, 1, 1, 2, 3]))
        keys = list(self.draw(st.permutations(MAPKEYS)))[:n]
        items = [(k, self.sub(depth - 1)) for k in keys]
        rest = self.fresh() if self.draw(st.integers(0, 2)) == 0 else None
        return ("map", items, rest)

    def cls(self, depth):
        if self.draw(st.integers(0, 2)) == 0:
            c = self.pick(BUILTIN_CLS)
            pos = [self.sub(depth - 1)] if self.draw(st.booleans()) else []
            if pos and self.draw(st.integers(0, 11)) == 0:
                pos.append(self.sub(depth - 1))        # invalid: builtin accepts one positional sub-pattern
            return ("cls", c, pos, [])
        c = self.pick(USER_CLS)
        npos = self.draw(st.sampled_from([0, 1, 1, 2, 2, 3]))
        kwsel = self.draw(st.sampled_from([[], [], ["y"], ["x"], ["z"], ["x", "y"], ["q"]]))
        if c == "One" and self.draw(st.booleans()):
            npos, kwsel = 1, ["x"]          # the only positional attribute is named again by keyword
        elif c == "Dup" and self.draw(st.booleans()):
            npos, kwsel = 2, []             # __match_args__ itself repeats the name
        pos = [self.sub(depth - 1) for _ in range(npos)]
        kws = []
        for nm in kwsel:
            kws.append((nm, self.sub(depth - 1)))
        return ("cls", c, pos, kws)

    def orpat(self, depth):
        if self.draw(st.integers(0, 3)) == 0:
            # alternatives binding the same single name
            nm = self.fresh()
            alts = [("seq", "list", [("cap", nm), ("lit", self.pick(LITS))]),
                    ("seq", "list", [("lit", self.pick(LITS)), ("cap", nm)]),
                    ("map", [(self.pick(MAPKEYS), ("cap", nm))], None),
                    ("cls", "Point", [("cap", nm)], []),
                    ("as", ("lit", self.pick(LITS)), nm)]
            k = self.draw(st.integers(2, 3))
            return ("or", list(self.draw(st.permutations(alts)))[:k])
        k = self.draw(st.integers(2, 3))
        return ("or", [self.nocap(depth - 1) for _ in range(k)])

    def nocap(self, depth):
        """closed pattern without bindings"""
        k = self.draw(st.integers(0, 6))
        if k <= 2 or depth <= 0:
            return ("lit", self.pick(LITS))
        if k == 3:
            return ("val", self.pick(VALS))
        if k == 4:
            n = self.draw(st.integers(0, 2))
            pats = [self.pick([("wild",), ("lit", self.pick(LITS))]) for _ in range(n)]
            if self.draw(st.booleans()):
                pats.insert(self.draw(st.integers(0, len(pats))), ("star", None))
            return ("seq", "list", pats)
        if k == 5:
            return ("map", [(self.pick(MAPKEYS), self.pick([("wild",), ("lit", self.pick(LITS))]))], None)
        return ("cls", self.pick(BUILTIN_CLS + ["Point", "NoMA"]), [], [])


def names(p):
    t = p[0]
    if t == "cap":
        return [p[1]]
    if t == "star":
        return [p[1]] if p[1] else []
    if t == "seq":
        return [n for q in p[2] for n in names(q)]
    if t == "map":
        return [n for _, q in p[1] for n in names(q)] + ([p[2]] if p[2] else [])
    if t == "cls":
        return [n for q in p[2] for n in names(q)] + [n for _, q in p[3] for n in names(q)]
    if t == "or":
        return names(p[1][0])
    if t == "as":
        return names(p[1]) + [p[2]]
    return []


def render(p, top=False):
    t = p[0]
    if t == "lit":
        return p[1]
    if t == "cap":
        return p[1]
    if t == "wild":
        return "_"
    if t == "val":
        return p[1]
    if t == "star":
        return "*" + (p[1] or "_")
    if t == "seq":
        inner = ", ".join(render(q) for q in p[2])
        if p[1] == "list":
            return "[%s]" % inner
        if p[1] == "open" and top and len(p[2]) >= 1:
            return inner + ("," if len(p[2]) == 1 else "")
        return "(%s%s)" % (inner, "," if len(p[2]) == 1 else "")
    if t == "map":
        parts = ["%s: %s" % (k, render(q)) for k, q in p[1]]
        if p[2]:
            parts.append("**" + p[2])
        return "{%s}" % ", ".join(parts)
    if t == "cls":
        parts = [render(q) for q in p[2]] + ["%s=%s" % (k, render(q)) for k, q in p[3]]
        return "%s(%s)" % (p[1], ", ".join(parts))
    if t == "or":
        return " | ".join("(%s)" % render(q) if q[0] in ("or", "as") else render(q) for q in p[1])
    if t == "as":
        inner = render(p[1])
        if p[1][0] in ("or", "as") or (p[1][0] == "seq" and p[1][1] == "open"):
            inner = "(%s)" % inner
        return "%s as %s" % (inner, p[2])
    raise ValueError(p)


def depth_of(p):
    t = p[0]
    if t == "seq":
        return 1 + max([depth_of(q) for q in p[2]] + [0])
    if t == "map":
        return 1 + max([depth_of(q) for _, q in p[1]] + [0])
    if t == "cls":
        return 1 + max([depth_of(q) for q in p[2]] + [depth_of(q) for _, q in p[3]] + [0])
    if t == "or":
        return max(depth_of(q) for q in p[1])
    if t == "as":
        return depth_of(p[1])
    return 0


def kinds_of(p, out=None):
    out = set() if out is None else out
    t = p[0]
    out.add(t)
    if t == "seq":
        for q in p[2]:
            kinds_of(q, out)
    elif t == "map":
        if p[2]:
            out.add("maprest")
        for _, q in p[1]:
            kinds_of(q, out)
    elif t == "cls":
        out.add("cls:builtin" if p[1] in BUILTIN_CLS else "cls:user")
        for q in p[2]:
            kinds_of(q, out)
        for _, q in p[3]:
            kinds_of(q, out)
    elif t == "or":
        for q in p[1]:
            kinds_of(q, out)
    elif t == "as":
        kinds_of(p[1], out)
    return out


def hazards(p, out=None):
    """structural features that are known crash triggers (used to bucket crashes by root cause)"""
    out = set() if out is None else out
    t = p[0]
    if t == "cls":
        for q in list(p[2]) + [q for _, q in p[3]]:
            inner = q[1] if q[0] == "as" else q
            if inner[0] == "or" and all(a[0] in ("lit", "val") for a in inner[1]):
                out.add("cls-or-literal-child")
            hazards(q, out)
    elif t == "seq":
        for q in p[2]:
            hazards(q, out)
    elif t == "map":
        for _, q in p[1]:
            hazards(q, out)
    elif t == "or":
        for q in p[1]:
            hazards(q, out)
    elif t == "as":
        hazards(p[1], out)
    return out


def shape(p):
    """short root-cause label: top-level kind with first-level children kinds"""
    t = p[0]
    if t == "seq":
        return "seq[%s]" % ",".join(q[0] for q in p[2])
    if t == "map":
        return "map{%s%s}" % (",".join(q[0] for _, q in p[1]), ",**" if p[2] else "")
    if t == "cls":
        return "cls:%s(%s%s)" % (p[1] if p[1] in BUILTIN_CLS else "user:" + p[1], ",".join(q[0] for q in p[2]),
                                 "".join(",%s=" % k + q[0] for k, q in p[3]))
    if t == "or":
        return "or(%s)" % "|".join(q[0] for q in p[1])
    if t == "as":
        return "as(%s)" % p[1][0]
    return t


# ------------------------------------------------------------------------------------------ subjects

def example(pg, p, variant):
    """subject expression (runner namespace, module = M) that matches p in the common case"""
    d = pg.draw
    t = p[0]
    if t == "lit":
        return p[1]
    if t in ("cap", "wild"):
        return pg.pick(ATOMS)
    if t == "val":
        return "M." + p[1]
    if t == "seq":
        elems = []
        for q in p[2]:
            if q[0] == "star":
                elems += [pg.pick(ATOMS) for _ in range(d(st.integers(0, 2)))]
            else:
                elems.append(example(pg, q, variant))
        inner = ", ".join(elems)
        kind = pg.pick(["list", "list", "tuple", "tuple", "deque", "MySeq", "VSeq", "ListSub", "array", "range"])
        return wrap_seq(kind, elems)
    if t == "map":
        pairs = ["%s: %s" % (("M." + k) if k.startswith("K.") else k, example(pg, q, variant)) for k, q in p[1]]
        if d(st.booleans()):
            pairs.append("'extra': 0")
        body = "{%s}" % ", ".join(pairs)
        kind = pg.pick(["dict", "dict", "dict", "defaultdict", "ChainMap", "MyMap", "VMap", "DictSub", "OrderedDict"])
        return wrap_map(kind, body)
    if t == "cls":
        c = p[1]
        if c in BUILTIN_CLS:
            base = {"int": "7", "str": "'a'", "float": "2.5", "list": "[1, 2]", "dict": "{'k': 1}", "tuple": "(1, 2)",
                    "bool": "True", "bytes": "b'z'", "set": "{1}", "frozenset": "frozenset([1])", "bytearray": "bytearray(b'z')"}[c]
            if p[2]:
                ex = example(pg, p[2][0], variant)
                return ex
            return base
        attrs = {}
        order = {"Point": ["x", "y"], "P3": ["x", "y", "z"], "Lazy": ["x", "y", "z"]}.get(c, ["x"])
        for i, q in enumerate(p[2]):
            if i < len(order):
                attrs[order[i]] = example(pg, q, variant)
        for k, q in p[3]:
            attrs.setdefault(k, example(pg, q, variant))
        if c in ("Point",):
            return "M.Point(%s, %s)" % (attrs.get("x", "1"), attrs.get("y", "2"))
        if c == "P3":
            return "M.P3(%s, %s, %s)" % (attrs.get("x", "1"), attrs.get("y", "2"), attrs.get("z", "3"))
        if c in ("NoMA", "BadMA", "BadMA2", "One", "Dup"):
            return "M.%s(%s)" % (c, attrs.get("x", "1"))
        if c == "Lazy":
            return "M.Lazy()"
        if c == "MySeq":
            return "M.MySeq(1, 2)"
        if c == "IntSub":
            return "M.IntSub(1)"
        return "M.%s()" % c
    if t == "or":
        return example(pg, pg.pick(p[1]), variant)
    if t == "as":
        return example(pg, p[1], variant)
    raise ValueError(p)


def wrap_seq(kind, elems):
    inner = ", ".join(elems)
    if kind == "list":
        return "[%s]" % inner
    if kind == "tuple":
        return "(%s%s)" % (inner, "," if len(elems) == 1 else "")
    if kind == "deque":
        return "collections.deque([%s])" % inner
    if kind in ("MySeq", "VSeq", "NotSeq", "BadLenSeq"):
        return "M.%s(%s)" % (kind, inner)
    if kind == "ListSub":
        return "M.ListSub([%s])" % inner
    if kind == "array":
        if elems and all(e.lstrip("-").isdigit() and len(e) < 6 for e in elems):
            return "array.array('i', [%s])" % inner
        return "[%s]" % inner
    if kind == "range":
        if elems and all(e.lstrip("-").isdigit() and len(e) < 6 for e in elems) and \
                all(int(b) - int(a) == 1 for a, b in zip(elems, elems[1:])):
            return "range(%s, %d)" % (elems[0], int(elems[-1]) + 1)
        return "(%s%s)" % (inner, "," if len(elems) == 1 else "")
    if kind == "str":
        return "'ab'"
    raise ValueError(kind)


def wrap_map(kind, body):
    if kind == "dict":
        return body
    if kind == "defaultdict":
        return "collections.defaultdict(int, %s)" % body
    if kind == "ChainMap":
        return "collections.ChainMap({}, %s)" % body
    if kind == "OrderedDict":
        return "collections.OrderedDict(%s)" % body
    return "M.%s(%s)" % (kind, body)


RANDOM_SUBJECTS = ["0", "1", "-1", "7", "1.5", "-0.0", "0.0", "1+2j", "'a'", "'ab'", "''", "b'z'", "b'ab'", "bytearray(b'ab')",
                   "None", "True", "False", "[]", "()", "[1]", "(1,)", "[1, 2]", "(1, 2)", "[1, 2, 3]", "(0, 1, 2, 3)",
                   "['a', 1]", "[[1, 2], 'a']", "range(3)", "range(0)", "collections.deque([1, 2])", "array.array('i', [1, 2])",
                   "M.MySeq(1, 2)", "M.VSeq(1, 2)", "M.NotSeq(1, 2)", "M.BadLenSeq(1, 2)", "M.ListSub([1, 2])", "iter([1, 2])",
                   "{}", "{'k': 1}", "{'k': 1, 'j': 2}", "{1: 'a', 2: 'b'}", "{'ka': 0, 7: 1}", "{None: None}",
                   "collections.defaultdict(int)", "collections.defaultdict(int, {'k': 1})", "collections.ChainMap({'k': 1}, {'j': 2})",
                   "M.MyMap({'k': 1})", "M.VMap({'k': 1, 1: 2})", "M.BadGetMap({'k': 1})", "M.DictSub({'k': 1})",
                   "M.Point(1, 2)", "M.Point(0, 'a')", "M.P3(1, 2, 3)", "M.NoMA()", "M.BadMA()", "M.BadMA2()", "M.Lazy()", "M.One(1)", "M.One('a')", "M.Dup(2)",
                   "M.IntSub(1)", "M.IntSub(7)", "M.K", "M.K.A", "M.K.C", "set()", "{1}", "frozenset([1])", "object()", "int", "10**20",
                   "M.Point(M.Point(1, 2), [1, 2])", "[M.Point(1, 2), {'k': [1, 2]}]", "{'k': M.Point(1, 2), 'j': (1, 2)}"]

TYPED = {
    "int": ("cython.int", ["0", "1", "2", "-1", "7", "255", "-2147483648", "2147483647"]),
    "double": ("cython.double", ["0.0", "-0.0", "1.5", "2.5", "1.0", "float('inf')", "float('nan')", "-1.0"]),
    "str": ("str", ["'a'", "''", "'ka'", "'ab'"]),
    "list": ("list", ["[]", "[1]", "[1, 2]", "['a', 1]", "[1, 2, 3]", "[[1, 2], 'a']", "[0, 1, 2, 3]"]),
    "tuple": ("tuple", ["()", "(1,)", "(1, 2)", "('a', 1)", "(1, 2, 3)", "((1, 2), 'a')"]),
    "dict": ("dict", ["{}", "{'k': 1}", "{'k': 1, 'j': 2}", "{1: 'a', 2: 'b'}", "{'ka': 0, 7: 1}", "{None: None}"]),
}


@st.composite
def items(draw, max_depth, nsubj):
    pg = PG(draw)
    ncases = draw(st.integers(1, 4))
    cases = []
    for i in range(ncases):
        last = i == ncases - 1
        guard = draw(st.sampled_from([None, None, None, True, False]))
        if (last or guard is not None) and draw(st.integers(0, 3)) == 0:
            pat = pg.sub(max_depth)            # may be irrefutable
        else:
            pat = pg.closed(max_depth)
        cases.append((pat, guard))
    typed = draw(st.sampled_from([None, None, None, None, None, "int", "double", "str", "list", "tuple", "dict"]))
    subj_log = draw(st.integers(0, 5)) == 0
    subjects = []
    if typed:
        pool = TYPED[typed][1]
        subjects = list(draw(st.permutations(pool)))[:nsubj]
    else:
        for j in range(nsubj):
            how = draw(st.integers(0, 9))
            pat = cases[draw(st.integers(0, ncases - 1))][0]
            if how <= 6:
                subjects.append(example(pg, pat, j))
            else:
                subjects.append(draw(st.sampled_from(RANDOM_SUBJECTS)))
    return {"cases": cases, "typed": typed, "subj_log": subj_log, "subjects": subjects}


def materialise(raw, uid):
    ann = ""
    if raw["typed"]:
        ann = ": " + TYPED[raw["typed"]][0]
    lines = ["def f_%s(s%s):" % (uid, ann)]
    lines.append("    match %s:" % ("SUBJ(s)" if raw["subj_log"] else "s"))
    for i, (pat, guard) in enumerate(raw["cases"]):
        nm = names(pat)
        g = ""
        if guard is not None:
            g = " if G(%d, %s%s)" % (i + 1, guard, "".join(", " + n for n in nm))
        lines.append("        case %s%s:" % (render(pat, top=True), g))
        lines.append("            return (%d, %s)" % (i + 1, "".join(n + ", " for n in nm)))
    lines.append("    return (0,)")
    src = "\n".join(lines) + "\n"
    try:
        compile(src, "<gen>", "exec")
    except SyntaxError as e:
        return None
    seen, cases = set(), []
    for sx in raw["subjects"]:
        if sx in seen:
            continue
        seen.add(sx)
        cases.append({"expr": "M.f_%s(%s)" % (uid, sx), "subject": sx})
    pats = [c[0] for c in raw["cases"]]
    kinds = sorted(set().union(*[kinds_of(p) for p in pats]))
    return {"src": src, "cases": cases,
            "meta": {"uid": uid, "depth": max(depth_of(p) for p in pats), "kinds": kinds, "typed": raw["typed"],
                     "shapes": [shape(p) for p in pats], "guards": [c[1] for c in raw["cases"]],
                     "hazards": sorted(set().union(*[hazards(p) for p in pats]))}}


def draw_items(k, seed, parts, prefix, max_depth=3, nsubj=12):
    from vlib import hyp
    raw = hyp.draw_many(items(max_depth, nsubj), k + k // 2 + 2, seed, *parts)[1:]
    out, seen = [], set()
    for r in raw:
        it = materialise(r, "%s_%d" % (prefix, len(out)))
        if it is None:
            continue
        key = it["src"].split("\n", 1)[1]
        if key in seen:
            continue
        seen.add(key)
        out.append(it)
        if len(out) >= k:
            break
    return out
