"""Format-spec / printf-template generators and C-typed value pools for C18."""
from hypothesis import strategies as st

from .. import hyp

FILLS = ["", "", "", " ", "0", "*", "x", "_", "-", "+", "é", "€"]
ALIGNS = ["", "", "<", ">", "^", "="]
SIGNS = ["", "", "+", "-", " "]
WIDTHS = ["", "", "1", "2", "5", "8", "12", "20", "40", "03", "010", "0", "1000"]
GROUPS = ["", "", "", ",", "_"]
PRECS = ["", "", ".0", ".1", ".2", ".3", ".6", ".10", ".17", ".30", ".", ".-1"]
INT_TYPES = ["", "d", "d", "x", "X", "o", "b", "c", "n", "e", "f", "g", "%", "s", "r", "?"]
FLOAT_TYPES = ["", "e", "E", "f", "F", "g", "G", "n", "%", "d", "x", "s", "c"]
STR_TYPES = ["", "s", "d", "r"]


@st.composite
def spec(draw, types):
    fill = draw(st.sampled_from(FILLS))
    align = draw(st.sampled_from(ALIGNS))
    if fill and not align:
        align = draw(st.sampled_from(["<", ">", "^", "="]))
    s = fill + align
    s += draw(st.sampled_from(SIGNS))
    s += draw(st.sampled_from(["", "", "", "", "z"]))
    s += draw(st.sampled_from(["", "", "", "#"]))
    s += draw(st.sampled_from(WIDTHS))
    s += draw(st.sampled_from(GROUPS))
    s += draw(st.sampled_from(PRECS)) if draw(st.integers(0, 2)) == 0 else ""
    s += draw(st.sampled_from(types))
    return s


def draw_specs(types, n, seed, *parts):
    out = []
    seen = set()
    for s in hyp.draw_many(spec(types), n * 3 + 1, seed, "fmtspec", *parts)[1:]:
        if s not in seen and not any(c in s for c in "{}\"\\\n'"):
            seen.add(s)
            out.append(s)
        if len(out) >= n:
            break
    return out


# specs the C-level formatter claims for itself (PyrexTypes.CIntLike._parse_format / CFloatType._parse_format) and neighbours
INT_FIXED = ["", "d", "x", "X", "o", "c", "5", "05", "5d", "05d", "-5d", ">5d", ">05d", "<5d", "^5d", "=5d", "+5d", " 5d", "+05d", "5x", "05x",
             "08X", "3o", "03o", "#x", "#o", "#b", "b", "010b", ",d", "_d", "_x", ",", "20d", "020d", "1d", "0d", "00d", "005d", "2c", "5c", "05c",
             "1c", "-3c", ">3c", "300d", "0300d", "n", "e", ".2f", "%", "s", "٥d", "٠٥d", "5٣", "-05d", ">-5d", "--5d", "0>5d", "*>5d", "z5d",
             "251c", "252c", "0251c"]
FLOAT_FIXED = ["", "e", "E", "f", "F", "g", "G", ".0f", ".1f", ".2f", ".3f", ".6f", ".10f", ".17g", ".0e", ".3e", ".12E", ".0g", ".1g", ".3G",
               ".30f", ".100f", "10.2f", "010.2f", "+.2f", " .2f", "-.2f", ",.2f", "_.2f", "#.0f", "#g", "z.1f", "%", ".1%", "n", "d", "x", "s",
               ".f", "..2f", ".2", ".٢f", "٥.2f", ".-1f", "+e", "<10.1f", "^10.1f", "=10.1f", ">010.1f", "r", "c"]
OBJ_FIXED = ["", "s", "5", "<5", ">5", "^5", "*^9", "d", "5d", "05d", "x", "#x", ",d", ".2f", "10.3f", "e", "g", "%", "c", "b", "o", "n", "r",
             ".3", ".3s", "5.2", "=5", "+", "z", "010", "é^7", "=+8d", "#010x", "_b", ",.3f", "030", ".0", "?"]
CONVERSIONS = ["", "", "", "!r", "!s", "!a"]

INT_POOLS = {
    "cython.schar": [0, 1, -1, 7, -7, 99, 100, -100, 127, -128, 126, -127],
    "cython.uchar": [0, 1, 7, 9, 10, 99, 100, 101, 127, 128, 200, 254, 255],
    "cython.short": [0, 1, -1, 9, 10, -10, 99, 100, 999, 1000, -1000, 12345, 32767, -32768, 32766, -32767],
    "cython.ushort": [0, 1, 9, 10, 99, 100, 1000, 9999, 10000, 65535, 65534, 32768],
    "cython.int": [0, 1, -1, 7, -7, 9, 10, 11, 99, 100, 101, -99, -100, -101, 999, 1000, 12345, -12345, 65, 97, 255, 256, 0x10ffff, 0x110000,
                   0xd800, 8364, 128512, 10 ** 9, -10 ** 9, 10 ** 9 - 1, 2 ** 31 - 1, -2 ** 31, 2 ** 31 - 2, -2 ** 31 + 1],
    "cython.uint": [0, 1, 9, 10, 99, 100, 255, 256, 65, 8364, 0x10ffff, 0x110000, 10 ** 9, 2 ** 31, 2 ** 32 - 1, 2 ** 32 - 2],
    "cython.long": [0, 1, -1, 9, 10, -10, 100, -100, 12345, 65, 10 ** 9, 10 ** 18, -10 ** 18, 10 ** 18 - 1, 10 ** 18 + 1, 2 ** 31, -2 ** 31 - 1,
                    2 ** 63 - 1, -2 ** 63, 2 ** 63 - 2, -2 ** 63 + 1],
    "cython.ulong": [0, 1, 9, 10, 100, 65, 10 ** 18, 10 ** 19, 2 ** 63, 2 ** 64 - 1, 2 ** 64 - 2, 2 ** 32],
    "cython.longlong": [0, 1, -1, 10, -10, 100, 97, 10 ** 18, -10 ** 18, 2 ** 62, 2 ** 63 - 1, -2 ** 63, -2 ** 63 + 1, 999999999999],
    "cython.ulonglong": [0, 1, 10, 100, 48, 10 ** 19, 10 ** 19 + 1, 2 ** 63, 2 ** 64 - 1, 2 ** 64 - 2],
    "cython.Py_ssize_t": [0, 1, -1, 10, -10, 100, 57, 10 ** 18, 2 ** 63 - 1, -2 ** 63, 2 ** 32, -2 ** 32],
    "cython.size_t": [0, 1, 10, 100, 126, 10 ** 19, 2 ** 63, 2 ** 64 - 1],
}
DOUBLES = ["0.0", "-0.0", "1.0", "-1.0", "0.5", "1.5", "2.5", "-2.5", "0.125", "0.1", "-0.1", "1e16", "1e15", "123456.789", "1e22", "1e23",
           "5e-324", "1.7976931348623157e308", "-1.7976931348623157e308", "float('nan')", "float('inf')", "float('-inf')", "1e-5", "1e-4",
           "0.0001234", "999999.5", "9999995.0", "0.045", "2.675", "1e100", "3.0", "100.0", "1234567.0", "12345678901234567890.0",
           "0.30000000000000004", "2.0**53", "-1e-7", "65.0"]
FLOATS32 = ["0.0", "-0.0", "1.0", "-1.5", "0.5", "2.25", "1024.0", "-65536.0", "float('nan')", "float('inf')", "float('-inf')", "0.125",
            "3.0", "16777216.0", "1e10", "2.0**-20", "2.0**100", "-2.0**-126"]
UCS4 = ["'a'", "'Z'", "'0'", "' '", "'\\x00'", "'\\x7f'", "'\\xe9'", "'\\u20ac'", "'\\U0001f600'", "'\\ud800'", "'\\U0010ffff'", "'\\n'", "'{'"]
BINTS = ["True", "False"]
OBJECTS = ["0", "1", "-1", "255", "10**30", "-10**30", "65", "True", "False", "None", "1.5", "-0.0", "float('nan')", "float('inf')", "1e100",
           "'abc'", "''", "'a\\u20acb'", "b'ab'", "(1, 2)", "[1]", "S.IntSub(5)", "S.FloatSub(2.5)", "S.StrSub('xy')", "Fraction(1, 3)",
           "Decimal('1.50')", "(1+2j)", "Fmt()", "FmtBad()", "S.Plain()", "0x10ffff", "0x110000", "2**70", "bytearray(b'q')", "{'a': 1}", "range(3)"]

PRELUDE = '''
class Fmt:
    def __format__(self, spec): return "<fmt:%s>" % spec
    def __repr__(self): return "Fmt()"
class FmtBad:
    def __format__(self, spec): return 5
    def __str__(self): return "fmtbad"
'''

PRINTF_CONV = ["d", "i", "u", "x", "X", "o", "c", "s", "r", "a", "e", "E", "f", "F", "g", "G", "%", "b", "n", "y", "q"]


@st.composite
def printf_directive(draw):
    s = "%"
    if draw(st.integers(0, 9)) == 0:
        s += "(a)"
    s += "".join(draw(st.lists(st.sampled_from(["-", "+", " ", "#", "0"]), max_size=2, unique=True)))
    s += draw(st.sampled_from(["", "", "1", "3", "5", "10", "20", "*"]))
    if draw(st.integers(0, 2)) == 0:
        s += draw(st.sampled_from([".0", ".1", ".2", ".5", ".10", ".", ".*"]))
    s += draw(st.sampled_from(["", "", "", "l", "h", "L"])) if draw(st.integers(0, 5)) == 0 else ""
    s += draw(st.sampled_from(PRINTF_CONV))
    return s


def draw_printf(n, seed):
    out = []
    seen = set()
    for s in hyp.draw_many(printf_directive(), n * 2 + 1, seed, "printf")[1:]:
        if s not in seen:
            seen.add(s)
            out.append(s)
        if len(out) >= n:
            break
    return out


PRINTF_FIXED = ["%d", "%5d", "%-5d|", "%05d", "%+d", "% d", "%x", "%X", "%o", "%#x", "%#o", "%c", "%s", "%r", "%a", "%5s", "%-5s|", "%.2s", "%.2f",
                "%10.3f", "%-10.3f|", "%e", "%g", "%i", "%u", "%%", "%5%", "%ld", "%hd", "%.0f", "%#.0f", "%+.1e", "%010.2f", "%.3d", "%8.3d",
                "%+5x", "%#X", "%b", "%5c", "%-3c|", "% 05d", "%.10g", "%G", "%E", "%F", "%n", "%", "%5", "%(a)s", "%(a)d", "%*d", "%.*f", "%-*d",
                "%0*d", "%.0s", "%10r", "%.3r", "%.1a", "%lu", "%zd"]
