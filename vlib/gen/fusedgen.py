"""C34 generator: fused-type declarations, functions using them, calls, and the dispatch model.

Dispatch rule transcribed from docs/src/userguide/fusedtypes.rst ("try to find an exact match; choose the biggest
corresponding numerical type") and Cython/Compiler/FusedNode.py (_split_fused_types/_fused_instance_checks):
the candidates are grouped by the Python type that coerces to them (C integers -> int, C floats -> float, C complex ->
complex, builtin/extension types by name); the runtime argument is tested with isinstance() against each group and is
sent to the BIGGEST candidate of the first matching group; `object` is the fallback; otherwise TypeError.  With several
parameters of the same fused type the first one decides; independent fused types are dispatched independently.
"""
from hypothesis import strategies as st

from .uni import chance, pick, sample

# candidate -> (group, rank, typeof string)
CANDS = {
    "short": ("int", 1, "short"), "int": ("int", 2, "int"), "long": ("int", 3, "long"), "long long": ("int", 4, "long long"),
    "float": ("float", 5, "float"), "double": ("float", 6, "double"),
    "float complex": ("complex", 5, "float complex"), "double complex": ("complex", 6, "double complex"),
    "object": ("object", 99, "Python object"), "str": ("str", 50, "str object"), "bytes": ("bytes", 50, "bytes object"),
    "list": ("list", 50, "list object"), "K": ("K", 50, "K"),
}
# value literal -> (set of groups it is an instance of, python value of `a + a` / result per group)
VALUES = {
    "3": {"int": 6}, "True": {"int": 2}, "-7": {"int": -14}, "2.5": {"float": 5.0}, "0.5": {"float": 1.0},
    "(1+2j)": {"complex": (2 + 4j)}, "'st'": {"str": "stst"}, "b'by'": {"bytes": b"byby"}, "[1]": {"list": [1, 1]},
    "None": {}, "(1,)": {}, "S.IntSub(4)": {"int": 8}, "S.FloatSub(1.5)": {"float": 3.0}, "M.K()": {"K": "K.tag"},
    "np.float64(2.5)": {"float": 5.0}, "np.int64(3)": {}, "np.float32(0.5)": {},
}
OBJ_RESULT = {"3": 3, "True": True, "-7": -7, "2.5": 2.5, "0.5": 0.5, "(1+2j)": (1 + 2j), "'st'": "st", "b'by'": b"by",
              "[1]": [1], "None": None, "(1,)": (1,)}

HEADER = '''cimport cython

cdef class K:
    def tag(self):
        return "K.tag"
    def __canon__(self):
        return "K"

'''
SETUP = "import numpy as np\n"


@st.composite
def fused_type(draw):
    n = pick(draw, [2, 2, 3, 3, 4])
    return sample(draw, list(CANDS), n)


@st.composite
def fused_item(draw):
    """-> {"id", "F": [cands], "G": [cands] (second fused type for two-argument functions)}"""
    return {"id": "0", "F": draw(fused_type()), "G": draw(fused_type())}


def _body(cands, var):
    """expression computing the value for argument `var` independent of the specialisation (fused-type checks prune)."""
    return var


def render_item(it):
    i = it["id"]
    out = []
    for nm in ("F", "G"):
        out.append("ctypedef fused %s%s:" % (nm, i))
        out += ["    %s" % c for c in it[nm]]
        out.append("")

    def val(tname, var):
        # type-directed result: numeric/str/bytes/list: a + a ; K: a.tag() ; object: a
        return ["    if %s is K:" % tname, "        r_%s = %s.tag()" % (var, var),
                "    elif %s is object:" % tname, "        r_%s = %s" % (var, var),
                "    else:", "        r_%s = %s + %s" % (var, var, var)]
    F, G = "F" + i, "G" + i
    out += ["def f%s(%s a):" % (i, F)] + val(F, "a") + ["    return (cython.typeof(a), r_a)", ""]
    out += ["cpdef g%s(%s a):" % (i, F)] + val(F, "a") + ["    return (cython.typeof(a), r_a)", ""]
    out += ["def h%s(%s a, %s b):" % (i, F, F)] + val(F, "a") + val(F, "b") + \
           ["    return (cython.typeof(a), cython.typeof(b), r_a, r_b)", ""]
    out += ["def i%s(%s a, %s b):" % (i, F, G)] + val(F, "a") + val(G, "b") + \
           ["    return (cython.typeof(a), cython.typeof(b), r_a, r_b)", ""]
    out += ["cdef class Host%s:" % i, "    def m(self, %s a):" % F] + ["    " + l for l in val(F, "a")] + \
           ["        return (cython.typeof(a), r_a)", ""]
    return "\n".join(out) + "\n"


def render_module(items):
    return HEADER + "\n".join(render_item(it) for it in items)


# ---------------------------------------------------------------- model

def dispatch(cands, value):
    """-> candidate name selected for the runtime value literal, or None (TypeError: no matching signature)."""
    groups = VALUES[value]
    best = None
    for c in cands:
        g, rank, _ = CANDS[c]
        if g in groups and (best is None or rank > CANDS[best][1]):
            best = c
    if best is None and "object" in cands:
        return "object"
    return best


def result_for(cand, value):
    g = CANDS[cand][0]
    if g == "object":
        return OBJ_RESULT.get(value, ANY)
    return VALUES[value][g]


class _Any:
    def __repr__(self):
        return "ANY"


ANY = _Any()


def plausible(cands, value):
    """number of candidates in the group(s) the value belongs to (+ object)"""
    groups = VALUES[value]
    return sum(1 for c in cands if CANDS[c][0] in groups or c == "object")


def item_cases(it, values):
    """-> [{"expr", "kind", "want": ("ok", tuple) | ("exc", "TypeError")}]"""
    i = it["id"]
    F, G = it["F"], it["G"]
    cases = []

    def one(fn, kind, v, kw=False):
        c = dispatch(F, v)
        want = ("exc", ("TypeError",)) if c is None else ("ok", (CANDS[c][2], result_for(c, v)))
        cases.append({"expr": "%s(%s%s)" % (fn, "a=" if kw else "", v), "kind": kind, "want": want,
                      "nt": plausible(F, v) >= 2 or c is None or c == "object"})
    for v in values:
        one("M.f%s" % i, "def", v)
        one("M.g%s" % i, "cpdef", v)
        one("M.Host%s().m" % i, "method", v)
    one("M.f%s" % i, "def-kw", values[0], kw=True)
    # two arguments, shared fused type: the first argument decides, the second is converted
    for v in values[:3]:
        c = dispatch(F, v)
        if c is None:
            want = ("exc", ("TypeError",))
        else:
            want = ("ok", (CANDS[c][2], CANDS[c][2], result_for(c, v), result_for(c, v)))
        cases.append({"expr": "M.h%s(%s, %s)" % (i, v, v), "kind": "shared2", "want": want, "nt": True})
    # independent fused types
    for va in values[:3]:
        for vb in values[1:3]:
            ca, cb = dispatch(F, va), dispatch(G, vb)
            if ca is None or cb is None:
                want = ("exc", ("TypeError",))
            else:
                want = ("ok", (CANDS[ca][2], CANDS[cb][2], result_for(ca, va), result_for(cb, vb)))
            cases.append({"expr": "M.i%s(%s, %s)" % (i, va, vb), "kind": "indep2", "want": want, "nt": True})
    # explicit indexing with a value of the matching group
    for c in F:
        g = CANDS[c][0]
        v = next((x for x in values + list(VALUES) if (g in VALUES[x]) or (g == "object" and x in OBJ_RESULT)), None)
        if v is None or v.startswith(("S.", "np.")):
            continue
        want = ("ok", (CANDS[c][2], result_for(c, v)))
        cases.append({"expr": "M.f%s[%r](%s)" % (i, c, v), "kind": "index", "want": want, "nt": True})
        cases.append({"expr": "M.g%s[%r](%s)" % (i, c, v), "kind": "index-cpdef", "want": want, "nt": True})
    cases.append({"expr": "M.f%s['nosuch type']" % i, "kind": "index-invalid", "want": ("exc", ("KeyError", "TypeError")), "nt": True})
    ca, cb = F[0], G[-1]
    va = next((x for x in VALUES if CANDS[ca][0] in VALUES[x] or (ca == "object" and x in OBJ_RESULT)), None)
    vb = next((x for x in VALUES if CANDS[cb][0] in VALUES[x] or (cb == "object" and x in OBJ_RESULT)), None)
    if va and vb and not va.startswith(("S.", "np.")) and not vb.startswith(("S.", "np.")):
        want = ("ok", (CANDS[ca][2], CANDS[cb][2], result_for(ca, va), result_for(cb, vb)))
        # documented form: index with one string per fused type  f["float", "double"]
        cases.append({"expr": "M.i%s[%r, %r](%s, %s)" % (i, ca, cb, va, vb), "kind": "index2-tuple", "want": want, "nt": True})
        cases.append({"expr": "M.i%s[%r, 'nosuch']" % (i, ca), "kind": "index-invalid", "want": ("exc", ("KeyError", "TypeError")), "nt": True})
    return cases


# ---------------------------------------------------------------- memoryview module (fixed table)

MV_SRC = HEADER + '''
ctypedef fused MV1:
    double[:]
    float[:]
    int[:]
    long[:]
    short[:]

ctypedef fused MV2:
    double[:]
    double[:, :]
    int[:, ::1]
    float[:, :]

def mv1(MV1 a):
    return (cython.typeof(a), a.shape[0], float(a[0]))

def mv2(MV2 a):
    return (cython.typeof(a), a.ndim, a.shape[0])

cpdef cmv1(MV1 a):
    return (cython.typeof(a), a.shape[0], float(a[0]))
'''
MV_SETUP = "import numpy as np, array\n"


def mv_cases():
    cases = []
    dt1 = {"np.float64": "double[:]", "np.float32": "float[:]", "np.int32": "int[:]", "np.int64": "long[:]",
           "np.int16": "short[:]", "np.uint32": None, "np.uint8": None, "np.complex128": None, "np.float16": None}
    for dt, spec in dt1.items():
        for fn in ("mv1", "cmv1"):
            want = ("exc", ("TypeError",)) if spec is None else ("ok", (spec, 3, 1.0))
            cases.append({"expr": "M.%s(np.array([1, 2, 3], dtype=%s))" % (fn, dt), "kind": "mv-dtype", "want": want, "nt": True})
    cases.append({"expr": "M.mv1(np.ones((2, 2)))", "kind": "mv-ndim", "want": ("exc", ("TypeError",)), "nt": True})
    cases.append({"expr": "M.mv1(array.array('d', [1.0, 2.0]))", "kind": "mv-array", "want": ("ok", ("double[:]", 2, 1.0)), "nt": True})
    cases.append({"expr": "M.mv1(array.array('i', [1, 2]))", "kind": "mv-array", "want": ("ok", ("int[:]", 2, 1.0)), "nt": True})
    cases.append({"expr": "M.mv1(array.array('f', [1.0]))", "kind": "mv-array", "want": ("ok", ("float[:]", 1, 1.0)), "nt": True})
    cases.append({"expr": "M.mv1(b'ab')", "kind": "mv-nomatch", "want": ("exc", ("TypeError",)), "nt": True})
    cases.append({"expr": "M.mv1(5)", "kind": "mv-nomatch", "want": ("exc", ("TypeError",)), "nt": True})
    cases.append({"expr": "M.mv1(np.arange(6, dtype=np.float64)[::2])", "kind": "mv-strided", "want": ("ok", ("double[:]", 3, 0.0)), "nt": True})
    cases.append({"expr": "M.mv1['double[:]'](np.ones(2))", "kind": "mv-index", "want": ("ok", ("double[:]", 2, 1.0)), "nt": True})
    cases.append({"expr": "M.mv1['int[:]'](np.ones(2, dtype=np.int32))", "kind": "mv-index", "want": ("ok", ("int[:]", 2, 1.0)), "nt": True})
    # MV2: ndim decides between double[:] and double[:, :]
    cases.append({"expr": "M.mv2(np.ones(4))", "kind": "mv-ndim", "want": ("ok", ("double[:]", 1, 4)), "nt": True})
    cases.append({"expr": "M.mv2(np.ones((2, 3)))", "kind": "mv-ndim", "want": ("ok", ("double[:, :]", 2, 2)), "nt": True})
    cases.append({"expr": "M.mv2(np.ones((2, 3), dtype=np.int32))", "kind": "mv-contig", "want": ("ok", ("int[:, ::1]", 2, 2)), "nt": True})
    cases.append({"expr": "M.mv2(np.ones((2, 3), dtype=np.float32))", "kind": "mv-ndim", "want": ("ok", ("float[:, :]", 2, 2)), "nt": True})
    cases.append({"expr": "M.mv2(np.ones((2, 3), dtype=np.int32).T)", "kind": "mv-contig", "want": ("exc", ("ValueError", "TypeError")), "nt": True})
    cases.append({"expr": "M.mv2(np.ones(3, dtype=np.int32))", "kind": "mv-ndim", "want": ("exc", ("TypeError",)), "nt": True})
    cases.append({"expr": "M.mv2(np.ones((2, 2, 2)))", "kind": "mv-ndim", "want": ("exc", ("TypeError",)), "nt": True})
    cases.append({"expr": "M.mv2(np.ones(3, dtype=np.float32))", "kind": "mv-ndim", "want": ("exc", ("TypeError",)), "nt": True})
    return cases
