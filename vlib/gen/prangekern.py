"""C37 generator: prange kernels (one OpenMP module) and Hypothesis strategies for their run-time configurations.

Kernel descriptor: {"k": name, "body": "R"|"W"|"G"|"C"|"X", "sched": None|"static"|"dynamic"|"guided"|"runtime",
                    "cs": bool (takes a runtime chunksize argument)}
    R  reductions (+ ^ | & - * on integers, + - on doubles with exactly representable operands), a lastprivate
       assignment and the index variable
    W  disjoint writes into a memoryview
    G  `with gil:` block appending to a Python list
    C  `continue` in some iterations + reduction
    X  exit behaviour per iteration from an input vector: 0 run, 1 break, 2 return, 3 raise inside `with gil`
"""
from hypothesis import strategies as st

HEADER = '''# cython: language_level=3
cimport cython
from cython.parallel import prange

cdef extern from *:
    """
    static void c37_spin(int n) {
        volatile double x = 1.0;
        int k;
        for (k = 0; k < n * 4000; k++) x = x * 1.0000001;     /* ~10 us per unit at -O0 */
    }
    """
    void c37_spin(int n) noexcept nogil

'''


def _prange(d):
    opts = ["nogil=True", "num_threads=nt"]
    if d["sched"]:
        opts.append("schedule=%r" % d["sched"])
    if d["cs"]:
        opts.append("chunksize=cs")
    return "prange(lo, hi, step, %s)" % ", ".join(opts)


def kernel_text(d):
    k = d["k"]
    cs = ", int cs" if d["cs"] else ""
    pr = _prange(d)
    if d["body"] == "R":
        return '''@cython.cdivision(True)
def %s(long lo, long hi, long step, int nt%s, int[::1] delay):
    cdef long i = -999
    cdef long idx = 0
    cdef long s = 0, x = 0, o = 0, c = 0, last = -1
    cdef long a = -1
    cdef unsigned long long p = 1
    cdef double fx = 0.0, fy = 100.0
    for i in %s:
        idx = (i - lo) / step
        c37_spin(delay[idx])
        s += i
        x ^= i * 7 + 1
        o |= i & 0xF0F
        a &= ~(<long>1 << (i & 31))
        c -= 3
        p *= 1 + ((i %% 7) == 0)
        fx += i * 0.5
        fy -= i * 0.25
        last = i * 2 + 1
    return (s, x, o, a, c, p, fx, fy, last, i)
''' % (k, cs, pr)
    if d["body"] == "W":
        return '''@cython.cdivision(True)
def %s(long lo, long hi, long step, int nt%s, int[::1] delay, long[::1] out):
    cdef long i = -999
    cdef long idx = 0
    for i in %s:
        idx = (i - lo) / step
        c37_spin(delay[idx])
        out[idx] = i * i + 1
    return i
''' % (k, cs, pr)
    if d["body"] == "G":
        return '''@cython.cdivision(True)
def %s(long lo, long hi, long step, int nt%s, int[::1] delay, list seen):
    cdef long i = -999
    cdef long idx = 0
    cdef long s = 0
    for i in %s:
        idx = (i - lo) / step
        c37_spin(delay[idx])
        with gil:
            seen.append(i)
        s += 2 * i
    return (s, i)
''' % (k, cs, pr)
    if d["body"] == "C":
        return '''@cython.cdivision(True)
def %s(long lo, long hi, long step, int nt%s, int[::1] delay):
    cdef long i = -999
    cdef long idx = 0
    cdef long s = 0, n = 0
    for i in %s:
        idx = (i - lo) / step
        if i %% 3 == 0:
            continue
        c37_spin(delay[idx])
        s += i
        n += 1
    return (s, n, i)
''' % (k, cs, pr)
    if d["body"] == "X":
        return '''@cython.cdivision(True)
cdef long c%s(long lo, long hi, long step, int nt%s, int[::1] act, int[::1] delay, long* res, object mk) except? -987654321:
    cdef long i = -999
    cdef long idx = 0
    cdef long s = 0
    cdef int a = 0
    for i in %s:
        idx = (i - lo) / step
        a = act[idx]
        c37_spin(delay[idx])
        if a == 1:
            break
        elif a == 2:
            return 1000000 + i
        elif a == 3:
            with gil:
                raise mk(i)
        s += i
    res[0] = s
    return 0

def %s(long lo, long hi, long step, int nt%s, int[::1] act, int[::1] delay, mk):
    cdef long res = -1
    cdef long r = c%s(lo, hi, step, nt%s, act, delay, &res, mk)
    return (r, res)
''' % (k, cs, pr, k, cs, k, ", cs" if d["cs"] else "")
    raise ValueError(d)


def kernels():
    ks = []

    def add(body, sched, cs):
        ks.append({"k": "%s_%s%s" % (body.lower(), sched or "default", "_cs" if cs else ""), "body": body, "sched": sched, "cs": cs})
    for sched, cs in ((None, False), ("static", False), ("static", True), ("dynamic", False), ("dynamic", True),
                      ("guided", False), ("guided", True), ("runtime", False)):
        add("R", sched, cs)
    for body in ("W", "G", "C"):
        for sched, cs in (("static", True), ("dynamic", False), ("guided", True)):
            add(body, sched, cs)
    for sched, cs in ((None, False), ("static", False), ("static", True), ("dynamic", True), ("guided", False), ("runtime", False)):
        add("X", sched, cs)
    return ks


def module_source(ks=None):
    ks = kernels() if ks is None else ks
    return HEADER + "\n".join(kernel_text(d) for d in ks)


def single_source(d):
    return HEADER + kernel_text(d)


# ------------------------------------------------------------------------------------------------ configurations
@st.composite
def config(draw, body):
    """{"lo","hi","step","nt","cs","delay":[...], "act":[...]|None}"""
    step = draw(st.sampled_from([1, 1, 1, 2, 3, 7, -1, -1, -2, -5]))
    n = draw(st.one_of(st.sampled_from([0, 1, 2, 3, 16, 17, 31, 32, 33, 64]), st.integers(24, 70), st.integers(24, 70), st.integers(0, 70)))
    lo = draw(st.integers(-40, 40))
    # hi anywhere inside the last step so that exactly n iterations run
    slack = draw(st.integers(0, abs(step) - 1)) if n else draw(st.integers(0, 3))
    if step > 0:
        hi = lo + (n - 1) * step + 1 + slack if n else lo - slack
    else:
        hi = lo + (n - 1) * step - 1 - slack if n else lo + slack
    assert len(range(lo, hi, step)) == n, (lo, hi, step, n)
    nt = draw(st.one_of(st.integers(1, 16), st.sampled_from([1, 2, 2, 3, 4, 4, 6, 8, 16])))
    cs = draw(st.sampled_from([1, 1, 2, 7, max(n, 1), max(n // 2, 1)]))
    heavy = draw(st.integers(0, 3))
    if heavy == 0:
        delay = [0] * n
    elif heavy == 1:
        delay = [draw(st.integers(0, 2)) for _ in range(n)]
    elif heavy == 2:          # early iterations slow: later ones finish first
        delay = [3 if i < max(1, n // 4) else 0 for i in range(n)]
    else:                     # late iterations slow
        delay = [3 if i >= n - max(1, n // 4) else 0 for i in range(n)]
    act = None
    if body == "X":
        kind = draw(st.integers(0, 6))
        act = [0] * n
        if n:
            if kind == 0:
                pass
            elif kind == 1:        # every iteration raises
                act = [3] * n
            elif kind in (2, 3):   # a few exits of one kind
                a = draw(st.sampled_from([1, 2, 3]))
                for _ in range(draw(st.integers(1, 3))):
                    act[draw(st.integers(0, n - 1))] = a
            elif kind == 4:        # mixed exits anywhere
                for _ in range(draw(st.integers(2, 5))):
                    act[draw(st.integers(0, n - 1))] = draw(st.sampled_from([1, 2, 3, 3]))
            elif kind == 5:        # mixed exits in the first wave of a chunksize-1 schedule: iterations 0..nt-1 start together
                cs = 1
                for t in range(min(nt, n)):
                    act[t] = draw(st.sampled_from([3, 3, 1, 2, 0]))
            else:                  # mixed exits at the start of every thread's block of a plain static schedule
                blk = -(-n // nt)
                for t in range(nt):
                    if t * blk < n:
                        act[t * blk] = draw(st.sampled_from([3, 3, 1, 2, 0]))
            # who wins the race: exits of one kind are held back so that the other kind is recorded first
            race = draw(st.integers(0, 3))
            hold = draw(st.integers(4, 20))
            if race == 1:
                delay = [hold if a in (1, 2) else (0 if a == 3 else d) for a, d in zip(act, delay)]
            elif race == 2:
                delay = [hold if a == 3 else (0 if a in (1, 2) else d) for a, d in zip(act, delay)]
            elif race == 3:
                delay = [draw(st.integers(0, hold)) if a else d for a, d in zip(act, delay)]
    return {"lo": lo, "hi": hi, "step": step, "nt": nt, "cs": cs, "delay": delay, "act": act}
