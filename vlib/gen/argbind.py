"""C24 generator: Python-visible signatures x call shapes (DESIGN §4 C24).

An *item* is one callable (module function, lambda, method, classmethod, staticmethod; in the .pyx twin also a
cpdef function or a def-method of a cdef class) whose body returns all bound parameters as a tuple, plus a list
of calls.  A call is described structurally (positional values, *iterables, keywords, **mappings, call path) and
rendered to an expression string evaluated by the runner against the module `M` (so the *callee* is compiled
code, the caller is CPython) or rendered into the module itself as `cs_<uid>_<j>(S, H)` (compiled call site).
"""
from hypothesis import strategies as st

# parameter name pool: prefixes of each other, non-ASCII, NFKC-normalised ligature, underscore forms
NAMES = ["a", "ab", "abc", "abcd", "b", "ba", "c", "k", "kw", "x1", "\u00e9", "\u00e9a", "_p", "a_", "n", "nn",
         "q", "key", "\u03b1\u03b2", "zz", "self_", "args_"]
EXTRA_UNKNOWN = ["zq", "A", "abcde", "\u00e9\u00e9", "kwargs", "args", "x", "self", "cls"]

KINDS_PY = ["func", "func", "func", "lambda", "method", "method", "classmethod", "staticmethod"]
KINDS_PYX = ["func", "cpdef", "cpdef", "cmethod", "cmethod", "cmethod", "cclassmethod", "cstaticmethod", "ccpdef"]

SETUP = r'''
import collections, collections.abc, functools

class H:
    @staticmethod
    def ni(s):
        """runtime-built (non-interned) str equal to s"""
        r = "".join(list(s) + [""])
        return r

    @staticmethod
    def gen(*vals):
        for v in vals:
            yield v

    class RI:
        """iterator raising ValueError after its items"""
        def __init__(self, *vals):
            self.vals = list(vals)
        def __iter__(self):
            return self
        def __next__(self):
            if self.vals:
                return self.vals.pop(0)
            raise ValueError("RI exhausted")

    class SeqOnly:
        """iterable only through __getitem__"""
        def __init__(self, *vals):
            self.vals = vals
        def __getitem__(self, i):
            return self.vals[i]

    class MP(collections.abc.Mapping):
        """Mapping ABC subclass over a list of pairs"""
        def __init__(self, *pairs):
            self.pairs = pairs
        def __getitem__(self, k):
            for kk, v in self.pairs:
                if kk == k:
                    return v
            raise KeyError(k)
        def __iter__(self):
            return iter([k for k, v in self.pairs])
        def __len__(self):
            return len(self.pairs)

    class KG:
        """minimal mapping protocol: keys() + __getitem__ (keys may repeat)"""
        def __init__(self, *pairs):
            self.pairs = pairs
        def keys(self):
            return [k for k, v in self.pairs]
        def __getitem__(self, k):
            for kk, v in self.pairs:
                if kk is k or kk == k:
                    return v
            raise KeyError(k)

    class RK:
        """mapping whose __getitem__ raises LookupError for its last key"""
        def __init__(self, *pairs):
            self.pairs = pairs
        def keys(self):
            return [k for k, v in self.pairs]
        def __getitem__(self, k):
            if k == self.pairs[-1][0]:
                raise LookupError("RK")
            for kk, v in self.pairs:
                if kk == k:
                    return v
            raise KeyError(k)

    class ItemsOnly:
        """has items() but neither keys() nor __getitem__: not a mapping for `**`"""
        def __init__(self, *pairs):
            self.pairs = pairs
        def items(self):
            return list(self.pairs)

    class HK(str):
        """str subclass with its own (constant) hash; equality by content"""
        def __hash__(self):
            return 12345
        def __eq__(self, other):
            return str.__eq__(self, other)
        def __ne__(self, other):
            return str.__ne__(self, other)

    class CI(str):
        """case-insensitive str subclass (consistent __eq__/__hash__)"""
        def __hash__(self):
            return hash(str(self).lower())
        def __eq__(self, other):
            return isinstance(other, str) and str(self).lower() == str(other).lower()
        def __ne__(self, other):
            return not self.__eq__(other)
'''

MODULE_HEADER = "import collections\nimport functools\nLOG = []\n"


# ---------------------------------------------------------------------------------------------- signatures

def _count(draw, big):
    if big:
        return draw(st.integers(0, 6))
    return draw(st.sampled_from([0, 0, 0, 1, 1, 1, 2, 2, 3]))


@st.composite
def signatures(draw, kind):
    """dict(posonly=[(name, has_default)], normal=[...], star=name|None, kwonly=[...], starstar=name|None)"""
    names = list(draw(st.permutations(NAMES)))
    big = draw(st.integers(0, 9))      # one kind may get up to 6 parameters
    if kind in ("cpdef", "ccpdef"):
        n_norm = draw(st.integers(0, 5))
        ndef = draw(st.integers(0, n_norm))
        normal = [(names.pop(), i >= n_norm - ndef) for i in range(n_norm)]
        return {"posonly": [], "normal": normal, "star": None, "kwonly": [], "starstar": None}
    n_po = _count(draw, big == 0) if draw(st.integers(0, 2)) else 0
    n_norm = _count(draw, big == 1)
    n_kwo = _count(draw, big == 2) if draw(st.integers(0, 2)) else 0
    star = draw(st.sampled_from([None, None, "args", "rest"]))
    starstar = draw(st.sampled_from([None, None, "kwargs", "kwds"]))
    npos = n_po + n_norm
    ndef = draw(st.sampled_from([0, 0, 1, 2, npos])) if npos else 0
    ndef = min(ndef, npos)
    pos = [(names.pop(), i >= npos - ndef) for i in range(npos)]
    kwonly = [(names.pop(), draw(st.booleans())) for _ in range(n_kwo)]
    return {"posonly": pos[:n_po], "normal": pos[n_po:], "star": star, "kwonly": kwonly, "starstar": starstar}


def sig_text(sig):
    parts = []
    for nm, d in sig["posonly"]:
        parts.append(nm + ("='D%s'" % nm if d else ""))
    if sig["posonly"]:
        parts.append("/")
    for nm, d in sig["normal"]:
        parts.append(nm + ("='D%s'" % nm if d else ""))
    if sig["star"]:
        parts.append("*" + sig["star"])
    elif sig["kwonly"]:
        parts.append("*")
    for nm, d in sig["kwonly"]:
        parts.append(nm + ("='D%s'" % nm if d else ""))
    if sig["starstar"]:
        parts.append("**" + sig["starstar"])
    return ", ".join(parts)


def sig_key(sig):
    """name-independent shape of the signature (for histogram / distinct counting)"""
    def defs(l):
        return "".join("d" if d else "r" for _, d in l)
    return "po[%s]n[%s]%sk[%s]%s" % (defs(sig["posonly"]), defs(sig["normal"]), "*" if sig["star"] else "",
                                    defs(sig["kwonly"]), "**" if sig["starstar"] else "")


def all_params(sig):
    out = [n for n, _ in sig["posonly"]] + [n for n, _ in sig["normal"]]
    if sig["star"]:
        out.append(sig["star"])
    out += [n for n, _ in sig["kwonly"]]
    if sig["starstar"]:
        out.append(sig["starstar"])
    return out


def render_def(sig, kind, uid, pyx):
    """Return (source text, reference source text) defining the callable(s) for this item."""
    st_ = sig_text(sig)
    ret = "(%s)" % "".join("%s, " % p for p in (["'%s'" % uid] + all_params(sig)))

    def both(text):
        if not pyx:
            return text, text
        ref = text.replace("cdef class ", "class ").replace("cpdef ", "def ")
        return text, ref
    if kind == "func":
        return both("def f_%s(%s):\n    return %s\n" % (uid, st_, ret))
    if kind == "cpdef":
        return both("cpdef f_%s(%s):\n    return %s\n" % (uid, st_, ret))
    if kind == "lambda":
        return both("f_%s = lambda %s: %s\n" % (uid, st_, ret))
    cls = "cdef class" if kind in ("cmethod", "cclassmethod", "cstaticmethod", "ccpdef") else "class"
    first = {"method": "self", "cmethod": "self", "ccpdef": "self", "classmethod": "cls", "cclassmethod": "cls",
             "staticmethod": None, "cstaticmethod": None}[kind]
    deco = {"classmethod": "    @classmethod\n", "cclassmethod": "    @classmethod\n",
            "staticmethod": "    @staticmethod\n", "cstaticmethod": "    @staticmethod\n"}.get(kind, "")
    params = ", ".join([p for p in (first, st_) if p])
    kw = "cpdef" if kind == "ccpdef" else "def"
    text = "%s K_%s:\n%s    %s m(%s):\n        return %s\n\no_%s = K_%s()\n" % (cls, uid, deco, kw, params, ret, uid, uid)
    return both(text)


# ---------------------------------------------------------------------------------------------- calls

STAR_KINDS = ["tuple", "tuple", "list", "gen", "seqonly", "range", "raising", "noniter"]
MAP_KINDS = ["dict", "dict", "dict", "dictsub", "mp", "kg", "odict", "rk"]
# "hk" (str subclass whose hash differs from the equal plain str) violates the hash/eq contract of the data model and
# is NOT generated (see notes/C24.md); the helper class stays for old replay files.
KEY_KINDS = ["lit", "lit", "lit", "ni", "ni", "strsub", "ci"]
NONMAPS = {"pairs": "[('a', 1)]", "int": "5", "none": "None", "items_only": "H.ItemsOnly(('a', 1))"}


def _valgen():
    n = [100]

    def nxt():
        n[0] += 1
        return n[0]
    return nxt


@st.composite
def call_shapes(draw, sig, kind):
    """One structural call description for `sig`."""
    val = _valgen()
    po = [n for n, _ in sig["posonly"]]
    norm = [n for n, _ in sig["normal"]]
    kwo = [n for n, _ in sig["kwonly"]]
    required = {n for n, d in sig["posonly"] + sig["normal"] + sig["kwonly"] if not d}
    pos_names = po + norm
    npos = len(pos_names)
    mode = draw(st.sampled_from(["valid", "valid", "mutated", "mutated", "random"]))
    feats = set()
    # ---- how many positionals
    if mode == "random":
        p = draw(st.integers(0, npos + 2))
    else:
        p = draw(st.integers(len(po), npos)) if npos else 0
        if sig["star"] and draw(st.integers(0, 2)) == 0:
            p = npos + draw(st.integers(1, 3))
    # ---- keywords: (name, value)
    kws = []
    filled = set(pos_names[:p])
    if mode != "random":
        for n in norm + kwo:
            if n in filled:
                continue
            if n in required or draw(st.booleans()):
                kws.append(n)
        if sig["starstar"] and draw(st.integers(0, 1)):
            pool = [n for n in NAMES + EXTRA_UNKNOWN if n not in pos_names and n not in kwo]
            for _ in range(draw(st.integers(1, 2))):
                kws.append(draw(st.sampled_from(pool)))
    else:
        cands = norm + kwo + po + EXTRA_UNKNOWN[:3] + ([sig["star"]] if sig["star"] else []) + \
            ([sig["starstar"]] if sig["starstar"] else [])
        for _ in range(draw(st.integers(0, 4))):
            kws.append(draw(st.sampled_from(cands)))
    if mode == "mutated":
        mut = draw(st.sampled_from(["unknown", "dup", "posonly-kw", "drop", "extra-pos", "near", "starname", "none"]))
        if mut == "unknown":
            kws.append(draw(st.sampled_from(EXTRA_UNKNOWN + [n for n in NAMES if n not in all_params(sig)][:4])))
        elif mut == "dup" and filled:
            kws.append(draw(st.sampled_from(sorted(filled))))
        elif mut == "posonly-kw" and po:
            kws.append(draw(st.sampled_from(po)))
        elif mut == "drop" and kws:
            kws.pop(draw(st.integers(0, len(kws) - 1)))
        elif mut == "extra-pos":
            p += 1
        elif mut == "near" and (norm + kwo):
            base = draw(st.sampled_from(norm + kwo))
            kws.append(draw(st.sampled_from([base + "x", base[:-1] or "_", base.upper(), base + "_"])))
        elif mut == "starname":
            nm = sig["star"] or sig["starstar"]
            if nm:
                kws.append(nm)
    if kind in ("cmethod", "cclassmethod", "ccpdef"):
        # `self`/`cls` of an extension-type method is not a keyword-addressable parameter (as for builtin types)
        kws = [n for n in kws if n not in ("self", "cls")]
    kws = list(draw(st.permutations(kws))) if kws else []
    # ---- distribute positionals over plain / *iterables
    posvals = [val() for _ in range(p)]
    segs = []     # ("plain", [v]) | ("star", kind, [v])
    raising = False       # at most one component of a call may raise on its own (evaluation order of unpackings
    #                       is a call-site detail of CPython's bytecode, not part of argument binding)
    use_star = draw(st.integers(0, 3)) == 0
    if use_star:
        cut1 = draw(st.integers(0, p))
        cut2 = draw(st.integers(cut1, p))
        if cut1:
            segs.append(("plain", posvals[:cut1]))
        sk = draw(st.sampled_from(STAR_KINDS))
        raising = sk in ("raising", "noniter")
        segs.append(("star", sk, posvals[cut1:cut2]))
        feats.add("star:" + sk)
        if cut2 < p:
            if draw(st.booleans()):
                segs.append(("plain", posvals[cut2:]))
            else:
                sk2 = draw(st.sampled_from(STAR_KINDS[:5]))
                segs.append(("star", sk2, posvals[cut2:]))
                feats.add("star:" + sk2)
    elif p:
        segs.append(("plain", posvals))
    # ---- distribute keywords over literal keywords / **mappings
    kwsegs = []   # ("kw", name, v) | ("map", kind, [(keykind, name, v)])
    used_lit = set()
    cur = None
    for n in kws:
        as_map = draw(st.integers(0, 2)) == 0 or n in used_lit or not n.isidentifier()
        if not as_map:
            used_lit.add(n)
            kwsegs.append(("kw", n, val()))
            cur = None
            continue
        if cur is None or draw(st.integers(0, 2)) == 0:
            mk = draw(st.sampled_from(MAP_KINDS if not raising else MAP_KINDS[:-1]))
            raising = raising or mk == "rk"
            cur = ("map", mk, [])
            kwsegs.append(cur)
            feats.add("map:" + mk)
        kk = draw(st.sampled_from(KEY_KINDS))
        if kk == "ci":
            n = n.upper() if draw(st.booleans()) else n
        cur[2].append((kk, n, val()))
        feats.add("key:" + kk)
    if draw(st.integers(0, 11)) == 0:
        mk = draw(st.sampled_from(["dict", "mp", "kg", "nonmap", "nonmap", "empty", "empty"]))
        if mk == "empty":
            kwsegs.append(("map", draw(st.sampled_from(["dict", "mp", "dictsub"])), []))
            feats.add("map:empty")
        elif raising:
            pass
        elif mk == "nonmap":
            which = draw(st.sampled_from(sorted(NONMAPS)))
            kwsegs.insert(draw(st.integers(0, len(kwsegs))), ("map", "nonmap", which))
            feats.add("map:nonmap-" + which)
        else:
            kwsegs.append(("map", mk, [("nonstr", draw(st.sampled_from(["1", "None", "b'a'", "('a',)"])), val())]))
            feats.add("key:nonstr")
            feats.add("map:" + mk)
    if kws:
        feats.add("kw")
    # ---- call path
    paths = ["direct", "direct", "direct", "direct", "direct", "direct", "dunder_call", "dunder_call", "partial", "partial",
             "compiled"]
    if kind in ("method", "cmethod", "ccpdef"):
        paths += ["unbound", "unbound"]
    if kind in ("classmethod", "cclassmethod", "staticmethod", "cstaticmethod"):
        paths += ["via_instance", "via_instance"]
    path = draw(st.sampled_from(paths))
    split = None
    if path == "partial":
        split = (draw(st.integers(0, len(segs))), draw(st.integers(0, len(kwsegs))))
    return {"segs": segs, "kwsegs": kwsegs, "path": path, "split": split, "feats": sorted(feats),
            "npos": p, "mode": mode}


def _key_text(kk, n):
    if kk == "nonstr":
        return n
    lit = ascii(n)
    if kk == "lit":
        return lit
    if kk == "ni":
        return "H.ni(%s)" % lit
    if kk == "strsub":
        return "S.StrSub(%s)" % lit
    if kk == "hk":
        return "H.HK(%s)" % lit
    if kk == "ci":
        return "H.CI(%s)" % lit
    raise ValueError(kk)


def _seg_text(seg):
    if seg[0] == "plain":
        return [str(v) for v in seg[1]]
    _, sk, vals = seg
    inner = ", ".join(str(v) for v in vals)
    if sk == "tuple":
        return ["*(%s)" % (inner + "," if vals else "")]
    if sk == "list":
        return ["*[%s]" % inner]
    if sk == "gen":
        return ["*H.gen(%s)" % inner]
    if sk == "seqonly":
        return ["*H.SeqOnly(%s)" % inner]
    if sk == "range":
        if vals:
            return ["*range(%d, %d)" % (vals[0], vals[0] + len(vals))]
        return ["*range(0)"]
    if sk == "raising":
        return ["*H.RI(%s)" % inner]
    if sk == "noniter":
        return ["*%s" % (vals[0] if vals else 5)]
    raise ValueError(sk)


def _kwseg_text(seg, safe_dict=False):
    if seg[0] == "kw":
        return "%s=%d" % (seg[1], seg[2])
    _, mk, pairs = seg
    if mk == "nonmap":
        return "**" + NONMAPS[pairs or "pairs"]
    items = ["(%s, %d)" % (_key_text(kk, n), v) for kk, n, v in pairs]
    if mk == "dict" and safe_dict and any(kk != "lit" for kk, n, v in pairs):
        # compiled call sites: `f(**{g(): v})` (computed key in a literal) crashes the compiler (see notes/C24.md; C43)
        return "**dict([%s])" % ", ".join(items)
    if mk == "dict":
        return "**{%s}" % ", ".join("%s: %d" % (_key_text(kk, n), v) for kk, n, v in pairs)
    if mk == "dictsub":
        return "**S.DictSub([%s])" % ", ".join(items)
    if mk == "odict":
        return "**collections.OrderedDict([%s])" % ", ".join(items)
    cls = {"mp": "H.MP", "kg": "H.KG", "rk": "H.RK"}[mk]
    if mk == "rk" and not items:
        cls = "H.KG"
    return "**%s(%s)" % (cls, ", ".join(items))


def render_call(call, kind, uid, M):
    """Expression text for the call; M = 'M.' (runner side) or '' (inside the module)."""
    path = call["path"]
    if kind in ("func", "cpdef", "lambda"):
        target, first = "%sf_%s" % (M, uid), None
    else:
        obj, cls = "%so_%s" % (M, uid), "%sK_%s" % (M, uid)
        if kind in ("method", "cmethod", "ccpdef"):
            if path == "unbound":
                target, first = cls + ".m", obj
            else:
                target, first = obj + ".m", None
        else:
            target, first = ((obj if path == "via_instance" else cls) + ".m"), None
    pos = []
    for s in call["segs"]:
        pos.append(_seg_text(s))
    kws = [_kwseg_text(s, safe_dict=(M == "")) for s in call["kwsegs"]]
    if path == "partial":
        a, b = call["split"]
        pre = ([first] if first else []) + [t for s in pos[:a] for t in s] + kws[:b]
        post = [t for s in pos[a:] for t in s] + kws[b:]
        return "functools.partial(%s)(%s)" % (", ".join([target] + pre), ", ".join(post))
    args = ([first] if first else []) + [t for s in pos for t in s] + kws
    if path == "dunder_call":
        return "%s.__call__(%s)" % (target, ", ".join(args))
    return "%s(%s)" % (target, ", ".join(args))


def call_key(call):
    """structural identity of the call shape (values are positional tags, so they are part of the shape)"""
    return [call["segs"], call["kwsegs"], call["path"], call["split"]]


def nontrivial(sig, call):
    if call["kwsegs"] or any(s[0] == "star" for s in call["segs"]):
        return True
    npos = len(sig["posonly"]) + len(sig["normal"])
    nreq = sum(1 for _, d in sig["posonly"] + sig["normal"] if not d)
    p = call["npos"]
    if p < nreq or (p > npos and not sig["star"]):
        return True
    return any(not d for _, d in sig["kwonly"])


@st.composite
def items(draw, pyx, ncalls):
    kind = draw(st.sampled_from(KINDS_PYX if pyx else KINDS_PY))
    sig = draw(signatures(kind))
    calls = [draw(call_shapes(sig, kind)) for _ in range(ncalls)]
    return {"kind": kind, "sig": sig, "calls": calls}


def materialise(raw, uid, pyx):
    """raw item -> diffmod-style item {"src","ref_src","cases","meta"}; compiled call sites are appended to src."""
    kind, sig = raw["kind"], raw["sig"]
    src, ref = render_def(sig, kind, uid, pyx)
    cases = []
    extra = []
    seen = set()
    for j, c in enumerate(raw["calls"]):
        if c["path"] == "compiled" and kind in ("cpdef", "ccpdef"):
            c = dict(c, path="direct")      # in-module calls of cpdef functions are C calls checked at compile time
        if c["path"] == "compiled":
            body = render_call(dict(c, path="direct"), kind, uid, "")
            extra.append("def cs_%s_%d(S, H):\n    return %s\n" % (uid, j, body))
            expr = "M.cs_%s_%d(S, H)" % (uid, j)
            shown = body
        else:
            expr = render_call(c, kind, uid, "M.")
            shown = expr
        if (expr if c["path"] != "compiled" else "cs:" + shown) in seen:
            continue
        seen.add(expr if c["path"] != "compiled" else "cs:" + shown)
        cases.append({"expr": expr, "call": c, "shown": shown})
    tail = "\n" + "\n".join(extra) if extra else ""
    return {"src": src + tail, "ref_src": ref + tail, "cases": cases,
            "meta": {"kind": kind, "sig": sig, "sigtext": sig_text(sig), "sigkey": sig_key(sig), "uid": uid}}


def draw_items(k, seed, parts, prefix, pyx=False, ncalls=36):
    from vlib import hyp
    raw = hyp.draw_many(items(pyx, ncalls), k + k // 2 + 2, seed, *parts)[1:]
    # Hypothesis likes to repeat / slightly vary earlier examples: keep the first k distinct signatures
    seen, uniq = set(), []
    for r in raw:
        key = (r["kind"], sig_text(r["sig"]))
        if key not in seen:
            seen.add(key)
            uniq.append(r)
    return [materialise(r, "%s_%d" % (prefix, i), pyx) for i, r in enumerate(uniq[:k])]
