"""Macro-sensitive donor kernels for C39: small pure-Python functions that sit directly on the utility-code helpers
whose implementation is selected by the C feature macros (PyLong internals: constant arithmetic / comparison;
list/tuple/unicode internals and safe-macro assumptions: indexing, slicing, append/pop, join, formatting;
vectorcall / method unpacking: method calls with 0-3 positional and keyword arguments; dict versions / type lookup:
global and attribute lookups under mutation; thread-state shortcuts: raise / catch / re-raise / finally; generators
and coroutines (am_send); closures and classes (freelists, type slots/specs, tp_finalize)) driven by boundary values.
Items follow the diffmod format {"src", "cases": [{"expr"}], "meta"}.
"""
from hypothesis import strategies as st

HEADER = '''LOG = []
GLOB = 10


class Box:
    cls_attr = 7

    def __init__(self, v):
        self.v = v

    def m0(self):
        return ("m0", self.v)

    def m1(self, a):
        return ("m1", self.v, a)

    def m2(self, a, b):
        return ("m2", self.v, a, b)

    def m3(self, a, b=5, *c, d=6, **e):
        return ("m3", self.v, a, b, c, d, sorted(e.items()))

    def __len__(self):
        return 3

    def __getitem__(self, i):
        if isinstance(i, int) and not -3 <= i < 3:
            raise IndexError("Box index out of range")
        return ("item", i)

    def __eq__(self, o):
        return isinstance(o, Box) and o.v == self.v

    def __hash__(self):
        return hash(self.v)

    def __canon__(self):
        return ("Box", self.v)

    def __repr__(self):
        return "Box(%r)" % (self.v,)


class Fin:
    def __init__(self, tag):
        self.tag = tag

    def __del__(self):
        LOG.append(("del", self.tag))


class MyErr(Exception):
    pass

'''

INTS = ["0", "1", "-1", "2", "-2", "3", "-3", "7", "-7", "255", "256", "-256", "32767", "32768", "1073741823", "1073741824",
        "-1073741824", "-1073741825", "2147483647", "2147483648", "-2147483648", "-2147483649", "4294967296",
        "1152921504606846975", "1152921504606846976", "4611686018427387904", "9223372036854775807", "9223372036854775808",
        "-9223372036854775808", "-9223372036854775809", "18446744073709551616", "10**30", "-10**30", "True", "False"]
FLOATS = ["0.0", "-0.0", "1.0", "-1.5", "2.5", "1e300", "-1e300", "float('inf')", "float('nan')", "3.0", "1073741824.0"]
STRS = ["''", "'a'", "'abc'", "'ab,cd,ef'", "'\\xe9t\\xe9'", "'\\u4e2d\\u6587'", "'\\U0001f600x'", "'a' * 40", "'  pad  '", "'AbC'", "'%s-%d'"]
LISTS = ["[]", "[1]", "[1, 2, 3]", "list(range(10))", "['a', 'b']", "[[1], [2]]", "[None] * 5"]
TUPS = ["()", "(1,)", "(1, 2, 3)", "tuple(range(8))", "('a', 'b')"]
IDX = ["0", "1", "-1", "2", "-2", "3", "-3", "5", "-5", "9", "-10", "10", "-11", "100", "-100", "2**62", "-2**63", "2**64", "True"]
DICTS = ["{}", "{'a': 1}", "{'a': 1, 'b': 2, 1: 'x'}", "{(1, 2): 3, None: 4}"]
OBJS = ["None", "Box(1)", "1.5", "b'xy'", "Ellipsis"]

# (name, params, body, [pool per parameter])
KERNELS = [
    ("intcmp", "x", "return (x == 3, x != 3, 3 == x, x == -3, x != -3, x == 0, x != 0, x == 1073741824, x == -1073741825, "
                    "x == 4611686018427387904, x == 255, x == -1, x != 2147483648)", [INTS + FLOATS]),
    ("intadd", "x", "return (x + 1, 1 + x, x + 1073741823, x - 1, 1 - x, x - 2147483648, x + 4611686018427387904, x + (-1), x - (-3))", [INTS + FLOATS]),
    ("intmul", "x", "return (x * 2, 2 * x, x * -3, x * 1073741824, x * 0, x << 1, x << 31, x << 40, x >> 1, x >> 31, x >> 70)", [INTS]),
    ("intdiv", "x", "return (x // 2, x // -2, x % 3, x % -3, x // 1073741824, x % 1073741824, x / 2, x / -4, divmod(x, 7), x ** 2, x ** 0)", [INTS + FLOATS]),
    ("rdiv", "x", "return (7 // x, 7 % x, 7 / x, -7 // x, 2 ** x if -4 < x < 70 else None)", [INTS + FLOATS]),
    ("intbit", "x", "return (x & 255, 255 & x, x | 1, x ^ 3, x & -256, x | 1073741824, ~x, -x, +x, abs(x))", [INTS]),
    ("inplace", "x", "a = x\na += 1\na -= 3\na *= 2\nb = x\nb //= 3\nb %= 5\nc = x\nc &= 1023\nc |= 4\nc ^= 1\nc <<= 2\nc >>= 1\nreturn (a, b, c)", [INTS]),
    ("intconv", "x", "return (int(x), float(x) if abs(x) < 10**300 else None, bool(x), str(x), repr(x), hash(x), '%d' % x, '%5d|%-5d|%05d' % (x, x, x), f'{x}', f'{x:>8}', hex(x), bin(x & 0xff))", [INTS]),
    ("floatops", "x", "return (x + 1.5, x - 1, 1 - x, x * 2, x / 2, x == 1.0, x == 3, x != 0, x < 2, x >= -1.5, -x, abs(x), x // 2.0, x % 2.0, round(x, 1) if x == x and abs(x) < 1e300 else None)", [FLOATS + INTS[:12]]),
    ("cmpchain", "x, y", "return (x < y, x <= y, x > y, x >= y, x == y, x != y, 0 < x < y, x < 3 <= y, x is y, x in (1, 2, y), not x, x and y, x or y)", [INTS + FLOATS, INTS + FLOATS]),
    ("listidx", "l, i", "return l[i]", [LISTS + TUPS + STRS, IDX]),
    ("listconst", "l", "r = []\nfor f in (lambda s: s[0], lambda s: s[-1], lambda s: s[2], lambda s: s[-3], lambda s: s[9], lambda s: s[-10]):\n"
                       "    try:\n        r.append(f(l))\n    except IndexError as e:\n        r.append(('IndexError', str(e)))\nreturn r", [LISTS + TUPS + STRS]),
    ("slicing", "l, i, j", "return (l[i:], l[:j], l[i:j], l[::2], l[::-1], l[i:j:2], l[-2:], l[:-1], l[:])", [LISTS + TUPS + STRS, IDX[:14] + ["None"], IDX[:14] + ["None"]]),
    ("listmut", "l, i", "l = list(l)\nl.append(i)\nl.append(None)\nl.insert(1, 'z')\nl.extend((7, 8))\na = l.pop()\nb = l.pop(0)\nl += [i]\nl *= 2\nl[1] = 'w'\n"
                       "del l[0]\nl.reverse()\nreturn (l, a, b, len(l), l.count(i), l.index(i), i in l, l + [1], sorted(map(str, l)))", [LISTS + TUPS, IDX[:8] + STRS[:3]]),
    ("listpop", "l, i", "l = list(l)\ntry:\n    v = l.pop(i)\nexcept IndexError as e:\n    v = ('IndexError', str(e))\nreturn (v, l)", [LISTS + TUPS, IDX]),
    ("setitem", "l, i", "l = list(l)\ntry:\n    l[i] = 'S'\nexcept IndexError as e:\n    return ('IndexError', str(e), l)\ntry:\n    del l[i]\nexcept IndexError as e:\n    return ('IndexError2', str(e), l)\nreturn l", [LISTS, IDX]),
    ("unpack", "t", "try:\n    a, b, c = t\nexcept (ValueError, TypeError) as e:\n    return (type(e).__name__, str(e))\nx, *y = t\n*p, q = t\nreturn (a, b, c, x, y, p, q)", [LISTS + TUPS + STRS + ["iter([1, 2, 3])", "{1: 2, 3: 4, 5: 6}", "None", "range(3)"]]),
    ("tupleops", "t, u", "return (t + u, t * 2, len(t), t == u, t < u, hash(t) == hash(tuple(t)), t.count(1), u in t, tuple(reversed(t)), (*t, *u), [*t, 0])", [TUPS, TUPS]),
    ("strops", "s, t", "return (s + t, s * 2, len(s), s == t, s != t, s < t, t in s, s.upper(), s.lower(), s.strip(), s.split(','), s.startswith(t), s.endswith(t), s.find(t), "
                       "s.replace(t, '-') if t else s, s.join(['x', 'y', 'z']), s.encode('utf-8'), s.isalpha(), s.isdigit(), s.title(), s.center(9, '*'), s.partition(','))", [STRS, STRS]),
    ("strstart", "s, t, i", "return (s.startswith(t, i), s.endswith(t, 0, i), s.startswith((t, 'a')), s.find(t, i), s.rfind(t), s.count(t) if t else 0, s.index(t) if t in s else -1)", [STRS, STRS, IDX[:12]]),
    ("stridx", "s, i", "try:\n    c = s[i]\nexcept IndexError as e:\n    return ('IndexError', str(e))\nreturn (c, ord(c), c * 2, c in s, c == 'a', c != 'b')", [STRS, IDX]),
    ("strfmt", "s, x", "return ('%s|%r|%5s|%-5s|' % (s, s, s, s), '%s=%s' % (s, x), f'{s}{x}', f'{s!r:>12}|{x!s:<6}|{x:5}' if isinstance(x, int) else f'{s!a}', "
                       "'{}-{}'.format(s, x), '{0!r}{1}'.format(s, x), s.format(x, x) if '{' in s else s % (s, 3) if '%s-%d' == s else s, str(x) + s, ','.join([s, s, str(x)]))", [STRS, INTS[:20] + FLOATS[:5] + OBJS]),
    ("strbuild", "s, n", "r = ''\nfor i in range(n % 7):\n    r += s + str(i)\nparts = [s] * (n % 5)\nreturn (r, ''.join(parts), '-'.join(parts), s.join(parts), f'{s}{n}{s}', len(r))", [STRS, INTS[:14]]),
    ("bytesops", "s, i", "b = s.encode('utf-8')\ntry:\n    c = b[i]\nexcept IndexError as e:\n    c = ('IndexError', str(e))\nreturn (b, c, b + b'x', b * 2, b[1:], b[:i], b.decode('utf-8'), b.startswith(b'a'), bytearray(b), len(b), b'a' in b, b.hex())", [STRS, IDX[:12]]),
    ("dictops", "d, k", "d = dict(d)\na = d.get(k)\nb = d.get(k, 'dflt')\nc = d.setdefault(k, 5)\nd['new'] = 1\ne = d.pop('new')\nf = d.pop('nokey', None)\nd.update(x=1)\n"
                        "return (a, b, c, e, f, k in d, len(d), sorted(map(repr, d)), sorted(map(repr, d.items())), d[k], {**d, 'z': 0} == d, list(d.keys())[:2], dict(d, q=2) != d)", [DICTS, ["'a'", "1", "(1, 2)", "None", "'zz'", "2.5"]]),
    ("dictmiss", "d, k", "try:\n    return d[k]\nexcept KeyError as e:\n    return ('KeyError', e.args)\nexcept TypeError as e:\n    return ('TypeError', str(e))", [DICTS + LISTS[:3], ["'a'", "1", "'zz'", "[1]", "None", "0"]]),
    ("setops", "a, b", "s = set(a)\nt = set(b)\ns.add(99)\ns.discard(1)\nreturn (sorted(map(repr, s | t)), sorted(map(repr, s & t)), sorted(map(repr, s - t)), 99 in s, len(s), s == t, s <= t, frozenset(s) == s)", [LISTS[:5] + TUPS, LISTS[:5] + TUPS]),
    ("methcall", "v, a", "b = Box(v)\nf = b.m2\ng = b.m3\nreturn (b.m0(), b.m1(a), b.m2(a, v), f(v, a), g(a), g(a, v), g(a, v, 1, 2), g(a, d=v), g(a, b=a, d=v, z=1), g(*[a, v]), g(a, **{'q': v}), "
                         "Box.m1(b, a), len(b), b[a], b == Box(v), b.cls_attr, getattr(b, 'v'), getattr(b, 'nope', a))", [INTS[:10] + STRS[:4], INTS[:8] + STRS[:3] + OBJS]),
    ("calls", "a, b", "def f0():\n    return 'f0'\ndef f1(x):\n    return ('f1', x)\ndef f2(x, y=2, *z, k=3, **kw):\n    return ('f2', x, y, z, k, sorted(kw.items()))\n"
                      "return (f0(), f1(a), f1(x=b), f2(a), f2(a, b), f2(a, b, a, b), f2(a, k=b), f2(x=a, y=b, k=1, m=2), f2(*(a, b)), f2(a, **{'k': b}), (lambda p, q=b: (p, q))(a), max(a, b) if type(a) is type(b) and a == a else None, isinstance(a, int), type(a).__name__)", [INTS[:12] + STRS[:3], INTS[:12] + STRS[:3]]),
    ("callerr", "a", "def f2(x, y=2, *, k=3):\n    return (x, y, k)\nr = []\nfor args, kw in (((), {}), ((a, a, a), {}), ((a,), {'z': 1}), ((a,), {'x': 2}), ((), {'k': 1})):\n"
                     "    try:\n        r.append(f2(*args, **kw))\n    except TypeError as e:\n        r.append(('TypeError', str(e)))\nreturn r", [INTS[:6] + STRS[:2]]),
    ("builtins", "l", "r = []\nfor f in (len, sum, min, max, sorted, list, tuple, set, bool, any, all, repr, reversed, enumerate, iter, abs):\n"
                      "    try:\n        v = f(l)\n        r.append(list(v) if f in (reversed, enumerate, iter) else sorted(map(repr, v)) if f is set else v)\n    except Exception as e:\n        r.append((type(e).__name__, str(e)))\nreturn r", [LISTS + TUPS + STRS[:5] + DICTS + INTS[:4] + OBJS]),
    ("globals_", "x", "global GLOB\na = GLOB\nGLOB = x\nb = GLOB\nGLOB = 10\nc = GLOB\nBox.cls_attr = x\nd = Box(1).cls_attr\nBox.cls_attr = 7\ne = Box(1).cls_attr\no = Box(2)\no.cls_attr = x\nreturn (a, b, c, d, e, o.cls_attr, Box.cls_attr, len.__name__)", [INTS[:10] + STRS[:3]]),
    ("exc", "x", "r = []\ntry:\n    try:\n        if x == 0:\n            raise MyErr(x)\n        if x == 1:\n            raise ValueError('v', x)\n        if x == 2:\n            r.append(1 // (x - 2))\n        if x == 3:\n            r.append([1][x])\n        if x == -1:\n            r.append({}['k'])\n        r.append('no error')\n"
                 "    except MyErr as e:\n        r.append(('MyErr', e.args))\n        raise\n    except (ValueError, KeyError) as e:\n        r.append((type(e).__name__, e.args))\n        raise RuntimeError('wrapped') from e\n    finally:\n        r.append('fin')\n"
                 "except Exception as e:\n    r.append((type(e).__name__, e.args, type(e.__cause__).__name__, type(e.__context__).__name__, e.__traceback__ is not None))\nelse:\n    r.append('else')\nreturn r", [INTS[:12]]),
    ("excstate", "x", "import sys\nr = []\ntry:\n    raise MyErr(x)\nexcept MyErr:\n    r.append(sys.exc_info()[0].__name__)\n    try:\n        raise KeyError(x)\n    except KeyError:\n        r.append(sys.exc_info()[0].__name__)\n    r.append(sys.exc_info()[0].__name__)\nr.append(sys.exc_info()[0])\n"
                      "def g():\n    try:\n        yield 1\n        raise ValueError(x)\n    except ValueError:\n        yield sys.exc_info()[0].__name__\n    yield sys.exc_info()[0]\ntry:\n    raise TypeError(x)\nexcept TypeError:\n    r.append([v for v in g()])\nreturn r", [INTS[:6]]),
    ("gens", "n", "def g(k):\n    for i in range(k % 6):\n        got = yield i\n        if got:\n            yield ('got', got)\n    return 'done'\ndef outer(k):\n    res = yield from g(k)\n    yield ('res', res)\n"
                  "a = list(g(n))\nb = list(outer(n))\nit = g(n + 2)\nc = [next(it), it.send('s'), next(it, 'end')]\nit.close()\nd = sum(i * i for i in range(n % 9))\ne = {i: j for i, j in zip(range(n % 4), 'abcd')}\n"
                  "async def co(v):\n    return v + 1\nk = co(n % 5)\ntry:\n    k.send(None)\nexcept StopIteration as s:\n    f = s.value\nreturn (a, b, c, d, e, f)", [INTS[:14]]),
    ("closures", "n", "def mk(i):\n    def add(j):\n        nonlocal i\n        i += j\n        return i\n    return add\nfs = [mk(i) for i in range(n % 5)]\nreturn ([f(1) for f in fs], [f(n % 3) for f in fs], [(lambda q=i: q * 2)() for i in range(n % 4)])", [INTS[:12]]),
    ("classes", "x", "class A:\n    def __init__(self, v):\n        self.v = v\n    def __repr__(self):\n        return 'A(%r)' % (self.v,)\n    def __add__(self, o):\n        return A((self.v, getattr(o, 'v', o)))\n    def __radd__(self, o):\n        return A((o, self.v))\n    def __bool__(self):\n        return bool(self.v)\n    def __iter__(self):\n        return iter((self.v, self.v))\n"
                     "class B(A):\n    __slots__ = ('w',)\n    def __init__(self, v):\n        super().__init__(v)\n        self.w = v\n    @property\n    def p(self):\n        return ('p', self.w)\n    @staticmethod\n    def s(q):\n        return ('s', q)\n    @classmethod\n    def c(cls, q):\n        return (cls.__name__, q)\n"
                     "a = A(x)\nb = B(x)\nreturn (repr(a + b), repr(1 + a), repr(b + 2), bool(a), list(b), b.p, B.s(x), b.c(x), isinstance(b, A), type(b).__mro__[1].__name__, hasattr(b, 'zz'), repr(sum([A(1), A(2)], A(0))))", [INTS[:10] + STRS[:3]]),
    ("finalize", "n", "f = Fin(n)\ng = Fin((n, 2))\ndel f\nh = [Fin('l%d' % i) for i in range(n % 3)]\ndel h\nreturn list(LOG)", [INTS[:8]]),
    ("importing", "x", "import math\nfrom math import floor, ceil\nimport os.path as osp\nreturn (math.floor(x / 2), floor(x / 3), ceil(x / 3), osp.basename('/a/b%s' % (x,)), math.gcd(x, 12), math.isqrt(abs(x)))", [INTS[:20]]),
    ("manyconst", "x", "t = ('alpha', 'beta', 'gamma', 'delta', 'epsilon', 'zeta', 'eta', 'theta', 'iota', 'kappa', 'lambda', 'mu', 'nu', 'xi', 'omicron', 'pi', 'rho', 'sigma', 'tau', 'upsilon', "
                       "b'bytes-one', b'bytes-two', '\\xe9l\\xe8ve', '\\u4e2d\\u6587\\u5b57', '\\U0001f600', 'x' * 3, 1234567890123456789012345678901234567890, -98765432109876543210, 1.25e-7, 2.5j, (1, 2, (3, 'four')), frozenset({1, 2}), None, ..., True)\n"
                       "return (t[x % len(t)], t[-(x % len(t)) - 1], len(t), t.index('pi'), 'sigma' in t, {k: i for i, k in enumerate(t[:6])})", [INTS[:25]]),
]


@st.composite
def item(draw, index, ncases):
    name, params, body, pools = KERNELS[index]
    fname = "k_%s" % name
    src = "def %s(%s):\n%s\n" % (fname, params, "\n".join("    " + ln for ln in body.split("\n")))
    cases = []
    seen = set()
    for _ in range(ncases * 2):
        args = ", ".join(draw(st.sampled_from(p)) for p in pools)
        if args not in seen:
            seen.add(args)
            cases.append({"expr": "M.%s(%s)" % (fname, args)})
        if len(cases) >= ncases:
            break
    return {"src": src, "cases": cases, "meta": {"features": [name], "kernel": name}}


def draw_items(k, seed, parts, prefix, ncases=14):
    """One item per kernel (k is ignored: the kernel list is fixed); arguments are Hypothesis-drawn from boundary pools."""
    from vlib import hyp
    out = []
    for i in range(len(KERNELS)):
        out.append(hyp.draw_many(item(i, ncases), 2, seed, "cfgk", i, *parts)[-1])
    return out
