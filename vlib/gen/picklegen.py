"""C29 generator: cdef classes with typed attributes for auto-pickle round trips, plus a Python mirror.

Class IR (JSON-able):
  {"name": "K3", "levels": [[attr, ...], [attr, ...]],     # base-first attribute lists (1 or 2 levels)
   "dict": bool,            # `cdef dict __dict__` on the most derived cdef class
   "cinit": bool,           # defines __cinit__  -> pickling must raise TypeError
   "auto_pickle": None|True|False,
   "pysub": bool,           # a Python subclass P<name>(K) whose instances carry an instance __dict__
   "variant": None | {"kind": "add|remove|rename|reorder|retype", "attrs": [...]}}  # K<name>x: changed layout
  attr = {"name": "a0", "type": <key of TYPES>, "vis": "public|readonly|private"}
"""
from hypothesis import strategies as st

from .uni import chance, irange, pick

# type key -> (pyx declaration type, value literals)
TYPES = {
    "char": ("char", ["0", "1", "-128", "127"]),
    "short": ("short", ["0", "-32768", "32767", "5"]),
    "int": ("int", ["0", "-1", "2147483647", "-2147483648", "42"]),
    "uint": ("unsigned int", ["0", "4294967295", "7"]),
    "longlong": ("long long", ["0", "-9223372036854775808", "9223372036854775807", "123456789012"]),
    "ssize": ("Py_ssize_t", ["0", "-5", "9223372036854775807"]),
    "double": ("double", ["0.0", "-0.0", "1.5", "1e300", "float('inf')", "-2.5e-300"]),
    "float": ("float", ["0.5", "-1.25", "0.0", "1024.0"]),
    "bint": ("bint", ["True", "False"]),
    "object": ("object", ["None", "1", "'x'", "(1, 2)", "[1]", "{'k': 1}", "2.5", "10**30"]),
    "str": ("str", ["''", "'abc'", "'\\xe9\\u20ac'", "None"]),
    "bytes": ("bytes", ["b''", "b'a\\x00b'", "None"]),
    "list": ("list", ["[]", "[1, [2]]", "None", "['s', None]"]),
    "dict": ("dict", ["{}", "{'a': [1]}", "None"]),
    "tuple": ("tuple", ["()", "(1, 'a')", "None"]),
    "cls": ("Leaf", ["None", "M.Leaf(3)", "M.Leaf(-7)"]),
    "struct": ("SPair", ["{'x': 1, 'y': 2.5}", "{'x': -3, 'y': 0.0}"]),
    "ptr": ("int*", []),
}
PLAIN = [t for t in TYPES if t not in ("struct", "ptr")]
RETYPE = {"int": "double", "double": "object", "object": "list", "str": "object", "short": "longlong",
          "list": "object", "uint": "int", "char": "int", "longlong": "double", "bint": "int", "float": "double",
          "ssize": "int", "bytes": "object", "dict": "object", "tuple": "object", "cls": "object"}

HEADER_PYX = '''cimport cython

cdef struct SPair:
    int x
    double y


cdef class Leaf:
    cdef public int n
    def __init__(self, n=0):
        self.n = n
    def _state(self):
        return (("n", self.n),)
    def _extras(self):
        return []
    def __canon__(self):
        return ("Leaf", self.n)

'''
HEADER_PY = '''
class Leaf:
    def __init__(self, n=0):
        self.n = n
    def _state(self):
        return (("n", self.n),)
    def _extras(self):
        return []
    def __canon__(self):
        return ("Leaf", self.n)

'''

# helpers exec'd in the runner namespace (both for the compiled module and for the Python mirror)
SETUP = '''
import pickle, copy

def attrs(o):
    return (type(o).__name__, o._state(), o._extras())

def withattr(o, **kw):
    for k, v in kw.items():
        setattr(o, k, v)
    return o

def rt(o, how, proto=None):
    if how == "pickle":
        r = pickle.loads(pickle.dumps(o, proto))
    elif how == "copy":
        r = copy.copy(o)
    elif how == "deepcopy":
        r = copy.deepcopy(o)
    else:
        # NB: __reduce_cython__/__setstate_cython__ are renamed to __reduce__/__setstate__ at type creation
        red = o.__reduce_ex__(2)
        r = red[0](*red[1])
        if len(red) > 2 and red[2] is not None:
            if hasattr(r, "__setstate__"):
                r.__setstate__(red[2])
            else:
                r.__dict__.update(red[2])
    return (r is not o, attrs(o), attrs(r))

def cross(o, mod, other):
    """Feed the pickle data of `o` (checksum + state) to the unpickle function of class `other`."""
    red = o.__reduce__()
    cls = getattr(mod, other)
    f = getattr(mod, "__pyx_unpickle_" + other)
    r = f(cls, red[1][1], red[1][2])
    if len(red) > 2 and red[2] is not None:
        r.__setstate__(red[2])
    return (attrs(o), attrs(r))
'''


@st.composite
def attr_list(draw, prefix, n, allow_special):
    out = []
    for i in range(n):
        pool = PLAIN
        if allow_special and chance(draw, 0.04):
            pool = ["struct", "ptr"]
        t = pick(draw, pool)
        out.append({"name": "%s%d" % (prefix, i), "type": t,
                    "vis": pick(draw, ["public", "public", "readonly", "private"])})
    return out


@st.composite
def pickle_class(draw):
    nlev = pick(draw, [1, 1, 2])
    levels = []
    for lv in range(nlev):
        n = irange(draw, 0 if nlev == 2 else 1, 4)
        # names interleave across levels so that sorting by name mixes inherited and own members
        levels.append(draw(attr_list("ab"[lv] if chance(draw, 0.5) else "ba"[lv], n, True)))
    if nlev == 2 and levels[0] and levels[1] and levels[0][0]["name"][0] == levels[1][0]["name"][0]:
        for a in levels[1]:
            a["name"] = "c" + a["name"][1:]
    c = {"name": "K0", "levels": levels, "dict": chance(draw, 0.12),
         "cinit": chance(draw, 0.01),
         "auto_pickle": pick(draw, [None, None, None, None, True, True, False]),
         "pysub": chance(draw, 0.35), "variant": None}
    flat = all_attrs(c)
    special = any(a["type"] in ("struct", "ptr") for a in flat)
    if flat and not special and not c["cinit"] and c["auto_pickle"] is not False and chance(draw, 0.5):
        kind = pick(draw, ["add", "remove", "rename", "reorder", "retype"])
        attrs = [dict(a) for a in flat]
        if kind == "add":
            attrs.insert(irange(draw, 0, len(attrs)), {"name": "zz", "type": "int", "vis": "public"})
        elif kind == "remove":
            if len(attrs) < 2:
                kind = "rename"
            else:
                del attrs[irange(draw, 0, len(attrs) - 1)]
        if kind == "rename":
            attrs[irange(draw, 0, len(attrs) - 1)]["name"] += "r"
        elif kind == "reorder":
            attrs = list(reversed(attrs))
        elif kind == "retype":
            a = attrs[irange(draw, 0, len(attrs) - 1)]
            a["type"] = RETYPE.get(a["type"], "object")
        c["variant"] = {"kind": kind, "attrs": attrs}
    return c


def all_attrs(c):
    return [a for lv in c["levels"] for a in lv]


def expected_unpicklable(c):
    """Transcription of _inject_pickle_methods: reason string if pickling must raise TypeError, else None."""
    flat = all_attrs(c)
    if c["auto_pickle"] is False:
        return "auto_pickle-off"
    if c["cinit"]:
        return "cinit"
    if any(a["type"] == "ptr" for a in flat):
        return "non-convertible-member"
    if any(a["type"] == "struct" for a in flat) and c["auto_pickle"] is not True:
        return "struct-without-optin"
    return None


def compile_error_expected(c):
    """auto_pickle(True) on a class that cannot be pickled is a compile-time error (documented by the error() call)."""
    return c["auto_pickle"] is True and (c["cinit"] or any(a["type"] == "ptr" for a in all_attrs(c)))


# ---------------------------------------------------------------- rendering

def _decl(a):
    vis = {"public": "public ", "readonly": "readonly ", "private": ""}[a["vis"]]
    if a["type"] in ("ptr", "struct"):
        vis = ""
    return "    cdef %s%s %s" % (vis, TYPES[a["type"]][0], a["name"])


def _klass(name, base, own, inherited, pyx, cdef, c, decorate=True, is_variant=False):
    out = []
    if pyx and cdef and c["auto_pickle"] is not None:
        out.append("@cython.auto_pickle(%s)" % c["auto_pickle"])
    out.append("%s %s%s:" % ("cdef class" if (pyx and cdef) else "class", name, "(%s)" % base if base else ""))
    body = []
    if pyx and cdef:
        for a in own:
            body.append(_decl(a))
        if c["dict"] and not is_variant and decorate:
            body.append("    cdef dict __dict__")
        if c["cinit"] and not is_variant and decorate:
            body += ["    def __cinit__(self, *args):", "        pass"]
    settable = [a for a in inherited + own if a["type"] != "ptr"]
    if cdef:
        body.append("    def __init__(self%s):" % "".join(", " + a["name"] for a in settable))
        body += ["        self.%s = %s" % (a["name"], a["name"]) for a in settable] or ["        pass"]
        body.append("    def _state(self):")
        body.append("        return (%s)" % "".join("(%r, self.%s), " % (a["name"], a["name"]) for a in settable))
        names = tuple(a["name"] for a in settable)
        body.append("    def _extras(self):")
        body.append("        return sorted((k, v) for k, v in getattr(self, '__dict__', {}).items() if k not in %r)" % (names,))
        body.append("    def __canon__(self):")
        body.append("        return (self._state(), self._extras())")
    if not body:
        body = ["    pass"]
    return out + body + [""]


def render_class(c, pyx):
    n = c["name"]
    out = []
    levels = c["levels"]
    if len(levels) == 2:
        out += _klass(n + "b", None, levels[0], [], pyx, True, c, decorate=False)
        out += _klass(n, n + "b", levels[1], levels[0], pyx, True, c)
    else:
        out += _klass(n, None, levels[0], [], pyx, True, c)
    if c["pysub"]:
        out += _klass("P" + n, n, [], all_attrs(c), pyx, False, c)
    if c["variant"] and pyx:
        vc = dict(c, auto_pickle=None)
        out += _klass(n + "x", None, c["variant"]["attrs"], [], pyx, True, vc, is_variant=True)
    return "\n".join(out) + "\n"


def render_module(classes, pyx):
    return (HEADER_PYX if pyx else HEADER_PY) + "\n".join(render_class(c, pyx) for c in classes)


# ---------------------------------------------------------------- cases

@st.composite
def value_sets(draw, c, n=2):
    sets = []
    for _ in range(n):
        sets.append([pick(draw, TYPES[a["type"]][1]) for a in all_attrs(c) if a["type"] != "ptr"])
    return sets


def class_cases(c, valsets):
    """-> list of {"expr", "how", "target": "K|P|dict|layout"}"""
    n = c["name"]
    cases = []
    hows = [("pickle", p) for p in range(6)] + [("copy", None), ("deepcopy", None), ("reduce", None)]
    for vi, vals in enumerate(valsets):
        inst = "M.%s(%s)" % (n, ", ".join(vals))
        for how, proto in (hows if vi == 0 else hows[2::3]):
            arg = "%r, %r" % (how, proto) if proto is not None else "%r" % how
            cases.append({"expr": "rt(%s, %s)" % (inst, arg), "how": "%s%s" % (how, "" if proto is None else proto),
                          "target": "K"})
            if c["pysub"]:
                pinst = "withattr(M.P%s(%s), extra=[1, 'e'], other=None)" % (n, ", ".join(vals))
                cases.append({"expr": "rt(%s, %s)" % (pinst, arg), "how": "%s%s" % (how, "" if proto is None else proto),
                              "target": "P"})
            if c["dict"]:
                dinst = "withattr(%s, extra={'d': 1})" % inst
                cases.append({"expr": "rt(%s, %s)" % (dinst, arg), "how": "%s%s" % (how, "" if proto is None else proto),
                              "target": "dict"})
        if c["variant"]:
            cases.append({"expr": "cross(%s, M, %r)" % (inst, n + "x"), "how": "cross", "target": "layout"})
    return cases
