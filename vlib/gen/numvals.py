"""Numeric operand value expressions (strings evaluated in the runner) for the kernel-table checks.

Every entry is (expr, tags) where tags is a set of strings:
  int / float / bool          exact builtin type
  intsub / floatsub           subclass instances (vsupport.IntSub, ...)
  other                       anything else (Fraction, Decimal, complex, None, str, ...)
  seq                         sequence operand (x * big_int would allocate: excluded for big constants)
  small                       int with |v| <= 200 (safe as shift count / repeat count)
"""
from hypothesis import strategies as st

from .. import hyp


def int_expr(v):
    return repr(v) if abs(v) < 2 ** 64 else hex(v)


def boundary_ints():
    vals = set([0, 1, -1, 2, -2, 3, -3, 5, -5, 7, -7, 10, -10, 63, 64, 65, 100, 200, -200, 255, -255, 256, -256, 1000])
    for k in range(1, 6):
        for d in (-1, 0, 1):
            for base in (2 ** (15 * k), 2 ** (30 * k)):
                vals.add(base + d)
                vals.add(-(base + d))
    for e in (31, 32, 53, 62, 63, 64):
        for d in (-1, 0, 1):
            vals.add(2 ** e + d)
            vals.add(-(2 ** e + d))
    vals.update([2 ** 29, -(2 ** 29), 2 ** 29 + 1, 2 ** 30 + 2 ** 29, 3 * 2 ** 59, -(3 * 2 ** 59), 2 ** 61 - 1, -(2 ** 61) + 1,
                 0x7fffffff3fffffff, 0x3fffffffc0000000, -(0x3fffffffc0000000), 2 ** 200, -(2 ** 200), 10 ** 40 + 7,
                 (2 ** 30 - 1) << 30, ((2 ** 30 - 1) << 30) | (2 ** 30 - 1), 2 ** 52 + 1, 2 ** 54 + 2, -(2 ** 54 + 2)])
    return sorted(vals)


SPECIAL_FLOATS = ["0.0", "-0.0", "float('inf')", "float('-inf')", "float('nan')", "5e-324", "-5e-324",
                  "2.2250738585072014e-308", "-2.2250738585072014e-308", "1.7976931348623157e308",
                  "-1.7976931348623157e308", "0.5", "-0.5", "1.0", "-1.0", "1.5", "-1.5", "2.0", "3.0", "-3.0", "7.0", "10.0",
                  "0.1", "-0.1", "255.0", "256.0", "1e16", "-1e16", "1e308", "2.0**30", "2.0**30+0.5", "-(2.0**30)",
                  "2.0**53", "2.0**53+2", "-(2.0**53)", "2.0**62", "2.0**63", "-(2.0**63)", "2.0**64", "1e22", "1e23",
                  "32767.0", "32768.0", "1073741823.0", "1073741824.0", "1073741825.0", "-1073741824.0",
                  "4.5", "-4.0", "6.0", "1e-7", "123456789.125"]

SUBCLASS = [("S.IntSub(0)", {"intsub"}), ("S.IntSub(5)", {"intsub"}), ("S.IntSub(-5)", {"intsub"}),
            ("S.IntSub(2**30)", {"intsub"}), ("S.IntSub(2**62)", {"intsub"}), ("S.IntSub(-2**70)", {"intsub"}),
            ("S.FloatSub(1.5)", {"floatsub"}), ("S.FloatSub(0.0)", {"floatsub"}), ("S.FloatSub(-0.0)", {"floatsub"}),
            ("S.IntOv(5)", {"intsub"}), ("S.IntOv(0)", {"intsub"}), ("S.FloatOv(2.5)", {"floatsub"})]

OTHERS = [("Fraction(1, 3)", {"other"}), ("Fraction(-7, 2)", {"other"}), ("Fraction(0)", {"other"}),
          ("Decimal('1.5')", {"other"}), ("Decimal('0')", {"other"}), ("Decimal('-3')", {"other"}),
          ("(1+2j)", {"other"}), ("0j", {"other"}), ("None", {"other"}), ("''", {"other"}),
          ("'s'", {"other", "seq"}), ("b'ab'", {"other", "seq"}), ("(1, 2)", {"other", "seq"}), ("()", {"other"}),
          ("S.RAdd()", {"other"}), ("S.Plain()", {"other"}), ("int", {"other"})]


def int_tags(v):
    t = {"int"}
    if abs(v) <= 200:
        t.add("small")
    return t


def random_ints(n, seed, *parts):
    strat = st.one_of(
        st.integers(-2 ** 31, 2 ** 31),
        st.integers(-2 ** 64, 2 ** 64),
        st.integers(-2 ** 160, 2 ** 160),
        st.builds(lambda k, d, s: s * (2 ** k + d), st.integers(0, 130), st.integers(-3, 3), st.sampled_from([1, -1])),
    )
    return hyp.draw_many(strat, n + 1, seed, "numvals-int", *parts)[1:]


def random_floats(n, seed, *parts):
    strat = st.one_of(
        st.floats(allow_nan=False, allow_infinity=False),
        st.floats(-1e6, 1e6),
        st.builds(lambda i, h: float(i) + h, st.integers(-2 ** 33, 2 ** 33), st.sampled_from([0.0, 0.5, 0.25])),
        st.builds(lambda k, s: s * 2.0 ** k, st.integers(-1074, 1023), st.sampled_from([1.0, -1.0])),
    )
    return hyp.draw_many(strat, n + 1, seed, "numvals-float", *parts)[1:]


def float_expr(v):
    if v != v:
        return "float('nan')"
    if v in (float("inf"), float("-inf")):
        return "float('%s')" % ("inf" if v > 0 else "-inf")
    return "float.fromhex(%r)" % v.hex()


def operand_values(seed, n_random_int, n_random_float):
    """-> list of (expr, tags). Deterministic in seed."""
    out = []
    for v in boundary_ints():
        out.append((int_expr(v), int_tags(v)))
    seen = set(e for e, _ in out)
    for v in random_ints(n_random_int, seed):
        e = int_expr(v)
        if e not in seen:
            seen.add(e)
            out.append((e, int_tags(v)))
    out.append(("True", {"bool"}))
    out.append(("False", {"bool"}))
    for e in SPECIAL_FLOATS:
        out.append((e, {"float"}))
    for v in random_floats(n_random_float, seed):
        e = float_expr(v)
        if e not in seen:
            seen.add(e)
            out.append((e, {"float"}))
    out.extend(SUBCLASS)
    out.extend(OTHERS)
    return out


def ndigits30(v):
    v = abs(v)
    n = 1
    while v >= 2 ** 30:
        v >>= 30
        n += 1
    return n


TYPE_NAMES = {"None": "NoneType", "''": "str", "'s'": "str", "b'ab'": "bytes", "(1, 2)": "tuple", "()": "tuple", "int": "type",
              "(1+2j)": "complex", "0j": "complex"}


def type_name(expr):
    """Type name of an OTHERS/SUBCLASS operand expression (for bucket strings)."""
    if expr in TYPE_NAMES:
        return TYPE_NAMES[expr]
    head = expr.split("(")[0]
    return head.split(".")[-1] or "?"
