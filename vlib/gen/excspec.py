"""C32 generator: table of cdef/cpdef kernels (return type x exception specification) and caller contexts.

A kernel is  cdef <T> k<i>(int sel) <spec>:  with the run-time selector
   sel 0 -> return the normal value          sel 1 -> return sentinel candidate 1 (legitimately, no exception)
   sel 2 -> raise EXC(args)                  sel 3 -> return sentinel candidate 2 / zero
   (nogil kernels raise inside `with gil:`)
Caller contexts (all `def` entry points taking sel):
   A  def caller uses the result            B  through an intermediate cdef function that propagates
   D  through a function pointer            E  call as operand of `+ 1` (numeric)     F  result discarded
   C  call inside `with nogil:` (nogil kernels)                P  cpdef kernel called from Python
"""

EXC = ["ValueError", "('boom', 3)"]


def set_exc(name, args):
    EXC[0], EXC[1] = name, args

# name -> ctype, literals for [normal, sentinel1, sentinel2], python values of those, conv template, numeric?, default value
TYPES = {
    "int": dict(ctype="int", lits=["7", "-1", "0"], vals=[7, -1, 0], conv="{r}", numeric=True, default=0,
                clauses=["-1", "0", "5"]),
    "longlong": dict(ctype="long long", lits=["7000000000", "-1", "0"], vals=[7000000000, -1, 0], conv="{r}", numeric=True,
                     default=0, clauses=["-1"]),
    "uint": dict(ctype="unsigned int", lits=["7", "4294967295", "0"], vals=[7, 4294967295, 0], conv="{r}", numeric=True,
                 default=0, clauses=["0"]),
    "double": dict(ctype="double", lits=["2.5", "-1.0", "0.0"], vals=[2.5, -1.0, 0.0], conv="{r}", numeric=True, default=0.0,
                   clauses=["-1.0", "0.0"]),
    "bint": dict(ctype="bint", lits=["True", "False", "False"], vals=[True, False, False], conv="{r}", numeric=False,
                 default=False, clauses=[]),
    "ptr": dict(ctype="int*", lits=["&GLOBAL_INT", "NULL", "NULL"], vals=[True, False, False], conv="({r} != NULL)",
                numeric=False, default=False, clauses=["NULL"]),
    "struct": dict(ctype="SPair", lits=["SPair(3, 1.5)", "SPair(-1, -1.0)", "SPair(0, 0.0)"], vals=[3, -1, 0], conv="{r}.x",
                   numeric=False, default=None, clauses=[]),
    "void": dict(ctype="void", lits=["", "", ""], vals=[None, None, None], conv=None, numeric=False, default=None, clauses=[]),
    "object": dict(ctype="object", lits=["'obj'", "None", "0"], vals=["obj", None, 0], conv="{r}", numeric=False, default=None,
                   clauses=[]),
    "enum": dict(ctype="Color", lits=["GREEN", "NEG", "ZERO"], vals=[2, -1, 0], conv="<int>{r}", numeric=False, default=0,
                 clauses=["NEG"]),
}

HEADER = '''cimport cython

cdef struct SPair:
    int x
    double y

cdef enum Color:
    ZERO = 0
    RED = 1
    GREEN = 2
    NEG = -1

cdef int GLOBAL_INT = 5

'''

SETUP = '''
import sys
UNR = []
def _hook(u):
    UNR.append(type(u.exc_value).__name__ if u.exc_value is not None else getattr(u.exc_type, "__name__", "?"))
sys.unraisablehook = _hook
def unr(f, *a):
    del UNR[:]
    try:
        r = f(*a)
    except BaseException as e:
        return ("raised", type(e).__name__, e.args, list(UNR))
    return ("ok", r, list(UNR))
'''


def kernels(legacy=False):
    """-> list of kernel dicts {"id", "type", "spec": kind, "clause": text, "nogil": bool, "cpdef": bool, "sels": [...]}"""
    out = []

    def add(t, kind, clause, nogil=False, cpdef=False, skip_sel=()):
        k = {"id": "k%d" % len(out), "type": t, "spec": kind, "clause": clause, "nogil": nogil, "cpdef": cpdef,
             "sels": [s for s in (0, 1, 2, 3) if s not in skip_sel]}
        out.append(k)

    for t, d in TYPES.items():
        add(t, "implicit", "")
        if t == "object":
            add(t, "implicit", "", cpdef=True)
            continue
        for v in d["clauses"]:
            # `except V`: returning V without an exception is the caller's bug -> that selector is not generated
            skip = tuple(s for s, lit in ((1, d["lits"][1]), (3, d["lits"][2])) if _same(lit, v))
            add(t, "exceptV", "except %s" % v, skip_sel=skip)
            add(t, "exceptqV", "except? %s" % v)
        add(t, "exceptstar", "except *")
        add(t, "noexcept", "noexcept")
        add(t, "noexcept", "noexcept nogil", nogil=True)
        add(t, "exceptstar", "except * nogil", nogil=True)
        if d["clauses"]:
            add(t, "exceptqV", "except? %s nogil" % d["clauses"][0], nogil=True)
        if t in ("int", "double", "void"):
            add(t, "implicit", "", cpdef=True)
            add(t, "exceptstar", "except *", cpdef=True)
            if d["clauses"]:
                add(t, "exceptqV", "except? %s" % d["clauses"][0], cpdef=True)
    return out


def _same(lit, v):
    try:
        return float(lit) == float(v)
    except ValueError:
        return lit == v


def render_kernel(k):
    d = TYPES[k["type"]]
    kw = "cpdef" if k["cpdef"] else "cdef"
    lines = ["%s %s %s(int sel) %s:" % (kw, d["ctype"], k["id"], k["clause"])]
    raise_stmt = "raise %s%s" % tuple(EXC)
    if k["nogil"]:
        lines += ["    if sel == 2:", "        with gil:", "            " + raise_stmt]
    else:
        lines += ["    if sel == 2:", "        " + raise_stmt]
    if k["type"] == "void":
        lines += ["    return"]
    else:
        if 1 in k["sels"]:
            lines += ["    if sel == 1:", "        return %s" % d["lits"][1]]
        if 3 in k["sels"]:
            lines += ["    if sel == 3:", "        return %s" % d["lits"][2]]
        lines += ["    return %s" % d["lits"][0]]
    return lines


def contexts(k):
    d = TYPES[k["type"]]
    ctx = ["A", "B", "F"]
    if d["numeric"]:
        ctx.append("E")
    if k["clause"] and not k["cpdef"]:
        ctx.append("D")
    if k["nogil"]:
        ctx.append("C")
    if k["cpdef"]:
        ctx.append("P")
    return ctx


def render_callers(k):
    d = TYPES[k["type"]]
    T, kid = d["ctype"], k["id"]
    conv = d["conv"]
    lines = []

    def use(call, indent="    "):
        """statements that evaluate `call` and return the converted result"""
        if k["type"] == "void":
            return [indent + call, indent + "return None"]
        return [indent + "cdef %s r = %s" % (T, call), indent + "return " + conv.format(r="r")]

    lines += ["def A_%s(int sel):" % kid] + use("%s(sel)" % kid)
    # B: intermediate cdef function with the implicit (propagating) specification
    lines += ["cdef %s b_%s(int sel):" % (T, kid)]
    lines += (["    %s(sel)" % kid] if k["type"] == "void" else ["    return %s(sel)" % kid])
    lines += ["def B_%s(int sel):" % kid] + use("b_%s(sel)" % kid)
    lines += ["def F_%s(int sel):" % kid, "    %s(sel)" % kid, "    return 'done'"]
    if "E" in contexts(k):
        lines += ["def E_%s(int sel):" % kid, "    return %s(sel) + 1" % kid]
    if "D" in contexts(k):
        lines += ["def D_%s(int sel):" % kid, "    cdef %s (*fp)(int) %s" % (T, k["clause"]), "    fp = %s" % kid] + use("fp(sel)")
    if "C" in contexts(k):
        lines += ["def C_%s(int sel):" % kid]
        if k["type"] == "void":
            lines += ["    with nogil:", "        %s(sel)" % kid, "    return None"]
        else:
            lines += ["    cdef %s r" % T, "    with nogil:", "        r = %s(sel)" % kid, "    return " + conv.format(r="r")]
    return lines


def render_module(ks):
    out = [HEADER]
    for k in ks:
        out.append("\n".join(render_kernel(k) + render_callers(k)) + "\n")
    return "\n".join(out)


def swallows(k, legacy):
    return k["spec"] == "noexcept" or (legacy and k["spec"] == "implicit" and k["type"] != "object")


def expected(k, ctx, sel, legacy=False):
    """Rule table -> expected python value of unr(...):  ("ok", result|ANY, [unraisable]) or ("raised", type, args, [])"""
    d = TYPES[k["type"]]
    if sel == 2:
        if swallows(k, legacy) or (ctx == "B" and legacy and k["type"] != "object"):
            if ctx == "F":
                res = "done"
            elif k["type"] == "struct":
                res = ANY                   # value of an uninitialised struct is unspecified
            elif ctx == "E":
                res = d["default"] + 1
            else:
                res = d["default"]
            return ("ok", res, [EXC[0]])
        return ("raised", EXC[0], eval(EXC[1]), [])
    v = d["vals"][{0: 0, 1: 1, 3: 2}[sel]]
    if ctx == "F":
        v = "done"
    elif ctx == "E":
        v = v + 1
        if k["type"] == "uint":
            v %= 2 ** 32                    # C unsigned arithmetic
    elif ctx == "P" and k["type"] == "void":
        v = None
    return ("ok", v, [])


class _Any:
    def __repr__(self):
        return "ANY"


ANY = _Any()


# ---------------------------------------------------------------- C++ `except +` table (cplus module)

CPP_THROWS = [   # (selector, C++ throw expression, documented Python type, message preserved?)
    (1, "std::bad_alloc()", "MemoryError", None), (2, "std::bad_cast()", "TypeError", None),
    (3, "std::bad_typeid()", "TypeError", None), (4, 'std::domain_error("dom")', "ValueError", "dom"),
    (5, 'std::invalid_argument("inv")', "ValueError", "inv"), (6, 'std::ios_base::failure("iof")', "OSError", None),
    (7, 'std::out_of_range("oor")', "IndexError", "oor"), (8, 'std::overflow_error("ovf")', "OverflowError", "ovf"),
    (9, 'std::range_error("rng")', "ArithmeticError", "rng"), (10, 'std::underflow_error("unf")', "ArithmeticError", "unf"),
    (11, 'std::runtime_error("rte")', "RuntimeError", "rte"), (12, 'std::logic_error("lge")', "RuntimeError", "lge"),
    (13, "Custom()", "RuntimeError", None), (14, "42", "RuntimeError", None),
]

CPP_SRC = '''# distutils: language = c++
cdef int handler() except *:
    raise KeyError("handled")

cdef int handler_noraise():
    return 0

cdef extern from *:
    """
    #include <stdexcept>
    #include <new>
    #include <typeinfo>
    #include <ios>
    struct Custom { int x; };
    static int thrower(int k) {
        switch (k) {
%(cases)s
        }
        return k * 2;
    }
    static double throwerd(int k) { return (double) thrower(k); }
    static void throwerv(int k) { thrower(k); }
    """
    int t_plus "thrower"(int k) except +
    int t_val "thrower"(int k) except +ValueError
    int t_mem "thrower"(int k) except +MemoryError
    int t_h "thrower"(int k) except +handler
    int t_hn "thrower"(int k) except +handler_noraise
    double td_plus "throwerd"(int k) except +
    void tv_plus "throwerv"(int k) except +
    int t_plus_nogil "thrower"(int k) except + nogil

def cp_plus(int k):
    return t_plus(k)

def cp_val(int k):
    return t_val(k)

def cp_mem(int k):
    return t_mem(k)

def cp_h(int k):
    return t_h(k)

def cp_hn(int k):
    return t_hn(k)

def cp_d(int k):
    return td_plus(k)

def cp_v(int k):
    tv_plus(k)
    return "done"

def cp_operand(int k):
    return t_plus(k) + 1

def cp_nogil(int k):
    cdef int r
    with nogil:
        r = t_plus_nogil(k)
    return r

cdef int cp_mid(int k) except? -1:
    return t_plus(k)

def cp_via_cdef(int k):
    return cp_mid(k)
'''


def cpp_source():
    cases = "\n".join("            case %d: throw %s;" % (sel, expr) for sel, expr, _, _ in CPP_THROWS)
    return CPP_SRC % {"cases": cases}


def cpp_cases():
    """-> [{"expr", "fn", "sel", "want": ("ok", value) | ("exc", type name, message or None)}]"""
    out = []
    fns = {"cp_plus": "table", "cp_d": "table", "cp_v": "table", "cp_operand": "table", "cp_nogil": "table",
           "cp_via_cdef": "table", "cp_val": "ValueError", "cp_mem": "MemoryError", "cp_h": "KeyError",
           "cp_hn": "RuntimeError"}
    for fn, mode in fns.items():
        ok = {"cp_d": 14.0, "cp_v": "done", "cp_operand": 15}.get(fn, 14)
        out.append({"expr": "unr(M.%s, 7 + 0)" % fn if False else "unr(M.%s, 0)" % fn, "fn": fn, "sel": 0,
                    "want": ("ok", {"cp_d": 0.0, "cp_v": "done", "cp_operand": 1}.get(fn, 0))})
        out.append({"expr": "unr(M.%s, 20)" % fn, "fn": fn, "sel": 20,
                    "want": ("ok", {"cp_d": 40.0, "cp_v": "done", "cp_operand": 41}.get(fn, 40))})
        for sel, expr, pytype, msg in CPP_THROWS:
            if mode == "table":
                want = ("exc", pytype, msg)
            elif mode == "KeyError":
                want = ("exc", "KeyError", "handled")
            elif mode == "RuntimeError":
                want = ("exc", "RuntimeError", None)
            else:
                want = ("exc", mode, msg)
            out.append({"expr": "unr(M.%s, %d)" % (fn, sel), "fn": fn, "sel": sel, "want": want, "throws": expr})
    return out
