"""C14 generator: loop skeletons x body templates for the loops Cython rewrites (range with literal / run-time
bounds and steps and typed or untyped targets, reversed(range), enumerate, reversed(seq), dict/keys/values/items of
typed and untyped dicts, dict subclasses and other mappings, sets, str, bytes, bytearray, nested unpacking
targets), with break / continue at a chosen iteration, else clauses, assignment to the loop variable, modification
of the bounds inside the loop and container mutation at a chosen iteration.

The functions are valid Python (typing through annotations of the pure-Python mode), every loop runs at most a
few dozen iterations by construction of the inputs, and typed targets only see values for which neither the
visited values nor `stop +- step` leave the C type (the documented convert_range overflow caveat is excluded).
"""
from hypothesis import strategies as st

HEADER = '''import cython
LOG = []


class DictSub(dict):
    pass


class Mapping2:
    """a mapping that is not a dict"""
    def __init__(self, d):
        self.d = dict(d)

    def keys(self):
        return self.d.keys()

    def values(self):
        return self.d.values()

    def items(self):
        return self.d.items()

    def __iter__(self):
        return iter(self.d)

    def __getitem__(self, k):
        return self.d[k]

    def __setitem__(self, k, v):
        self.d[k] = v

    def pop(self, k):
        return self.d.pop(k)

    def __len__(self):
        return len(self.d)


class ListSub(list):
    pass


class Idx:
    def __init__(self, v):
        self.v = v

    def __index__(self):
        return self.v

'''

CTYPES = {
    "int": ("cython.int", -2**31, 2**31 - 1),
    "uint": ("cython.uint", 0, 2**32 - 1),
    "long": ("cython.long", -2**63, 2**63 - 1),
    "ssize": ("cython.Py_ssize_t", -2**63, 2**63 - 1),
    "char": ("cython.char", -128, 127),
    "short": ("cython.short", -2**15, 2**15 - 1),
}


def range_triples(rnd, lo, hi, n, fixed_step=None, nargs=3):
    """(start, stop, step) triples whose trip count is <= 40 and for which every visited value and stop +- step stay in
    [lo, hi] (None bounds: unbounded)"""
    out = []
    small = list(range(-4, 5))

    def ok(a, b, c):
        if c == 0:
            return lo is None or (lo <= a <= hi and lo <= b <= hi)
        trip = len(range(a, b, c))
        if trip > 40:
            return False
        if lo is None:
            return True
        vals = [a, b, b + c, b - c, a + c * trip, a - c]
        return all(lo <= v <= hi for v in vals)

    tries = 0
    while len(out) < n and tries < n * 40:
        tries += 1
        mode = rnd.randint(0, 9)
        c = fixed_step if fixed_step is not None else rnd.choice([1, 1, -1, 2, -2, 3, -3, 0, 7, -7, 5])
        if mode <= 5 or lo is None and mode <= 7:
            a, b = rnd.choice(small), rnd.choice(small + [7, 9, -8])
        elif mode <= 7:
            # near the bounds of the C type
            edge = rnd.choice([hi, lo])
            a = edge - rnd.randint(0, 12) if edge == hi else edge + rnd.randint(0, 12)
            b = edge - rnd.randint(0, 12) if edge == hi else edge + rnd.randint(0, 12)
        else:
            # big ints for untyped targets / wide types
            base = rnd.choice([2**31, -2**31, 2**40, 2**62, -2**62]) if lo is None or hi > 2**40 else rnd.choice([100, -100])
            a = base + rnd.randint(-3, 3)
            b = a + rnd.randint(-12, 12) * (abs(c) or 1)
        if nargs == 1:
            a, b, c = 0, rnd.choice(small + [7]), 1
        elif nargs == 2:
            c = 1 if fixed_step is None else fixed_step
        if lo is not None and lo >= 0 and (a < 0 or b < 0):
            continue
        if ok(a, b, c) and (a, b, c) not in out:
            out.append((a, b, c))
    return out


class G:
    def __init__(self, rnd, uid):
        self.r = rnd
        self.uid = uid
        self.feats = set()

    def pick(self, seq):
        seq = list(seq)
        return seq[self.r.randrange(len(seq))]

    def chance(self, p):
        return self.r.random() < p

    def range_loop(self):
        """returns (source, cases, meta)"""
        r = self.r
        ttype = self.pick(["untyped", "untyped", "int", "int", "long", "ssize", "char", "uint", "short"])
        self.feats.add("range:target:" + ttype)
        nargs = self.pick([1, 2, 3, 3, 3])
        stepform = self.pick(["runtime", "runtime", "1", "-1", "2", "-3"]) if nargs == 3 else "none"
        self.feats.add("range:args:%d" % nargs)
        self.feats.add("range:step:" + stepform)
        wrapper = self.pick(["", "", "", "reversed", "enumerate", "list-cast"]) if True else ""
        btype = self.pick(["obj", "obj", "same"]) if ttype != "untyped" else "obj"      # typed bounds
        lo, hi = (None, None) if ttype == "untyped" else CTYPES[ttype][1:]
        ann = []
        if btype == "same" and ttype != "untyped":
            self.feats.add("range:typed-bounds")
            ann = ["a: %s" % CTYPES[ttype][0], "b: %s" % CTYPES[ttype][0], "c: %s" % ("cython.int" if ttype in ("uint",) else CTYPES[ttype][0])]
        else:
            ann = ["a", "b", "c"]
        fixed = None if stepform in ("runtime", "none") else int(stepform)
        if nargs == 1:
            rexpr = "range(b)"
        elif nargs == 2:
            rexpr = "range(a, b)"
        else:
            rexpr = "range(a, b, %s)" % ("c" if fixed is None else stepform)
        if nargs >= 2 and (fixed is not None or nargs == 2) and self.chance(0.3):
            # compile-time constant bounds (the optimiser computes the reversed() start bound at compile time)
            self.feats.add("range:const-bounds")
            st_ = fixed if fixed is not None else 1
            a0 = r.randint(-4, 6)
            b0 = a0 + (r.randint(-1, 4) * abs(st_) + self.pick([0, 0, 0, 1, -1])) * (1 if st_ > 0 else -1)
            if lo is not None and lo >= 0:
                # unsigned loop target: only values of the declared C range
                a0, b0 = abs(a0) + (3 * abs(st_) if st_ < 0 else 0), abs(b0)
                if st_ < 0 and b0 > a0:
                    b0 = max(0, a0 - 3 * abs(st_))
            rexpr = "range(%d, %d)" % (a0, b0) if nargs == 2 else "range(%d, %d, %s)" % (a0, b0, stepform)
        target = "i"
        it = rexpr
        if wrapper == "reversed":
            self.feats.add("reversed(range)")
            it = "reversed(%s)" % rexpr
        elif wrapper == "enumerate":
            self.feats.add("enumerate(range)")
            it = "enumerate(%s%s)" % (rexpr, self.pick(["", ", 5", ", k"]))
            target = "e, i"
        elif wrapper == "list-cast":
            it = "list(%s)" % rexpr
        body_extra = []
        bform = r.randint(0, 7)
        if bform == 0:
            self.feats.add("body:break")
            body_extra = ["        if n == k:", "            break"]
        elif bform == 1:
            self.feats.add("body:continue")
            body_extra = ["        if n == k:", "            n += 1", "            continue"]
        elif bform == 2:
            self.feats.add("body:assign-target")
            body_extra = ["        i = i + 100" if ttype == "untyped" else "        i = 1"]
        elif bform == 3:
            self.feats.add("body:modify-bounds")
            body_extra = ["        b = a", "        c = 1"]
        has_else = self.chance(0.5)
        lines = ["def f_%s(%s, k):" % (self.uid, ", ".join(ann))]
        init = self.chance(0.6) or ttype != "untyped"
        if ttype != "untyped":
            lines.append("    i: %s = %s" % (CTYPES[ttype][0], "77" if ttype != "char" else "77"))
        elif init:
            lines.append("    i = 'init'")
        else:
            self.feats.add("target-maybe-unbound")
        if wrapper == "enumerate":
            lines.append("    e = 'init'")
        lines += ["    n = 0", "    for %s in %s:" % (target, it),
                  "        LOG.append(%s)" % ("(e, i)" if wrapper == "enumerate" else "i")]
        lines += body_extra
        lines += ["        n += 1"]
        if has_else:
            self.feats.add("loop-else")
            lines += ["    else:", "        LOG.append('else')"]
        lines += ["    try:", "        fin = %s" % ("(e, i)" if wrapper == "enumerate" else "i"), "    except NameError:", "        fin = 'unbound'",
                  "    return (n, fin, b)"]
        triples = range_triples(r, lo, hi, 22, fixed_step=fixed, nargs=nargs)
        cases = []
        for (a, b, c) in triples:
            k = r.randint(0, 3)
            cases.append({"expr": "M.f_%s(%d, %d, %d, %d)" % (self.uid, a, b, c, k),
                          "cls": _triple_class(a, b, c, lo, hi)})
        return "\n".join(lines), cases

    def container_loop(self):
        r = self.r
        kind = self.pick(["dict", "dict", "dict", "set", "list", "str", "bytes", "tuple"])
        ann = "x"
        typed = self.chance(0.5)
        variant = "plain"
        if kind == "dict":
            variant = self.pick(["plain", "plain", "sub", "mapping"])
            if typed and variant == "plain":
                ann = "x: dict"
            method = self.pick(["", ".keys()", ".values()", ".items()", ".items()"])
            self.feats.add("dict%s:%s%s" % (method, variant, ":typed" if ann != "x" else ""))
            if method == ".items()":
                form = r.randint(0, 2)
                if form == 0:
                    target, it, logv = "kk, vv", "x.items()", "(kk, vv)"
                elif form == 1:
                    self.feats.add("nested-target")
                    target, it, logv = "e, (kk, vv)", "enumerate(x.items())", "(e, kk, vv)"
                else:
                    target, it, logv = "t", "x.items()", "t"
            else:
                target, it, logv = "kk", "x" + method, "kk"
            mut = {"ins": ["x['new'] = 1"], "del": ["x.pop(next(iter(x)))"],
                   "rep": ["k0 = next(iter(x))", "v0 = x.pop(k0)", "x['zz'] = v0"], "upd": ["x[next(iter(x))] = 99"]}
            containers = ["{}", "{'a': 1}", "{'a': 1, 'b': 2}", "{'a': 1, 'b': 2, 'c': 3}", "{1: 'x', 2: 'y', 3: 'z', 4: 'w'}"]
            wrap = {"plain": "%s", "sub": "M.DictSub(%s)", "mapping": "M.Mapping2(%s)"}[variant]
            containers = [wrap % c for c in containers]
        elif kind == "set":
            variant = self.pick(["set", "set", "frozenset"])
            if typed:
                ann = "x: %s" % variant
            self.feats.add("set:%s%s" % (variant, ":typed" if typed else ""))
            target, it, logv = "kk", "x", "kk"
            if self.chance(0.3):
                self.feats.add("enumerate(set)")
                target, it, logv = "e, kk", "enumerate(x)", "(e, kk)"
            mut = {"add": ["x.add(99)"], "rem": ["x.discard(next(iter(x)))"], "rep": ["x.discard(next(iter(x)))", "x.add(98)"]} if variant == "set" else {}
            containers = ["set()", "{1}", "{1, 2}", "{1, 2, 3}", "{5, 1, 9, 3}"]
            if variant == "frozenset":
                containers = ["frozenset(%s)" % c for c in containers]
        elif kind == "list":
            variant = self.pick(["list", "list", "sub"])
            if typed and variant == "list":
                ann = "x: list"
            wrapper = self.pick(["", "", "reversed", "enumerate", "enumerate-start"])
            self.feats.add("list:%s:%s%s" % (variant, wrapper or "plain", ":typed" if ann != "x" else ""))
            target, logv = "kk", "kk"
            it = "x"
            if wrapper == "reversed":
                it = "reversed(x)"
            elif wrapper == "enumerate":
                target, it, logv = "e, kk", "enumerate(x)", "(e, kk)"
            elif wrapper == "enumerate-start":
                target, it, logv = "e, kk", "enumerate(x, j + 2**31 - 2)", "(e, kk)"
            mut = {"app": ["x.append(9)"] if wrapper != "reversed" else ["x.append(9)"], "pop": ["x.pop()"], "ins": ["x.insert(0, 7)"]}
            containers = ["[]", "[1]", "[1, 2]", "[1, 2, 3]", "[4, 3, 2, 1]"]
            if variant == "sub":
                containers = ["M.ListSub(%s)" % c for c in containers]
        elif kind == "tuple":
            if typed:
                ann = "x: tuple"
            wrapper = self.pick(["", "reversed", "enumerate"])
            self.feats.add("tuple:%s%s" % (wrapper or "plain", ":typed" if typed else ""))
            target, logv, it = "kk", "kk", "x"
            if wrapper == "reversed":
                it = "reversed(x)"
            elif wrapper == "enumerate":
                target, it, logv = "e, kk", "enumerate(x, j)", "(e, kk)"
            mut = {}
            containers = ["()", "(1,)", "(1, 2)", "(1, 2, 3)"]
        elif kind == "str":
            if typed:
                ann = "x: str"
            wrapper = self.pick(["", "", "reversed", "enumerate"])
            self.feats.add("str:%s%s" % (wrapper or "plain", ":typed" if typed else ""))
            target, logv, it = "kk", "kk", "x"
            if wrapper == "reversed":
                it = "reversed(x)"
            elif wrapper == "enumerate":
                target, it, logv = "e, kk", "enumerate(x)", "(e, kk)"
            mut = {}
            containers = ["''", "'a'", "'abc'", "'\\xe9t\\xe9'", "'\\u20ac\\u4e2d!'", "'\\U0001f600x\\U0001f601'", "'a\\x00b'"]
        else:
            variant = self.pick(["bytes", "bytes", "bytearray"])
            if typed:
                ann = "x: %s" % variant
            wrapper = self.pick(["", "", "reversed", "enumerate"])
            self.feats.add("%s:%s%s" % (variant, wrapper or "plain", ":typed" if typed else ""))
            target, logv, it = "kk", "kk", "x"
            if wrapper == "reversed":
                it = "reversed(x)"
            elif wrapper == "enumerate":
                target, it, logv = "e, kk", "enumerate(x)", "(e, kk)"
            mut = {"app": ["x.append(65)"], "pop": ["x.pop()"]} if variant == "bytearray" else {}
            containers = ["b''", "b'a'", "b'abc'", "b'\\x00\\xff\\x80'"]
            if variant == "bytearray":
                containers = ["bytearray(%s)" % c for c in containers]
        ops = ["none", "brk", "cnt"] + sorted(mut)
        lines = ["def f_%s(%s, j, op):" % (self.uid, ann), "    n = 0", "    kk = vv = e = t = 'init'",
                 "    for %s in %s:" % (target, it), "        LOG.append(%s)" % logv, "        if n == j:",
                 "            if op == 'brk':", "                break", "            elif op == 'cnt':", "                n += 1", "                continue"]
        for name in sorted(mut):
            lines.append("            elif op == %r:" % name)
            for l in mut[name]:
                lines.append("                " + l)
        lines += ["        n += 1"]
        if self.chance(0.5):
            self.feats.add("loop-else")
            lines += ["    else:", "        LOG.append('else')"]
        lines += ["    return (n, kk, vv, e, t, len(x))"]
        cases = []
        for c in containers:
            for op in ops:
                for j in ([0] if op == "none" else [0, 1, 2]):
                    cases.append({"expr": "M.f_%s(%s, %d, %r)" % (self.uid, c, j, op), "cls": "op:" + op})
        if len(cases) > 40:
            cases = r.sample(cases, 40)
        return "\n".join(lines), cases


def enum_start_loop(g):
    """for e, kk in enumerate(x, s) with int / bool / __index__ / non-int start objects and empty or non-empty
    iterables (CPython validates the start when enumerate() is called, also for an empty iterable)"""
    r = g.r
    kind = g.pick(["list", "tuple", "str", "dict", "set", "range", "gen"])
    typed = g.chance(0.5) and kind in ("list", "tuple", "str", "dict", "set")
    g.feats.add("enumerate-start:%s%s" % (kind, ":typed" if typed else ""))
    ann = "x: %s" % kind if typed else "x"
    it = {"range": "range(x)", "gen": "(z for z in x)"}.get(kind, "x")
    lines = ["def f_%s(%s, s):" % (g.uid, ann), "    n = 0", "    e = kk = 'init'",
             "    for e, kk in enumerate(%s, s):" % it, "        LOG.append((e, kk))", "        n += 1"]
    if g.chance(0.5):
        g.feats.add("loop-else")
        lines += ["    else:", "        LOG.append('else')"]
    lines += ["    return (n, e, kk)"]
    conts = {"list": ["[]", "[1, 2]", "['a']"], "tuple": ["()", "(1, 2)"], "str": ["''", "'ab'"], "dict": ["{}", "{'a': 1}"],
             "set": ["set()", "{1}"], "range": ["0", "2"], "gen": ["[]", "[1, 2]"]}[kind]
    starts = ["0", "5", "-3", "2**31 - 1", "2**63 - 1", "2**70", "True", "M.Idx(4)", "1.5", "'a'", "None", "[1]"]
    cases = []
    for c in conts:
        for st_ in starts:
            cases.append({"expr": "M.f_%s(%s, %s)" % (g.uid, c, st_),
                          "cls": "start:" + ("nonint" if st_ in ("1.5", "'a'", "None", "[1]") else "int") + (":empty" if c in ("[]", "()", "''", "{}", "set()", "0") else "")})
    return "\n".join(lines), cases


def _triple_class(a, b, c, lo, hi):
    cl = []
    if c == 0:
        cl.append("step0")
    elif c < 0:
        cl.append("negstep")
    if c != 0 and len(range(a, b, c)) == 0:
        cl.append("empty")
    if lo is not None and (hi - max(a, b) < 16 or min(a, b) - lo < 16):
        cl.append("boundary")
    if abs(a) > 2**31:
        cl.append("bigint")
    return "+".join(cl) or "plain"


@st.composite
def function_item(draw, uid="UID"):
    rnd = draw(st.randoms(use_true_random=True))
    g = G(rnd, uid)
    c = rnd.random()
    if c < 0.5:
        src, cases = g.range_loop()
    elif c < 0.9:
        src, cases = g.container_loop()
    else:
        src, cases = enum_start_loop(g)
    return {"src": src, "cases": cases, "meta": {"features": sorted(g.feats)}}


def draw_items(k, seed, parts, prefix):
    from vlib import hyp
    raw = hyp.draw_many(function_item("UID"), k + 1, seed, *parts)[1:]
    out = []
    for i, it in enumerate(raw):
        uid = "%s_%d" % (prefix, i)
        out.append({"src": it["src"].replace("UID", uid),
                    "cases": [{"expr": c["expr"].replace("UID", uid), "cls": c["cls"]} for c in it["cases"]],
                    "meta": it["meta"]})
    return out
