"""C27 generator: cdef class hierarchies with cpdef methods + mutation/call histories, and a pure-Python mirror.

Hierarchy IR:  {"id": "3", "levels": [{"over": ["m", "n"]}, {"over": ["m"]}, {"over": []}], "dict_level": None|0|1|2}
   level k is the cdef class L<k>_<id> (L0 base; level k>0 derives from level k-1); "over" = cpdef methods defined at
   that level (level 0 defines both m and n); dict_level = the level that declares `cdef dict __dict__`.
   Every class also has  def c_m(self)/c_n(self): return self.m()   (C vtable call through the typed self), and the module
   has  def f_m_<cls>(<cls> x): return x.m()  (C call through a typed argument).
History = list of steps (JSON-able), interpreted by run_history() inside the runner for both modules:
   ["pyclass", name, base, {meth: tag}]   type(name, (base,), {meth: lambda self: tag})
   ["new", var, cls]                      objs[var] = cls()
   ["setcls", cls, meth, tag] / ["delcls", cls, meth]        on Python classes only
   ["setinst", var, meth, tag] / ["delinst", var, meth]      on instances that have a __dict__
   ["py", var, meth]      obj.meth()                          Python-level call
   ["c", var, meth]       obj.c_meth()                        C-level call, self typed as the most derived cdef class
   ["f", var, meth, cls]  M.f_meth_cls(obj)                   C-level call, argument typed as cdef class `cls`
"""
from hypothesis import strategies as st

from .uni import chance, irange, pick

METHS = ("m", "n")

SETUP = '''
def run_history(M, steps):
    classes, objs, out = {}, {}, []
    def cls_of(name):
        return classes[name] if name in classes else getattr(M, name)
    def mk(tag):
        return lambda self: tag
    def mki(tag):
        return lambda: tag
    for s in steps:
        op = s[0]
        try:
            if op == "pyclass":
                classes[s[1]] = type(s[1], (cls_of(s[2]),), {k: mk(v) for k, v in s[3].items()})
                out.append("-")
            elif op == "new":
                objs[s[1]] = cls_of(s[2])()
                out.append("-")
            elif op == "setcls":
                setattr(cls_of(s[1]), s[2], mk(s[3]))
                out.append("-")
            elif op == "delcls":
                delattr(cls_of(s[1]), s[2])
                out.append("-")
            elif op == "setinst":
                setattr(objs[s[1]], s[2], mki(s[3]))
                out.append("-")
            elif op == "delinst":
                delattr(objs[s[1]], s[2])
                out.append("-")
            elif op == "py":
                out.append(getattr(objs[s[1]], s[2])())
            elif op == "c":
                out.append(getattr(objs[s[1]], "c_" + s[2])())
            elif op == "f":
                out.append(getattr(M, "f_%s_%s" % (s[2], s[3]))(objs[s[1]]))
            elif op == "u":
                out.append(getattr(objs[s[1]], "u_" + s[2])())
        except Exception as e:
            out.append("EXC:" + type(e).__name__)
    return out
'''


def _p(draw, pct):
    return chance(draw, pct / 100.0)


@st.composite
def hierarchy(draw):
    depth = pick(draw, [1, 2, 2, 3, 3])
    levels = [{"over": ["m", "n"]}]
    for _ in range(depth - 1):
        levels.append({"over": [m for m in METHS if _p(draw, 50)]})
    dict_level = pick(draw, [None, None, 0] + list(range(depth)))
    return {"id": "0", "levels": levels, "dict_level": dict_level}


def cname(h, k):
    return "L%d_%s" % (k, h["id"])


def has_dict(h, k):
    return h["dict_level"] is not None and k >= h["dict_level"]


@st.composite
def history(draw, h, nsteps=12):
    """A valid step list for hierarchy h (the generator tracks classes/objects so that every step is meaningful)."""
    depth = len(h["levels"])
    cdef_classes = [cname(h, k) for k in range(depth)]
    level_of = {cname(h, k): k for k in range(depth)}      # class name -> deepest cdef level it derives from
    isdict = {cname(h, k): has_dict(h, k) for k in range(depth)}
    pyclasses = {}          # name -> set of own overrides
    objs = {}               # var -> class name
    steps = []
    tagc = [0]

    def tag(prefix):
        tagc[0] += 1
        return "%s#%d" % (prefix, tagc[0])

    def add_pyclass():
        name = "P%d_%s" % (len(pyclasses), h["id"])
        base = pick(draw, cdef_classes + sorted(pyclasses))
        over = {m: tag(name + "." + m) for m in METHS if _p(draw, 45)}
        pyclasses[name] = set(over)
        level_of[name] = level_of[base]
        isdict[name] = True
        steps.append(["pyclass", name, base, over])
        return name

    def add_obj(cls=None):
        var = "o%d" % len(objs)
        cls = cls or pick(draw, cdef_classes + sorted(pyclasses) + sorted(pyclasses))
        objs[var] = cls
        steps.append(["new", var, cls])
        return var

    def add_call(var=None):
        var = var or pick(draw, sorted(objs))
        m = pick(draw, METHS)
        kind = pick(draw, ["py", "c", "c", "f", "u"])
        if kind == "f":
            k = irange(draw, 0, level_of[objs[var]])
            steps.append(["f", var, m, cname(h, k)])
        else:
            steps.append([kind, var, m])

    # opening: a Python subclass (mostly), an instance, a first round of calls (primes the per-function caches)
    if _p(draw, 85):
        add_pyclass()
    v0 = add_obj(sorted(pyclasses)[0] if pyclasses and _p(draw, 80) else None)
    add_call(v0)
    add_call(v0)
    for _ in range(nsteps):
        choices = ["call", "call", "call", "new"]
        if len(pyclasses) < 3:
            choices.append("pyclass")
        if pyclasses:
            choices += ["setcls", "setcls", "delcls"]
        dictobjs = [v for v, c in objs.items() if isdict[c]]
        if dictobjs:
            choices += ["setinst", "setinst", "delinst"]
        act = pick(draw, choices)
        if act == "call":
            add_call()
        elif act == "new":
            if len(objs) < 4:
                add_obj()
            else:
                add_call()
        elif act == "pyclass":
            add_pyclass()
        elif act == "setcls":
            c = pick(draw, sorted(pyclasses))
            m = pick(draw, METHS)
            pyclasses[c].add(m)
            steps.append(["setcls", c, m, tag(c + "." + m)])
        elif act == "delcls":
            cands = [(c, m) for c in sorted(pyclasses) for m in sorted(pyclasses[c])]
            if cands:
                c, m = pick(draw, cands)
                pyclasses[c].discard(m)
                steps.append(["delcls", c, m])
            else:
                add_call()
        elif act == "setinst":
            v = pick(draw, sorted(dictobjs))
            steps.append(["setinst", v, pick(draw, METHS), tag(v + ".inst")])
        elif act == "delinst":
            v = pick(draw, sorted(dictobjs))
            steps.append(["delinst", v, pick(draw, METHS)])     # may raise AttributeError in both
        if act != "call" and objs and _p(draw, 70):
            add_call()
    # closing round: every object once more through each kind
    for v in sorted(objs):
        for m in METHS:
            steps.append(["py", v, m])
            steps.append(["c", v, m])
    return steps


# ---------------------------------------------------------------- rendering

def render_hierarchy(h, pyx):
    out = []
    depth = len(h["levels"])
    for k in range(depth):
        n = cname(h, k)
        base = "(%s)" % cname(h, k - 1) if k else ""
        out.append("%s %s%s:" % ("cdef class" if pyx else "class", n, base))
        if pyx and h["dict_level"] == k:
            out.append("    cdef dict __dict__")
        for m in h["levels"][k]["over"]:
            out.append("    %s %s(self):" % ("cpdef" if pyx else "def", m))
            out.append("        return %r" % ("%s.%s" % (n, m)))
        for m in METHS:
            out.append("    def c_%s(self):" % m)
            out.append("        return self.%s()" % m)
            # explicit unbound call of this class's implementation: must NOT dispatch to an override
            out.append("    def u_%s(self):" % m)
            out.append("        return %s.%s(self)" % (n, m))
        out.append("")
    for k in range(depth):
        n = cname(h, k)
        for m in METHS:
            out.append("def f_%s_%s(%sx):" % (m, n, (n + " ") if pyx else ""))
            out.append("    return x.%s()" % m)
    out.append("")
    return "\n".join(out) + "\n"


def render_module(hs, pyx):
    return "\n".join(render_hierarchy(h, pyx) for h in hs)
