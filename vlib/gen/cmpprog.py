"""C19 generator: comparison chains, membership tests against literal containers and switchable if-chains,
with evaluation logging.

L(i, v) logs i and returns v.  Operand values come from the call arguments (value pools below: ints, floats, NaN,
strings, bytes, None, tuples and objects with custom __eq__/__lt__/__contains__/__bool__ that log, return
non-bools or raise a user exception with explicit args).  Typed programs use pure-Python-mode annotations
(cython.int / cython.double / cython.Py_UCS4 / typed dict, set, str, bytes), so the same source runs under CPython.
"""
from hypothesis import strategies as st

HEADER = '''import cython
LOG = []
NAN = float("nan")


class UE(Exception):
    pass


def L(i, v):
    LOG.append(i)
    return v


class Res:
    """non-bool comparison result with logging truth value"""
    def __init__(self, tag, truth):
        self.tag = tag
        self.truth = truth

    def __bool__(self):
        # not logged: how often the (non-bool) result of a link is truth-tested depends on CPython's code
        # generation for the enclosing context (`not (a == b == c)` tests a falsy link twice)
        return self.truth

    def __canon__(self):
        return ("Res", self.tag, self.truth)

    def __repr__(self):
        return "Res(%r, %r)" % (self.tag, self.truth)


class EQ:
    """compares by value, logs every rich comparison"""
    def __init__(self, v):
        self.v = v

    def _o(self, o):
        return o.v if isinstance(o, (EQ, NB)) else o

    def __eq__(self, o):
        LOG.append(("eq", self.v, repr(self._o(o))))
        return self.v == self._o(o)

    def __ne__(self, o):
        LOG.append(("ne", self.v, repr(self._o(o))))
        return self.v != self._o(o)

    def __lt__(self, o):
        LOG.append(("lt", self.v, repr(self._o(o))))
        try:
            return self.v < self._o(o)
        except TypeError:
            return NotImplemented

    def __gt__(self, o):
        LOG.append(("gt", self.v, repr(self._o(o))))
        try:
            return self.v > self._o(o)
        except TypeError:
            return NotImplemented

    def __le__(self, o):
        LOG.append(("le", self.v, repr(self._o(o))))
        try:
            return self.v <= self._o(o)
        except TypeError:
            return NotImplemented

    def __ge__(self, o):
        LOG.append(("ge", self.v, repr(self._o(o))))
        try:
            return self.v >= self._o(o)
        except TypeError:
            return NotImplemented

    def __hash__(self):
        return hash(self.v)

    def __canon__(self):
        return ("EQ", self.v)

    def __repr__(self):
        return "%s(%r)" % (type(self).__name__, self.v)


class NB(EQ):
    """comparisons return non-bool Res objects"""
    def __eq__(self, o):
        LOG.append(("nb-eq", self.v, repr(self._o(o))))
        return Res(("eq", self.v), self.v == self._o(o))

    def __ne__(self, o):
        LOG.append(("nb-ne", self.v, repr(self._o(o))))
        return Res(("ne", self.v), self.v != self._o(o))

    def __lt__(self, o):
        LOG.append(("nb-lt", self.v, repr(self._o(o))))
        return Res(("lt", self.v), True)

    def __gt__(self, o):
        LOG.append(("nb-gt", self.v, repr(self._o(o))))
        return Res(("gt", self.v), False)

    __hash__ = EQ.__hash__

    def __canon__(self):
        return ("NB", self.v)


class RZ:
    """every comparison raises a user exception"""
    def _r(self, o):
        LOG.append("rz")
        raise UE("rz", 7)
    __eq__ = __ne__ = __lt__ = __gt__ = __le__ = __ge__ = _r
    __hash__ = None

    def __canon__(self):
        return "RZ"

    def __repr__(self):
        return "RZ()"


class CT:
    """container with logging __contains__ (optionally non-bool result / raising)"""
    def __init__(self, items, mode=0):
        self.items = items
        self.mode = mode

    def __contains__(self, x):
        LOG.append(("contains", repr(x)))
        if self.mode == 2:
            raise UE("ct", 3)
        r = any(x is i or x == i for i in self.items)
        return Res("ct", r) if self.mode == 1 else r

    def __canon__(self):
        return ("CT", len(self.items), self.mode)

    def __repr__(self):
        return "CT(%d, %d)" % (len(self.items), self.mode)

'''

OBJ_VALUES = ["0", "1", "2", "3", "-1", "1.0", "2.5", "M.NAN", "True", "False", "None", "'a'", "'b'", "'1'", "''", "b'1'", "b'a'",
              "(1, 2)", "[1]", "M.EQ(1)", "M.EQ(2)", "M.EQ('a')", "M.NB(1)", "M.NB(2)", "M.RZ()", "2**70", "1e300", "-0.0",
              # CPython digit boundaries: two-digit ints (2**30 <= |v| < 2**60) of both signs and their neighbours
              "2**30", "2**30 + 1", "2**45", "2**59 + 7", "2**60 - 1", "2**60", "-2**30", "-2**31", "-2**45", "-2**59 - 7", "-2**60"]
CONT_VALUES = ["(1, 2)", "[1, 'a']", "{1, 2}", "{'a': 1}", "'abc'", "b'abc'", "M.CT([1, 2])", "M.CT([1], 1)", "M.CT([1], 2)",
               "(M.NAN, 1)", "[M.EQ(1), 2]", "()", "None", "5"]
CMP = ["<", "<=", "==", "!=", ">=", ">"]
LITS = ["1", "2", "3", "1", "1.0", "True", "'1'", "b'1'", "'a'", "None", "0", "-1", "2.5", "'ab'", "NAN", "(1, 2)", "2**70", "False", "''"]


class G:
    def __init__(self, rnd, uid):
        self.r = rnd
        self.uid = uid
        self.n = 0
        self.feats = set()

    def pick(self, seq):
        seq = list(seq)
        return seq[self.r.randrange(len(seq))]

    def chance(self, p):
        return self.r.random() < p

    def leaf(self, v):
        self.n += 1
        return "L(%d, %s)" % (self.n, v)

    # ---- program forms: each returns (params, annotations, body lines, argument tuples)
    def chain(self):
        self.feats.add("chain")
        n = self.r.randint(1, 4)
        params = ["x%d" % i for i in range(n + 1)]
        ops = []
        pools = [OBJ_VALUES] * (n + 1)
        for i in range(n):
            c = self.r.randint(0, 9)
            if c <= 6:
                ops.append(self.pick(CMP))
            elif c == 7:
                ops.append(self.pick(["is", "is not"]))
            else:
                ops.append(self.pick(["in", "not in"]))
                pools[i + 1] = CONT_VALUES
        self.feats.add("chainlen:%d" % n)
        for o in ops:
            self.feats.add("op:" + o)
        operands = []
        for p in params:
            operands.append(self.leaf(p) if self.chance(0.8) else p)
        expr = operands[0]
        for o, b in zip(ops, operands[1:]):
            expr += " %s %s" % (o, b)
        ctx = self.r.randint(0, 5)
        if ctx == 0:
            body = ["    r = %s" % expr, "    return r"]
        elif ctx == 1:
            self.feats.add("ctx:if")
            body = ["    if %s:" % expr, "        return 'T'", "    return 'F'"]
        elif ctx == 2:
            self.feats.add("ctx:not")
            body = ["    return not (%s)" % expr]
        elif ctx == 3:
            self.feats.add("ctx:boolop")
            body = ["    return (%s) and %s" % (expr, self.leaf("'tail'"))]
        elif ctx == 4:
            self.feats.add("ctx:condexpr")
            body = ["    return %s if %s else %s" % (self.leaf("'yes'"), expr, self.leaf("'no'"))]
        else:
            self.feats.add("ctx:while")
            body = ["    k = 0", "    while %s:" % expr, "        k += 1", "        if k >= 2:", "            break", "    return k"]
        args = []
        for _ in range(8):
            args.append(", ".join(self.pick(pools[i]) for i in range(n + 1)))
        return params, {}, body, args, n >= 2

    def typed_chain(self):
        self.feats.add("typed-chain")
        n = self.r.randint(1, 3)
        kinds = [self.pick(["int", "int", "double", "obj", "long"]) for _ in range(n + 1)]
        params = ["x%d" % i for i in range(n + 1)]
        ann = {p: {"int": "cython.int", "long": "cython.long", "double": "cython.double"}.get(k) for p, k in zip(params, kinds)}
        ops = [self.pick(CMP) for _ in range(n)]
        for o in ops:
            self.feats.add("op:" + o)
        self.feats.add("chainlen:%d" % n)
        operands = [self.leaf(p) if self.chance(0.6) else p for p in params]
        expr = operands[0]
        for o, b in zip(ops, operands[1:]):
            expr += " %s %s" % (o, b)
        body = ["    if %s:" % expr, "        return 'T'", "    return 'F'"] if self.chance(0.5) else ["    return %s" % expr]
        pool = {"int": ["0", "1", "2", "-1", "2147483647", "-2147483648", "3"], "long": ["0", "1", "2", "-1", "2**62", "-2**63", "3"],
                "double": ["0.0", "1.0", "2.5", "-0.0", "M.NAN", "1e300", "float('inf')", "2.0"],
                "obj": ["0", "1", "2", "1.0", "M.NAN", "2**70", "M.EQ(1)", "M.NB(2)", "True", "2.5"]}
        args = [", ".join(self.pick(pool[k]) for k in kinds) for _ in range(8)]
        return params, ann, body, args, n >= 2

    def in_literal(self):
        self.feats.add("in-literal")
        form = self.r.randint(0, 9)
        op = self.pick(["in", "in", "not in"])
        self.feats.add("op:" + op)
        ann = {}
        params = ["x0", "x1"]
        if form <= 5:
            k = self.r.randint(1, 5)
            members = []
            for _ in range(k):
                c = self.r.randint(0, 9)
                if c <= 6:
                    members.append(self.pick(LITS))
                elif c <= 8:
                    members.append(self.leaf(self.pick(LITS + ["x1"])))
                else:
                    members.append("x1")
            brackets = self.pick(["()", "()", "[]", "{}"])
            self.feats.add("container:" + brackets)
            if brackets == "{}":
                members = [m for m in members if "(1, 2)" not in m or True]
            txt = ", ".join(members) + ("," if brackets == "()" and len(members) == 1 else "")
            cont = brackets[0] + txt + brackets[1]
            if brackets == "{}" and not members:
                cont = "set()"
            lhs = self.leaf("x0") if self.chance(0.7) else "x0"
            expr = "%s %s %s" % (lhs, op, cont)
            pool0 = OBJ_VALUES
            pool1 = OBJ_VALUES
        elif form == 6:
            self.feats.add("typed:Py_UCS4-in-str")
            ann = {"x0": "cython.Py_UCS4"}
            lit = self.pick(["'abc'", "'a'", "''", "'\\xe9\\u20acz'", "'aab'", "'0123456789'", "'\\U0001f600x'"])
            expr = "%s %s %s" % (self.leaf("x0") if self.chance(0.5) else "x0", op, lit)
            pool0 = ["'a'", "'b'", "'z'", "'\\xe9'", "'\\u20ac'", "'0'", "'\\U0001f600'", "'c'"]
            pool1 = ["0"]
        elif form == 7:
            self.feats.add("typed:int-in-bytes")
            ann = {"x0": "cython.int"}
            lit = self.pick(["b'abc'", "b'a'", "b''", "b'\\x00\\xff'", "b'aab'"])
            expr = "%s %s %s" % ("x0", op, lit)
            pool0 = ["97", "98", "0", "255", "99", "100"]
            pool1 = ["0"]
        elif form == 8:
            self.feats.add("typed:int-in-ints")
            ann = {"x0": self.pick(["cython.int", "cython.long", "cython.uchar"])}
            mem = [self.pick(["1", "2", "3", "1", "5", "255", "256", "-1", "1000", "2**40", "0"]) for _ in range(self.r.randint(1, 5))]
            if self.chance(0.3):
                mem.append(self.leaf("x1"))
            txt = ", ".join(mem) + ("," if len(mem) == 1 else "")
            expr = "%s %s (%s)" % (self.leaf("x0") if self.chance(0.5) else "x0", op, txt)
            pool0 = ["0", "1", "2", "3", "5", "255", "7"] if "uchar" in ann["x0"] else ["0", "1", "2", "3", "5", "255", "256", "-1", "1000", "7"]
            pool1 = ["1", "7", "0"]
        else:
            self.feats.add("typed:container")
            t = self.pick(["dict", "set", "list", "tuple", "str", "bytes"])
            ann = {"x1": t}
            expr = "%s %s %s" % (self.leaf("x0") if self.chance(0.5) else "x0", op, self.leaf("x1") if self.chance(0.5) else "x1")
            pool0 = ["1", "'a'", "M.EQ(1)", "M.NAN", "None", "b'a'", "97", "M.NB(1)", "(1,)", "[1]"]
            pool1 = {"dict": ["{1: 2}", "{}", "{'a': 1}", "{M.NAN: 1}"], "set": ["{1, 2}", "set()", "{'a'}"],
                     "list": ["[1, 2]", "[]", "['a', M.NAN]", "[M.EQ(1)]"], "tuple": ["(1, 2)", "()", "('a',)", "(M.NAN,)"],
                     "str": ["'abc'", "''"], "bytes": ["b'abc'", "b''"]}[t]
        ctx = self.r.randint(0, 2)
        if ctx == 0:
            body = ["    return %s" % expr]
        elif ctx == 1:
            body = ["    if %s:" % expr, "        return 'T'", "    return 'F'"]
        else:
            body = ["    return (%s) or %s" % (expr, self.leaf("'tail'"))]
        args = ["%s, %s" % (self.pick(pool0), self.pick(pool1)) for _ in range(8)]
        if "NAN" in expr:
            args.append("M.NAN, 0")
        return params, ann, body, args, True

    def switch(self):
        self.feats.add("switch")
        t = self.pick(["cython.int", "cython.int", "cython.long", "cython.uchar", "cython.Py_UCS4", "obj"])
        self.feats.add("switch-type:" + t)
        ucs = t == "cython.Py_UCS4"
        ann = {} if t == "obj" else {"x0": t}
        consts = ["'a'", "'b'", "'c'", "'a'", "'\\xe9'", "'z'"] if ucs else ["1", "2", "3", "1", "5", "0", "-1", "255", "256", "2**40", "7"]
        nb = self.r.randint(2, 5)
        lines = []
        for b in range(nb):
            c = self.r.randint(0, 9)
            if c <= 3:
                cond = "x0 == %s" % self.pick(consts)
            elif c <= 5:
                cond = "x0 == %s or x0 == %s" % (self.pick(consts), self.pick(consts))
            elif c <= 7:
                mem = [self.pick(consts) for _ in range(self.r.randint(1, 3))]
                cond = "x0 in (%s)" % (", ".join(mem) + ("," if len(mem) == 1 else ""))
            elif c == 8:
                self.feats.add("switch:nonconst-case")
                cond = "x0 == %s" % self.leaf(self.pick(consts))
            else:
                self.feats.add("switch:nonconst-case")
                cond = "x0 == x1"
            if self.chance(0.25):
                cond = "%s == x0" % self.pick(consts) if "==" in cond and " or " not in cond and "L(" not in cond and "x1" not in cond else cond
            lines.append("    %s %s:" % ("if" if b == 0 else "elif", cond))
            lines.append("        r = %s" % self.leaf("'b%d'" % b))
        if self.chance(0.7):
            lines += ["    else:", "        r = %s" % self.leaf("'else'")]
        else:
            lines = ["    r = 'none'"] + lines
        lines.append("    return r")
        if ucs:
            pool0 = ["'a'", "'b'", "'c'", "'z'", "'\\xe9'", "'q'"]
            pool1 = ["'a'", "'q'"]
        elif t == "cython.uchar":
            pool0 = ["0", "1", "2", "3", "5", "7", "255", "4"]
            pool1 = ["1", "7"]
        elif t == "obj":
            pool0 = ["0", "1", "2", "3", "5", "7", "255", "256", "-1", "2**40", "1.0", "True", "M.EQ(1)", "'a'", "M.NAN"]
            pool1 = ["1", "7", "M.EQ(5)"]
        else:
            pool0 = ["0", "1", "2", "3", "5", "7", "255", "256", "-1", "4"] + (["2**40"] if t == "cython.long" else [])
            pool1 = ["1", "7"]
        args = ["%s, %s" % (a, self.pick(pool1)) for a in pool0]
        return ["x0", "x1"], ann, lines, args, True


@st.composite
def function_item(draw, uid="UID"):
    rnd = draw(st.randoms(use_true_random=True))
    g = G(rnd, uid)
    c = rnd.randint(0, 9)
    if c <= 3:
        params, ann, body, args, nt = g.chain()
    elif c == 4:
        params, ann, body, args, nt = g.typed_chain()
    elif c <= 7:
        params, ann, body, args, nt = g.in_literal()
    else:
        params, ann, body, args, nt = g.switch()
    sig = ", ".join("%s: %s" % (p, ann[p]) if ann.get(p) else p for p in params)
    src = "def f_%s(%s):\n%s" % (uid, sig, "\n".join(body))
    seen = []
    for a in args:
        if a not in seen:
            seen.append(a)
    cases = [{"expr": "M.f_%s(%s)" % (uid, a)} for a in seen]
    feats = set(g.feats)
    if any(ann.values()):
        feats.add("typed")
    return {"src": src, "cases": cases, "meta": {"features": sorted(feats), "nt": bool(nt)}}


def draw_items(k, seed, parts, prefix):
    from vlib import hyp
    raw = hyp.draw_many(function_item("UID"), k + 1, seed, *parts)[1:]
    out = []
    for i, it in enumerate(raw):
        uid = "%s_%d" % (prefix, i)
        out.append({"src": it["src"].replace("UID", uid),
                    "cases": [{"expr": c["expr"].replace("UID", uid)} for c in it["cases"]],
                    "meta": it["meta"]})
    return out
