"""C33 generator: conversion targets (type descriptors of vlib/convmodel.py), the kernel modules and type-directed
Hypothesis strategies for valid values and for invalid variants at every position."""
from hypothesis import strategies as st

from .. import convmodel as cm

# ------------------------------------------------------------------------------------------------ descriptors
I = ["int", "int"]
U8 = ["int", "unsigned char"]
H = ["int", "short"]
UL = ["int", "unsigned long"]
LL = ["int", "long long"]
D = ["double"]
PT = ["struct", "Pt", [["x", I], ["y", D]]]
INNER = ["struct", "Inner", [["a", H], ["b", U8]]]
OUTER = ["struct", "Outer", [["id", LL], ["inner", INNER], ["w", ["array", D, 3]], ["grid", ["array", ["array", I, 2], 2]]]]
UN = ["union", "Un", [["i", I], ["d", D], ["u", U8]]]

C_DECLS = '''
cdef struct Pt:
    int x
    double y
cdef struct Inner:
    short a
    unsigned char b
cdef struct Outer:
    long long id
    Inner inner
    double w[3]
    int grid[2][2]
cdef union Un:
    int i
    double d
    unsigned char u
'''


def ctype(T):
    k = T[0]
    if k == "int":
        return T[1]
    if k == "double":
        return "double"
    if k in ("bytes", "text", "barr"):
        return "string"
    if k == "complex":
        return "cppcomplex[double]"
    if k in ("vector", "list", "set", "uset"):
        return "%s[%s]" % ({"vector": "vector", "list": "cpplist", "set": "cppset", "uset": "unordered_set"}[k], ctype(T[1]))
    if k in ("map", "umap"):
        return "%s[%s, %s]" % ("cppmap" if k == "map" else "unordered_map", ctype(T[1]), ctype(T[2]))
    if k == "pair":
        return "pair[%s, %s]" % (ctype(T[1]), ctype(T[2]))
    if k in ("struct", "union"):
        return T[1]
    raise ValueError(T)


def kernel_text(name, T):
    k = T[0]
    if k == "array":
        dims = []
        base = T
        while base[0] == "array":
            dims.append(base[2])
            base = base[1]
        return "def %s(obj):\n    cdef %s%s v = obj\n    return v\n" % (name, ctype(base), "".join("[%d]" % d for d in dims))
    if k in ("cstr", "ctext", "cbarr"):
        ct = T[-1] if T[-1] in ("char*", "const char*", "unsigned char*", "const unsigned char*") else "char*"
        return "def %s(obj):\n    cdef %s v = obj\n    return v\n" % (name, ct)
    if k == "union":
        lines = ["def %s(obj):" % name, "    cdef %s v = obj" % T[1], "    key = next(iter(obj))"]
        for fname, ft in T[2]:
            lines.append("    if key == %r:\n        return {%r: v.%s}" % (fname, fname, fname))
        lines.append("    return None")
        return "\n".join(lines) + "\n"
    return "def %s(obj):\n    cdef %s v = obj\n    return v\n" % (name, ctype(T))


CPP_HEADER = '''# cython: language_level=3
# distutils: language = c++
from libcpp.string cimport string
from libcpp.vector cimport vector
from libcpp.list cimport list as cpplist
from libcpp.set cimport set as cppset
from libcpp.unordered_set cimport unordered_set
from libcpp.map cimport map as cppmap
from libcpp.unordered_map cimport unordered_map
from libcpp.pair cimport pair
from libcpp.complex cimport complex as cppcomplex
'''
C_HEADER = "# cython: language_level=3\n"


def _cstr(kind, ct, enc=None):
    return [kind] + ([enc] if enc else []) + [ct]


def modules():
    """-> [{"name", "cplus", "directives", "header", "kernels": [(kernel name, T, label)]}]"""
    mods = []
    # ---- C module, default string directives
    ks = [("pt", PT), ("inner", INNER), ("outer", OUTER), ("un", UN),
          ("arr_int4", ["array", I, 4]), ("arr_d23", ["array", ["array", D, 3], 2]), ("arr_h3", ["array", H, 3]),
          ("arr_pt2", ["array", PT, 2]),
          ("cstr", _cstr("cstr", "char*")), ("ccstr", _cstr("cstr", "const char*")),
          ("ucstr", _cstr("cstr", "const unsigned char*"))]
    mods.append({"name": "c33c", "cplus": False, "directives": {}, "header": C_HEADER + C_DECLS, "kernels": ks})
    # ---- C modules with string directives: char* <-> str / bytearray (directives given as a header comment so that
    #      they pass through the compiler's own parsing / normalisation: 'default' and 'UTF-8' mean utf8)
    for tag, pytype, spelled, enc, kind in (("sa", "str", "ascii", "ascii", "ctext"), ("sd", "str", "default", "utf8", "ctext"),
                                            ("su", "str", "UTF-8", "utf8", "ctext"), ("sl", "str", "iso8859-1", "latin1", "ctext"),
                                            ("ba", "bytearray", "utf8", "utf8", "cbarr")):
        T = [kind, enc, "char*"]
        T2 = [kind, enc, "const char*"]
        hdr = "# cython: language_level=3, c_string_type=%s, c_string_encoding=%s\n" % (pytype, spelled)
        mods.append({"name": "c33" + tag, "cplus": False, "directives": {}, "header": hdr, "kernels": [("cstr", T), ("ccstr", T2)]})
    # ---- C++ module, default string directives
    B = ["bytes"]
    ks = [("string", B), ("vec_int", ["vector", I]), ("vec_vec_d", ["vector", ["vector", D]]), ("vec_u8", ["vector", U8]),
          ("list_ll", ["list", LL]), ("set_int", ["set", I]), ("uset_int", ["uset", I]), ("set_string", ["set", B]),
          ("map_string_int", ["map", B, I]), ("umap_int_d", ["umap", I, D]), ("map_int_vec", ["map", I, ["vector", I]]),
          ("pair_int_string", ["pair", I, B]), ("vec_pair", ["vector", ["pair", I, D]]), ("complex", ["complex"]),
          ("vec_string", ["vector", B]), ("vec_pt", ["vector", PT]), ("map_ul_pair", ["map", UL, ["pair", H, B]]),
          ("list_set", ["list", ["set", I]]), ("vec_complex", ["vector", ["complex"]]), ("umap_string_vec_string", ["umap", B, ["vector", B]])]
    mods.append({"name": "c33x", "cplus": True, "directives": {}, "header": CPP_HEADER + C_DECLS, "kernels": ks})
    # ---- C++ module, std::string <-> str (utf8 via 'default')
    S = ["text", "utf8"]
    ks = [("string", S), ("vec_string", ["vector", S]), ("map_string_int", ["map", S, I]), ("set_string", ["set", S]),
          ("pair_string_string", ["pair", S, S]), ("umap_string_vec_string", ["umap", S, ["vector", S]])]
    mods.append({"name": "c33y", "cplus": True, "directives": {},
                 "header": CPP_HEADER.replace("language_level=3", "language_level=3, c_string_type=str, c_string_encoding=default"),
                 "kernels": ks})
    for m in mods:
        m["kernels"] = [("k_" + name, T, "%s.%s" % (m["name"], name)) for name, T in m["kernels"]]
        m["src"] = m["header"] + "\n" + "\n".join(kernel_text(name, T) for name, T, _ in m["kernels"])
    return mods


def single_source(mod, kname):
    for name, T, _ in mod["kernels"]:
        if name == kname:
            return mod["header"] + "\n" + kernel_text(name, T)
    raise KeyError(kname)


# ------------------------------------------------------------------------------------------------ strategies
BYTES_ALPHABET = [0, 0, 1, 65, 66, 97, 122, 127, 128, 195, 169, 255, 32, 10]
TEXT_ALPHABET = ["a", "b", "Z", " ", "\0", "\x7f", "\xe9", "\u20ac", "\U0001f600", "0", "\n"]


def s_bytes():
    return st.lists(st.sampled_from(BYTES_ALPHABET), max_size=6).map(bytes)


def s_text(ascii_only=False):
    alpha = [c for c in TEXT_ALPHABET if (ord(c) < 128 or not ascii_only)]
    return st.lists(st.sampled_from(alpha), max_size=6).map("".join)


def s_int(ctype_):
    lo, hi = cm.INT_RANGES[ctype_]
    return st.one_of(st.integers(lo, hi), st.sampled_from([lo, hi, 0, 1, hi - 1, lo + 1]), st.integers(-3, 3).filter(lambda v: lo <= v <= hi),
                     st.booleans())


def s_double():
    return st.one_of(st.sampled_from([0.0, -0.0, 1.5, -2.25, 1e308, 5e-324, float("inf"), float("-inf"), 3, -7, True, 2 ** 53 + 1]),
                     st.floats(allow_nan=False), st.integers(-10 ** 6, 10 ** 6))


def s_seq(elem, maxn=4):
    """An iterable of elements: list / tuple / generator (Gen marker)."""
    base = st.lists(elem, max_size=maxn)
    return st.one_of(base, base, base.map(tuple), base.map(lambda xs: cm.Gen(xs)))


def valid(T, hashable=False):
    k = T[0]
    if k == "int":
        return s_int(T[1])
    if k == "double":
        return s_double() if not hashable else s_double().filter(lambda v: v == v)
    if k == "complex":
        return st.one_of(st.builds(complex, st.sampled_from([0.0, -0.0, 1.5, float("inf"), -3.25]), st.sampled_from([0.0, 2.0, -0.0, 1e300])),
                         st.sampled_from([1, 2.5, True]))
    if k in ("bytes", "cstr") or (k in ("barr", "cbarr") and not (len(T) > 1 and T[1] in ("ascii", "utf8", "latin1"))):
        return st.one_of(s_bytes(), s_bytes(), s_bytes().map(bytearray)) if not hashable else s_bytes()
    if k in ("text", "ctext", "barr", "cbarr") and len(T) > 1 and T[1] in ("ascii", "utf8", "latin1"):
        if T[1] == "ascii":
            return st.one_of(s_text(True), s_bytes().map(lambda b: bytes(c for c in b if c < 128)))
        if T[1] == "utf8":
            base = st.one_of(s_text(), s_text().map(lambda s: s.encode("utf8")))
            return base if (k in ("text", "ctext") and not hashable) or hashable else st.one_of(base, s_bytes())
        return s_bytes()                                          # latin1: every byte string decodes; str input is rejected
    if k in ("vector", "list"):
        return s_seq(valid(T[1]))
    if k in ("set", "uset"):
        e = valid(T[1], hashable=True)
        return st.one_of(st.lists(e, max_size=4), st.lists(e, max_size=4).map(tuple), st.sets(e, max_size=4), st.lists(e, max_size=4).map(cm.Gen))
    if k in ("map", "umap"):
        return st.dictionaries(valid(T[1], hashable=True), valid(T[2]), max_size=3)
    if k == "pair":
        return st.one_of(st.tuples(valid(T[1]), valid(T[2])), st.tuples(valid(T[1]), valid(T[2])).map(list),
                         st.tuples(valid(T[1]), valid(T[2])).map(lambda t: cm.Gen(list(t))))
    if k == "array":
        e = valid(T[1])
        full = st.lists(e, min_size=T[2], max_size=T[2])
        return st.one_of(full, full.map(tuple), full.map(cm.Gen))
    if k == "struct":
        return st.fixed_dictionaries({f: valid(ft) for f, ft in T[2]})
    if k == "union":
        return st.sampled_from(T[2]).flatmap(lambda fld: valid(fld[1]).map(lambda v: {fld[0]: v}))
    raise ValueError(T)


JUNK = [None, "x", "", b"q", 1.5, [1], {"z": 1}, (), 7, 2 ** 70, -2 ** 70, {1, 2}]


def wrong_scalar(T):
    """Values that are NOT convertible to scalar type T (wrong type or out of range)."""
    k = T[0]
    if k == "int":
        lo, hi = cm.INT_RANGES[T[1]]
        return st.sampled_from([lo - 1, hi + 1, 2 ** 70, -2 ** 70, None, "1", b"1", [1], (), {}])     # floats: C05
    if k == "double":
        return st.sampled_from([None, "1.5", b"1", [1.0], 10 ** 400, (), {}, 1j])
    if k == "complex":
        return st.sampled_from([None, "1j", b"1", [1], 10 ** 400])
    if k in ("bytes", "cstr"):
        return st.sampled_from([None, "text", "", 5, 1.5, [65], ("a",), "\xe9"])
    if k in ("text", "ctext", "barr", "cbarr"):
        bad = [None, 5, 1.5, [65]]
        enc = T[1] if len(T) > 1 else None
        if k in ("text", "ctext"):
            bad += [b"\xff\xfe", b"a\xe9"] if enc != "latin1" else []
        if enc == "ascii":
            bad += ["\xe9", "a\u20ac"] + ([b"\x80"] if k in ("text", "ctext") else [])
        if enc in (None, "latin1"):
            bad += ["plain str", ""]
        if enc == "utf8":
            bad += ["\ud800"]                                   # lone surrogate: not encodable
        return st.sampled_from(bad)
    return st.sampled_from([None, 5, 1.5])


@st.composite
def invalid(draw, T):
    """A value for T with ONE defect at a drawn position (wrong element, missing / misspelled key, wrong length,
    non-iterable, iterator that raises).  The model decides the expected outcome from the final value."""
    k = T[0]
    if k in ("int", "double", "complex", "bytes", "cstr", "barr", "cbarr", "text", "ctext"):
        return draw(wrong_scalar(T))
    how = draw(st.integers(0, 9))
    if how == 0:
        return draw(st.sampled_from(JUNK))                      # wholly wrong object
    if k in ("vector", "list", "set", "uset"):
        items = list(draw(st.lists(valid(T[1], hashable=k in ("set", "uset")), min_size=0, max_size=3)))
        pos = draw(st.integers(0, len(items)))
        if how == 1:
            return cm.Gen(items, raise_at=pos)                   # iterator raises before item `pos` / at the end
        items.insert(pos, draw(invalid(T[1])))
        form = draw(st.sampled_from(["list", "tuple", "gen"]))
        return items if form == "list" else tuple(items) if form == "tuple" else cm.Gen(items)
    if k in ("map", "umap"):
        d = dict(draw(st.dictionaries(valid(T[1], hashable=True), valid(T[2]), max_size=2)))
        if how <= 4:
            badk = draw(invalid(T[1]))
            try:
                hash(badk)
            except TypeError:
                badk = None
            d[badk] = draw(valid(T[2]))
        else:
            d[draw(valid(T[1], hashable=True))] = draw(invalid(T[2]))
        if how == 9:
            return list(d.items())                                # pairs instead of a mapping
        return d
    if k == "pair":
        a, b = draw(valid(T[1])), draw(valid(T[2]))
        if how == 1:
            return draw(st.sampled_from([(a,), (a, b, a), (), [a, b, b, a]]))
        if how == 2:
            return cm.Gen([a, b], raise_at=draw(st.integers(0, 2)))
        if how <= 5:
            return (draw(invalid(T[1])), b)
        return (a, draw(invalid(T[2])))
    if k == "array":
        n = T[2]
        items = [draw(valid(T[1])) for _ in range(n)]
        if how == 1:
            m = draw(st.sampled_from([0, n - 1, n + 1, n + 3]))
            items = (items + items + items)[:m]
            form = draw(st.sampled_from(["list", "tuple", "gen"]))
            return items if form == "list" else tuple(items) if form == "tuple" else cm.Gen(items)
        if how == 2:
            return cm.Gen(items, raise_at=draw(st.integers(0, n)))
        pos = draw(st.integers(0, n - 1))
        items[pos] = draw(invalid(T[1]))
        return items if how % 2 else cm.Gen(items)
    if k == "struct":
        d = {f: draw(valid(ft)) for f, ft in T[2]}
        names = [f for f, _ in T[2]]
        f = draw(st.sampled_from(names))
        if how == 1:
            del d[f]                                              # missing key
        elif how == 2:
            d[f + "_"] = d.pop(f)                                 # misspelled key
        elif how == 3:
            d["extra"] = 1                                        # extra key: either class
        else:
            d[f] = draw(invalid([ft for n2, ft in T[2] if n2 == f][0]))
        return d
    if k == "union":
        names = [f for f, _ in T[2]]
        f = draw(st.sampled_from(names))
        ft = [ft for n2, ft in T[2] if n2 == f][0]
        if how == 1:
            return {}
        if how == 2:
            g = draw(st.sampled_from([n2 for n2 in names if n2 != f]))
            return {f: draw(valid(ft)), g: 0}
        if how == 3:
            return {"nope": 1}
        if how == 4:
            return {f: draw(valid(ft)), "extra": 1}                # either class
        return {f: draw(invalid(ft))}
    raise ValueError(T)


def values(T):
    return st.one_of(valid(T), valid(T), invalid(T))
