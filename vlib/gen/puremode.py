"""Generator of pure-Python-mode programs (C38): functions using the `cython` module's typing helpers whose integer
and double values provably stay inside the declared C ranges (interval arithmetic in the generator).

Every int-kind expression carries an interval [lo, hi]; an expression is only generated when its interval fits the
C type it will be computed in (int32 for everything int-kind, conservatively), and a typed local only receives an
expression whose interval fits the local's type.  Only signed types are used (mixed signed/unsigned C promotion has
no Python counterpart).  Divisors of cdiv/cmod are non-zero by construction (C division by zero is undefined).
"""
import re

from hypothesis import strategies as st

HEADER = "import cython\n"
I32 = (-(2 ** 31) + 1, 2 ** 31 - 1)
ITYPES = {  # name in the cython module -> range
    "cython.int": I32,
    "cython.long": (-(2 ** 62), 2 ** 62),
    "cython.short": (-32767, 32767),
    "cython.schar": (-127, 127),
    "cython.longlong": (-(2 ** 62), 2 ** 62),
    "cython.Py_ssize_t": (-(2 ** 62), 2 ** 62),
}
ARG_RANGE = (-60, 60)


class Gen:
    def __init__(self, draw, uid):
        self.draw = draw
        self.uid = uid
        self.ints = {}      # name -> (lo, hi)
        self.dbls = {}      # name -> max magnitude
        self.features = set()
        self.ndiv = 0
        self.ncast = 0
        self.objabs = set()     # names whose abs() is a Python-object operation in compiled code (no C abs for the type)

    def pick(self, seq):
        return self.draw(st.sampled_from(list(seq)))

    def chance(self, pct):
        return self.draw(st.integers(0, 99)) < pct

    # ---- int expressions: returns (source, lo, hi)
    def iexpr(self, depth):
        d = self.draw
        choices = ["var", "var", "const"]
        if depth > 0:
            choices += ["add", "sub", "mul", "floordiv", "mod", "cdiv", "cmod", "castd", "casti", "abs", "minmax", "cond", "neg"]
        k = self.pick(choices)
        if k == "var" and self.ints:
            n = self.pick(sorted(self.ints))
            lo, hi = self.ints[n]
            return n, lo, hi
        if k in ("var", "const"):
            c = d(st.integers(-9, 9))
            return (str(c) if c >= 0 else "(%d)" % c), c, c
        a, alo, ahi = self.iexpr(depth - 1)
        if k == "neg":
            return "(-%s)" % a, -ahi, -alo
        if k == "abs":
            # abs() of a Py_ssize_t expression is a Python-object call in compiled code; cdiv/cmod on an object operand is a
            # separately recorded finding (twin kernels k_*_abs_ssize), so generated programs keep abs() on int/long/short only
            if any(re.search(r"\b%s\b" % n, a) for n in self.objabs):
                return a, alo, ahi
            return "abs(%s)" % a, 0, max(abs(alo), abs(ahi))
        if k == "casti":
            self.features.add("cast")
            self.ncast += 1
            t = self.pick(["cython.int", "cython.long", "cython.longlong"])
            return "cython.cast(%s, %s)" % (t, a), alo, ahi
        if k == "castd":
            self.features.add("cast")
            self.ncast += 1
            x, m = self.dexpr(depth - 1)
            if m < 2 ** 31 - 1:
                im = int(m) + 1
                return "cython.cast(cython.int, %s)" % x, -im, im
            return a, alo, ahi
        b, blo, bhi = self.iexpr(depth - 1)
        if k == "add":
            lo, hi = alo + blo, ahi + bhi
            src = "(%s + %s)" % (a, b)
        elif k == "sub":
            lo, hi = alo - bhi, ahi - blo
            src = "(%s - %s)" % (a, b)
        elif k == "mul":
            ps = [alo * blo, alo * bhi, ahi * blo, ahi * bhi]
            lo, hi = min(ps), max(ps)
            src = "(%s * %s)" % (a, b)
        elif k == "minmax":
            f = self.pick(["min", "max"])
            lo, hi = (min(alo, blo), min(ahi, bhi)) if f == "min" else (max(alo, blo), max(ahi, bhi))
            src = "%s(%s, %s)" % (f, a, b)
        elif k == "cond":
            c = self.cond(depth - 1)
            lo, hi = min(alo, blo), max(ahi, bhi)
            src = "(%s if %s else %s)" % (a, c, b)
        else:
            # division family: divisor made non-zero for the C-semantics helpers
            self.ndiv += 1
            m = max(abs(alo), abs(ahi))
            if k in ("cdiv", "cmod"):
                self.features.add(k)
                forms = ["(%s | 1)" % b, str(d(st.integers(1, 9))), "(%d)" % -d(st.integers(1, 9))]
                if not any(re.search(r"\b%s\b" % n, b) for n in self.objabs):
                    forms.append("(abs(%s) + 1)" % b)
                nz = self.pick(forms)
                bm = max(abs(blo), abs(bhi)) + 1
                if k == "cdiv":
                    return "cython.cdiv(%s, %s)" % (a, nz), -m, m
                return "cython.cmod(%s, %s)" % (a, nz), -bm, bm
            self.features.add("pydiv")
            bm = max(abs(blo), abs(bhi)) + 1
            if k == "floordiv":
                return "(%s // %s)" % (a, b), -m - 1, m + 1
            return "(%s %% %s)" % (a, b), -bm, bm
        if lo < I32[0] or hi > I32[1]:
            return a, alo, ahi      # would leave int32: drop the operator
        return src, lo, hi

    def cond(self, depth):
        a, _, _ = self.iexpr(depth)
        b, _, _ = self.iexpr(depth)
        return "(%s %s %s)" % (a, self.pick(["<", "<=", "==", "!=", ">", ">="]), b)

    # ---- double expressions: returns (source, max magnitude); all values are dyadic rationals of small size
    def dexpr(self, depth):
        d = self.draw
        choices = ["var", "const"]
        if depth > 0:
            choices += ["add", "sub", "mul", "div", "fromint", "neg", "castdd"]
        k = self.pick(choices)
        if k == "var" and self.dbls:
            n = self.pick(sorted(self.dbls))
            return n, self.dbls[n]
        if k in ("var", "const"):
            c = d(st.integers(-40, 40)) / 4.0
            return (repr(c) if c >= 0 else "(%r)" % c), abs(c)
        if k == "fromint":
            self.features.add("cast")
            self.ncast += 1
            a, lo, hi = self.iexpr(depth - 1)
            return "cython.cast(cython.double, %s)" % a, max(abs(lo), abs(hi))
        a, am = self.dexpr(depth - 1)
        if k == "neg":
            return "(-%s)" % a, am
        if k == "castdd":
            return "cython.cast(cython.double, %s)" % a, am
        b, bm = self.dexpr(depth - 1)
        if k == "add":
            return "(%s + %s)" % (a, b), am + bm
        if k == "sub":
            return "(%s - %s)" % (a, b), am + bm
        if k == "mul":
            if am * bm > 1e9:
                return a, am
            return "(%s * %s)" % (a, b), am * bm
        c = self.pick([2.0, 4.0, -8.0, 0.5, 3.0, -1.5])
        self.features.add("fdiv")
        return "(%s / %r)" % (a, c), am / abs(c)


def _fits(lo, hi, t):
    r = ITYPES[t]
    return r[0] <= lo and hi <= r[1]


STYLES = ["locals", "annot", "declare", "cfunc", "ccall", "cclass", "typedef"]


@st.composite
def items(draw, uid, style=None):
    """One test item: {"src", "cases", "meta"}."""
    g = Gen(draw, uid)
    if style is None:
        style = g.pick(STYLES)
    nargs = draw(st.integers(1, 3))
    names = ["a", "b", "c"][:nargs]
    has_d = g.chance(60)
    argtypes = {n: g.pick(["cython.int", "cython.long", "cython.short", "cython.longlong", "cython.Py_ssize_t"]) for n in names}
    for n in names:
        g.ints[n] = ARG_RANGE
        if argtypes[n] in ("cython.Py_ssize_t", "cython.short", "cython.schar"):
            g.objabs.add(n)
    if has_d:
        g.dbls["x"] = 50.0
    body = []
    local_types = {}
    nl = draw(st.integers(2, 5))
    for i in range(nl):
        if has_d and g.chance(35):
            src, m = g.dexpr(draw(st.integers(1, 3)))
            ln = "d%d" % i
            local_types[ln] = "cython.double"
            body.append((ln, src))
            g.dbls[ln] = m
        else:
            src, lo, hi = g.iexpr(draw(st.integers(1, 3)))
            cands = [t for t in ITYPES if _fits(lo, hi, t)]
            t = g.pick(cands)
            ln = "t%d" % i
            local_types[ln] = t
            body.append((ln, src))
            g.ints[ln] = (lo, hi)
            if t in ("cython.Py_ssize_t", "cython.short", "cython.schar"):
                g.objabs.add(ln)
    # optional bounded loop accumulating into a long
    loop = None
    if g.chance(35):
        n = draw(st.integers(1, 6))
        g.ints["i"] = (0, n - 1)
        src, lo, hi = g.iexpr(2)
        del g.ints["i"]
        if "i" in src or g.chance(50):
            loop = (n, src)
            local_types["acc"] = "cython.long"
            local_types["i"] = "cython.int"
            g.ints["acc"] = (min(0, n * lo), max(0, n * hi))
            g.features.add("loop")
    rets = sorted(local_types.keys() - {"i"})
    f = "f%s" % uid
    params = names + (["x"] if has_d else [])
    ptypes = dict(argtypes)
    if has_d:
        ptypes["x"] = "cython.double"

    def stmts(indent, assign):
        out = []
        for ln, src in body:
            out.append(indent + assign(ln, src))
        if loop:
            out.append(indent + assign("acc", "0"))
            out.append(indent + "for i in range(%d):" % loop[0])
            out.append(indent + "    acc = acc + %s" % loop[1])
        return out

    plain = lambda ln, src: "%s = %s" % (ln, src)
    ret = "return (%s,)" % ", ".join(rets)
    lines = []
    typed = 0
    if style == "locals":
        decl = dict(ptypes)
        decl.update(local_types)
        typed = len(decl)
        lines.append("@cython.locals(%s)" % ", ".join("%s=%s" % kv for kv in sorted(decl.items())))
        lines.append("def %s(%s):" % (f, ", ".join(params)))
        lines += stmts("    ", plain) + ["    " + ret]
    elif style == "annot":
        typed = len(ptypes) + len(local_types)
        lines.append("def %s(%s):" % (f, ", ".join("%s: %s" % (p, ptypes[p]) for p in params)))
        seen = set()

        def ann(ln, src):
            if ln in seen:
                return "%s = %s" % (ln, src)
            seen.add(ln)
            return "%s: %s = %s" % (ln, local_types[ln], src)
        if loop:
            lines.append("    i: cython.int")
        lines += stmts("    ", ann) + ["    " + ret]
    elif style == "declare":
        typed = len(ptypes) + len(local_types)
        lines.append("@cython.locals(%s)" % ", ".join("%s=%s" % (p, ptypes[p]) for p in params))
        lines.append("def %s(%s):" % (f, ", ".join(params)))
        seen = set()

        def dec(ln, src):
            if ln in seen:
                return "%s = %s" % (ln, src)
            seen.add(ln)
            return "%s = cython.declare(%s, %s)" % (ln, local_types[ln], src)
        if loop:
            lines.append("    i = cython.declare(cython.int)")
        lines += stmts("    ", dec) + ["    " + ret]
    elif style in ("cfunc", "ccall"):
        typed = len(ptypes) + len(local_types)
        decl = dict(ptypes)
        decl.update(local_types)
        h = "h%s" % uid
        # the typed helper returns ONE C value; the def wrapper forwards the arguments
        rn = g.pick(rets)
        rt = local_types[rn]
        lines.append("@cython.%s" % style)
        lines.append("@cython.returns(%s)" % rt)
        lines.append("@cython.locals(%s)" % ", ".join("%s=%s" % kv for kv in sorted(decl.items())))
        lines.append("def %s(%s):" % (h, ", ".join(params)))
        lines += stmts("    ", plain) + ["    return %s" % rn]
        lines.append("def %s(%s):" % (f, ", ".join(params)))
        lines.append("    return (%s(%s), %d)" % (h, ", ".join(params), 1))
        g.features.add(style)
        g.features.add("returns")
    elif style == "cclass":
        typed = len(ptypes) + len(local_types)
        cn = "C%s" % uid
        lines.append("@cython.cclass")
        lines.append("class %s:" % cn)
        for p in params:
            lines.append("    %s: %s" % (p, ptypes[p]))
        lines.append("    def __init__(self, %s):" % ", ".join(params))
        for p in params:
            lines.append("        self.%s = %s" % (p, p))
        decl = dict(local_types)
        lines.append("    @cython.locals(%s)" % ", ".join("%s=%s" % kv for kv in sorted(list(decl.items()) + list(ptypes.items()))))
        lines.append("    def m(self):")
        for p in params:
            lines.append("        %s = self.%s" % (p, p))
        lines += stmts("        ", plain) + ["        " + ret]
        lines.append("def %s(%s):" % (f, ", ".join(params)))
        lines.append("    return %s(%s).m()" % (cn, ", ".join(params)))
        g.features.add("cclass")
    else:   # typedef
        typed = len(ptypes) + len(local_types)
        tn = "T%s" % uid
        base = g.pick(["cython.int", "cython.long"])
        lines.append("%s = cython.typedef(%s)" % (tn, base))
        decl = dict(ptypes)
        for ln, t in local_types.items():
            decl[ln] = tn if (t in ("cython.int",) or (t == base)) and g.chance(70) else t
        lines.append("@cython.locals(%s)" % ", ".join("%s=%s" % kv for kv in sorted(decl.items())))
        lines.append("def %s(%s):" % (f, ", ".join(params)))
        lines += stmts("    ", plain) + ["    " + ret]
        g.features.add("typedef")
    g.features.add(style)
    # calls: arguments inside the declared ranges; doubles are multiples of 1/4
    cases = []
    ncalls = draw(st.integers(3, 6))
    for _ in range(ncalls):
        vals = [str(draw(st.one_of(st.integers(*ARG_RANGE), st.sampled_from([0, 1, -1, ARG_RANGE[0], ARG_RANGE[1]])))) for _ in names]
        if has_d:
            vals.append(repr(draw(st.integers(-200, 200)) / 4.0))
        cases.append({"expr": "M.%s(%s)" % (f, ", ".join(vals))})
    return {"src": "\n".join(lines) + "\n", "cases": cases,
            "meta": {"features": sorted(g.features), "typed": typed, "ndiv": g.ndiv, "ncast": g.ncast, "style": style}}
