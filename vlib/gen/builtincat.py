"""Call-site catalogue for C13: builtin calls and builtin-type methods that Cython replaces with specialised code.

A shape = (group, target, body, params) where params maps parameter name -> "POOL" or "POOL:ann1|ann2|" (typing variants of
that parameter; the empty variant is the untyped one).  Every shape is instantiated for the product of its typing variants.
Pools are lists of (expr, flags): flags 'f' = fresh per call (mutable), 's' = subclass instance / inexact type (not passed to a
parameter annotated with an exact builtin type), 'n' = None (same restriction).
"""
import itertools

STR = [("''", ""), ("'a'", ""), ("'abc'", ""), ("'abcabc'", ""), ("'Hello World'", ""), ("' a b '", ""), ("'a\\u00e9b'", ""),
       ("'\\u20acuro'", ""), ("'\\U0001f600x'", ""), ("'ABC'", ""), ("'123'", ""), ("'a\\nb\\r\\nc'", ""), ("'x' * 40", ""),
       ("'a,b,,c'", ""), ("'\\xdf'", ""), ("S.StrSub('abc')", "s"), ("None", "n")]
SUB = [("''", ""), ("'a'", ""), ("'b'", ""), ("'abc'", ""), ("'bc'", ""), ("' '", ""), ("'\\u00e9'", ""), ("'\\U0001f600'", ""), ("','", ""),
       ("S.StrSub('a')", "s"), ("None", "n"), ("1", "s"), ("b'a'", "s"), ("('a', 'x')", "s"), ("()", "s"), ("('b', 1)", "s"),
       ("('zz', 'abc')", "s"), ("['a']", "s")]
BYTES = [("b''", ""), ("b'a'", ""), ("b'abc'", ""), ("b'abcabc'", ""), ("b'\\xff\\xfe'", ""), ("b'hello world'", ""),
         ("b'a\\xc3\\xa9b'", ""), ("b'\\x00'", ""), ("b'\\xe2\\x82'", ""), ("S.BytesSub(b'abc')", "s"), ("None", "n")]
BSUB = [("b''", ""), ("b'a'", ""), ("b'bc'", ""), ("b'abc'", ""), ("bytearray(b'a')", "s"), ("(b'a', b'x')", "s"), ("()", "s"),
        ("'a'", "s"), ("None", "n"), ("97", "s"), ("(b'zz', 'a')", "s"), ("memoryview(b'a')", "s")]
BYTEARRAY = [("bytearray(b'')", "f"), ("bytearray(b'a')", "f"), ("bytearray(b'abc')", "f"), ("bytearray(b'abcabc')", "f"),
             ("bytearray(b'\\xff\\x00')", "f"), ("None", "n")]
LIST = [("[]", "f"), ("[1]", "f"), ("[3, 1, 2]", "f"), ("[1, 'a']", "f"), ("[[2], [1]]", "f"), ("list(range(10))", "f"), ("[None]", "f"),
        ("[1.5, -0.0, 0.0]", "f"), ("['b', 'a', 'c']", "f"), ("[True, 1, 1.0]", "f"), ("S.ListSub([2, 1])", "fs"), ("None", "n")]
TUPLE = [("()", ""), ("(1,)", ""), ("(3, 1, 2)", ""), ("(1, 'a')", ""), ("('b', 'a')", ""), ("tuple(range(10))", ""),
         ("S.TupleSub((2, 1))", "s"), ("None", "n")]
DICT = [("{}", "f"), ("{'a': 1}", "f"), ("{1: 'x', 2: 'y'}", "f"), ("{'a': None, (1, 2): 3}", "f"), ("{None: 0}", "f"),
        ("S.DictSub({'a': 1})", "fs"), ("None", "n")]
SET = [("set()", "f"), ("{1}", "f"), ("{1, 2, 3}", "f"), ("{'a', (1, 2)}", "f"), ("{None}", "f"), ("S.SetSub({1, 2})", "fs"), ("None", "n")]
FROZENSET = [("frozenset()", ""), ("frozenset({1, 2})", ""), ("None", "n")]
KEY = [("'a'", ""), ("1", ""), ("2", ""), ("None", ""), ("(1, 2)", ""), ("[1]", "f"), ("S.Unhashable()", ""), ("'zz'", ""), ("1.0", ""), ("True", "")]
IDX = [("-sys.maxsize - 1", ""), ("-11", ""), ("-3", ""), ("-1", ""), ("0", ""), ("1", ""), ("2", ""), ("3", ""), ("10", ""),
       ("sys.maxsize", ""), ("2**64", ""), ("-2**64", ""), ("True", ""), ("S.Idx(1)", ""), ("S.Idx(-1)", ""), ("1.5", ""), ("'1'", "")]
IDXN = IDX + [("None", "")]
CIDX = [("-11", ""), ("-3", ""), ("-1", ""), ("0", ""), ("1", ""), ("2", ""), ("3", ""), ("10", ""), ("sys.maxsize", ""),
        ("-sys.maxsize - 1", "")]
ANY = [("None", ""), ("0", ""), ("1", ""), ("-1", ""), ("2**70", ""), ("1.5", ""), ("float('nan')", ""), ("-0.0", ""), ("'a'", ""),
       ("''", ""), ("b'a'", ""), ("(1, 2)", ""), ("()", ""), ("[1]", "f"), ("[]", "f"), ("{}", "f"), ("{'a': 1}", "f"), ("{1, 2}", "f"),
       ("S.Plain()", ""), ("S.Unhashable()", ""), ("True", ""), ("False", ""), ("S.IntSub(5)", ""), ("S.FloatSub(1.5)", ""),
       ("S.StrSub('ab')", ""), ("(1+2j)", ""), ("range(3)", ""), ("iter([1, 2])", "f"), ("bytearray(b'ab')", "f"),
       ("frozenset({1})", ""), ("int", ""), ("S.Idx(3)", ""), ("S.IntOnly(3)", ""), ("Decimal('1.5')", ""), ("Fraction(1, 2)", "")]
NUM = [("0", ""), ("1", ""), ("-1", ""), ("2**70", ""), ("-2**63", ""), ("1.5", ""), ("-0.0", ""), ("float('nan')", ""), ("float('inf')", ""),
       ("True", ""), ("S.IntSub(-5)", ""), ("Decimal('-1.5')", ""), ("Fraction(-1, 2)", ""), ("(3-4j)", ""), ("'a'", ""), ("None", "")]
ITER = [("[]", "f"), ("[1, 2, 3]", "f"), ("(3, 1, 2)", ""), ("'bca'", ""), ("{'b': 1, 'a': 2}", "f"), ("{2, 1}", "f"), ("range(5)", ""),
        ("iter([2, 1])", "f"), ("[1, 'a']", "f"), ("[0, False, '']", "f"), ("[[1, 2], [3, 4]]", "f"), ("[(1, 'a'), (2, 'b')]", "f"),
        ("[(1, 2, 3)]", "f"), ("S.RaisingIter(2)", "f"), ("None", ""), ("5", ""), ("b'ba'", ""), ("[1.5, float('nan'), 0.5]", "f"),
        ("(x for x in [3, 1])", "f"), ("[True, 2]", "f"), ("['a', 'b']", "f"), ("[b'a']", "f"),
        ("[1, True, 1.0, 0, False, 0.0, -0.0]", "f"), ("[(1, 'a'), (1.0, 'a'), (True, 'a')]", "f"), ("[2, 1.0, True, 2.0, 1]", "f")]
ENC = [("'utf8'", ""), ("'utf-8'", ""), ("'UTF-8'", ""), ("'ascii'", ""), ("'latin-1'", ""), ("'latin1'", ""), ("'utf-16'", ""),
       ("'utf-16-le'", ""), ("'utf-32'", ""), ("'nonexistent'", ""), ("None", ""), ("1", ""), ("'U8'", ""), ("'utf_8'", "")]
ERR = [("'strict'", ""), ("'ignore'", ""), ("'replace'", ""), ("'nonexistent'", ""), ("None", ""), ("'surrogateescape'", ""),
       ("'backslashreplace'", ""), ("'xmlcharrefreplace'", "")]
INT_ARG = [("'12'", ""), ("' 12 '", ""), ("'0x1f'", ""), ("'1_000'", ""), ("b'12'", ""), ("12.7", ""), ("-12.7", ""), ("True", ""),
           ("None", ""), ("'z'", ""), ("2**70", ""), ("S.IntSub(3)", ""), ("S.Idx(4)", ""), ("S.IntOnly(5)", ""), ("float('nan')", ""),
           ("float('inf')", ""), ("''", ""), ("bytearray(b'7')", "f"), ("'\\u0663'", ""), ("Decimal('7.9')", ""), ("'1' * 5000", "")]
BASE = [("10", ""), ("0", ""), ("16", ""), ("2", ""), ("36", ""), ("1", ""), ("37", ""), ("-1", ""), ("None", ""), ("'10'", ""), ("True", ""),
        ("S.Idx(16)", ""), ("2**70", "")]
CHR_ARG = [("1.5", ""), ("0.0", ""), ("-0.5", ""), ("float('nan')", ""), ("Decimal('65')", ""), ("Fraction(65, 1)", ""), ("S.IntOnly(65)", ""),
           ("S.IntSub(65)", ""), ("S.FloatSub(65.0)", ""), ("0", ""), ("65", ""), ("255", ""), ("256", ""), ("0xd800", ""), ("0xffff", ""), ("0x10000", ""), ("0x10ffff", ""), ("0x110000", ""),
           ("-1", ""), ("2**31", ""), ("2**70", ""), ("True", ""), ("65.0", ""), ("'a'", ""), ("None", ""), ("S.Idx(66)", "")]
CHR_C = [("0", ""), ("65", ""), ("255", ""), ("256", ""), ("0xd800", ""), ("0xffff", ""), ("0x10000", ""), ("0x10ffff", ""), ("0x110000", ""),
         ("-1", ""), ("2**31 - 1", ""), ("-2**31", "")]
ORD_ARG = [("'a'", ""), ("''", ""), ("'ab'", ""), ("'\\u00e9'", ""), ("'\\U0001f600'", ""), ("b'a'", ""), ("b''", ""), ("b'ab'", ""),
           ("bytearray(b'a')", "f"), ("bytearray(b'ab')", "f"), ("1", ""), ("None", ""), ("S.StrSub('a')", ""), ("('a',)", ""),
           ("'\\ud800'", ""), ("S.BytesSub(b'a')", "")]
CLS = [("int", ""), ("str", ""), ("(int, str)", ""), ("()", ""), ("(int, (str, bytes))", ""), ("object", ""), ("1", ""), ("(int, 1)", ""),
       ("None", ""), ("type", ""), ("S.IntSub", ""), ("list | tuple", ""), ("float", ""), ("bool", "")]
SEP = [("None", ""), ("','", ""), ("' '", ""), ("''", ""), ("'ab'", ""), ("1", ""), ("b','", ""), ("'\\n'", "")]
MAXSPLIT = [("-1", ""), ("0", ""), ("1", ""), ("2", ""), ("sys.maxsize", ""), ("None", ""), ("True", ""), ("1.5", ""), ("-2**70", "")]
BOOLISH = [("True", ""), ("False", ""), ("0", ""), ("1", ""), ("None", ""), ("'x'", ""), ("2**70", "")]
STRLIST = [("[]", "f"), ("['a']", "f"), ("['a', 'b', 'c']", "f"), ("('a', 'b')", ""), ("'abc'", ""), ("['a', 1]", "f"), ("['a', None]", "f"),
           ("[b'a']", "f"), ("iter(['x', 'y'])", "f"), ("{'k': 1}", "f"), ("None", ""), ("5", ""), ("['a', S.StrSub('b')]", "f"),
           ("['\\u20ac', 'a', '\\U0001f600']", "f"), ("S.RaisingIter(1)", "f"), ("(c for c in 'xyz')", "f")]
BYTESLIST = [("[]", "f"), ("[b'a']", "f"), ("[b'a', b'b']", "f"), ("(b'a', bytearray(b'b'))", ""), ("[b'a', 'b']", "f"), ("None", ""),
             ("b'abc'", ""), ("[memoryview(b'ab'), b'c']", "f")]
PAIRS = [("[]", "f"), ("[('a', 1)]", "f"), ("[('a', 1), ('b', 2), ('a', 3)]", "f"), ("{'x': 1}", "f"), ("[(1, 2, 3)]", "f"), ("[1]", "f"),
         ("None", ""), ("'ab'", ""), ("['ab', 'cd']", "f"), ("S.DictSub({'k': 'v'})", "f"), ("[([], 1)]", "f"), ("5", ""),
         ("(p for p in [('g', 1)])", "f"), ("S.RaisingIter(1)", "f"), ("S.KeysOnly()", "f")]
BYTEVAL = [("0", ""), ("97", ""), ("255", ""), ("256", ""), ("-1", ""), ("'a'", ""), ("b'a'", ""), ("None", ""), ("True", ""), ("97.0", ""),
           ("2**70", ""), ("S.Idx(98)", "")]
NUM3 = [("0", ""), ("1", ""), ("-1", ""), ("2", ""), ("1.5", ""), ("-0.0", ""), ("0.0", ""), ("float('nan')", ""), ("2**70", ""), ("'a'", ""),
        ("'b'", ""), ("None", ""), ("True", ""), ("False", ""), ("(1, 2)", ""), ("(1, 3)", ""), ("S.IntSub(1)", ""), ("[1]", "f"),
        ("Fraction(3, 2)", "")]
CNUM = [("0", ""), ("1", ""), ("-1", ""), ("2", ""), ("7", ""), ("-7", ""), ("100", ""), ("2**31 - 1", ""), ("-2**31 + 1", "")]
PYINT = [("0", ""), ("1", ""), ("-1", ""), ("2**70", ""), ("-2**63", ""), ("-2**31", ""), ("2**63 - 1", ""), ("-(2**200)", "")]
CINT = [("-11", ""), ("-3", ""), ("-1", ""), ("0", ""), ("1", ""), ("2", ""), ("3", ""), ("10", ""), ("2**15 - 1", ""), ("-2**15", "")]
CSIZE = [("0", ""), ("1", ""), ("2", ""), ("3", ""), ("10", ""), ("2**63 - 1", ""), ("2**63", ""), ("2**64 - 1", "")]
KEYFUNC = [("None", ""), ("repr", ""), ("str", ""), ("len", ""), ("5", ""), ("abs", "")]
CHR_L = [("0", ""), ("65", ""), ("0x10ffff", ""), ("0x110000", ""), ("-1", ""), ("2**31", ""), ("2**32", ""), ("2**32 + 65", ""), ("2**62", ""),
         ("-2**62", ""), ("2**63 - 1", ""), ("-2**63", "")]
BINTV = [("True", ""), ("False", "")]
CSMALL = [("-3", ""), ("-1", ""), ("0", ""), ("1", ""), ("2", ""), ("10", "")]
CBYTE = [("0", ""), ("1", ""), ("97", ""), ("127", "")]
CDBL = [("0.0", ""), ("-0.0", ""), ("1.5", ""), ("-1.5", ""), ("float('nan')", ""), ("float('inf')", ""), ("float('-inf')", ""), ("2.0", ""),
        ("1e300", ""), ("5e-324", "")]

POOLS = {k: v for k, v in globals().items() if k.isupper() and isinstance(v, list)}

PRELUDE = '''
class _RaisingIter:
    def __init__(self, n): self.n = n
    def __iter__(self): return self
    def __next__(self):
        if self.n <= 0:
            raise RuntimeError("mid-way")
        self.n -= 1
        return (self.n, self.n)
S.RaisingIter = _RaisingIter
class _KeysOnly:
    def keys(self): return ["k1", "k2"]
    def __getitem__(self, k): return k.upper()
S.KeysOnly = _KeysOnly
'''

SHAPES = []


def shape(group, target, body, **params):
    SHAPES.append((group, target, body, params))


def _lines(*ls):
    return "\n".join("    " + l for l in ls)


# ---- builtin functions
shape("len", "len", _lines("return len(x)"), x="ANY")
for T, P in (("str", "STR"), ("bytes", "BYTES"), ("bytearray", "BYTEARRAY"), ("list", "LIST"), ("tuple", "TUPLE"), ("dict", "DICT"),
             ("set", "SET"), ("frozenset", "FROZENSET")):
    shape("len", "len", _lines("return len(x)"), x="%s:%s|" % (P, T))
shape("abs", "abs", _lines("return abs(x)"), x="NUM")
shape("abs", "abs", _lines("return abs(x)"), x="PYINT:int")
shape("abs", "abs", _lines("return abs(x)"), x="CNUM:cython.int|cython.long|cython.longlong")
shape("abs", "abs", _lines("return abs(x)"), x="CDBL:cython.double")
shape("minmax", "min", _lines("return min(a, b)"), a="NUM3", b="NUM3")
shape("minmax", "max", _lines("return max(a, b)"), a="NUM3", b="NUM3")
shape("minmax", "min", _lines("return min(a, b, c)"), a="NUM3", b="NUM3", c="NUM3")
shape("minmax", "max", _lines("return max(a, b, c)"), a="NUM3", b="NUM3", c="NUM3")
shape("minmax", "min", _lines("return min(a, 1)"), a="NUM3")
shape("minmax", "max", _lines("return max(0, a)"), a="NUM3")
shape("minmax", "min", _lines("return min(a, 1.5, b)"), a="NUM3", b="NUM3")
shape("minmax", "min", _lines("return min(a, b)"), a="CNUM:cython.int|cython.long", b="CNUM:cython.int|cython.longlong")
shape("minmax", "max", _lines("return max(a, b, 3)"), a="CNUM:cython.int", b="CNUM:cython.long")
shape("minmax", "min", _lines("return min(a, b)"), a="CDBL:cython.double", b="CDBL:cython.double")
for _f in ("min", "max"):
    for _a, _b in (("False", "0"), ("0", "False"), ("True", "1"), ("1", "True"), ("1.0", "1"), ("1", "1.0"), ("0.0", "-0.0"), ("-0.0", "0.0"),
                   ("2", "1.5"), ("1", "2.5"), ("True", "0.5"), ("1", "2**70"), ("2**70", "1.5")):
        shape("minmax-const", _f, _lines("return %s(%s, %s)" % (_f, _a, _b)), x="BOOLISH")
    shape("minmax-const", _f, _lines("return %s(1, 1.0, True)" % _f), x="BOOLISH")
    shape("minmax-const", _f, _lines("return %s(x, 1, 1.0)" % _f), x="NUM3")
shape("minmax", "min", _lines("return min(x, False, 0), max(1, True, x), min(0, x), max(x, 1.0)"), x="NUM3")
shape("minmax", "min", _lines("a = False", "b = 0", "return min(a, b), max(b, a), min(b, a)"), x="BOOLISH")
shape("minmax", "min", _lines("return min(x == y, 0), max(x is None, 0), min(not x, 1), max(0, x != y), min(0, x == y)"), x="NUM3", y="NUM3")
shape("minmax", "min", _lines("return min(a, 0), max(a, 1), min(0, a), max(1, a), min(a, b), max(b, a)"), a="BINTV:cython.bint", b="BINTV:cython.bint")
shape("minmax", "min", _lines("return min(a, i), max(i, a), min(i, a), max(a, i)"), a="BINTV:cython.bint", i="CSMALL:cython.int|cython.long|")
shape("minmax", "min", _lines("return min(a, i), max(i, a), min(i, a), max(a, i)"), a="BOOLISH", i="CSMALL:cython.int|")
shape("minmax", "min", _lines("c = a == b", "return min(c, 0), max(c, 1), min(False, 0), max(True, 1), min(0, False)"), a="NUM3", b="NUM3")
shape("minmax", "min", _lines("return min(x)"), x="ITER")
shape("minmax", "max", _lines("return max(x, default=None)"), x="ITER")
shape("minmax", "min", _lines("return min(x, key=lambda v: -v)"), x="ITER")
shape("minmax", "min", _lines("return min(v for v in x)"), x="ITER")
shape("sum", "sum", _lines("return sum(x)"), x="ITER")
shape("sum", "sum", _lines("return sum(x, 10)"), x="ITER")
shape("sum", "sum", _lines("return sum(v for v in x)"), x="ITER")
shape("sum", "sum", _lines("return sum([v * 2 for v in x])"), x="ITER")
shape("sum", "sum", _lines("return sum(x, [])"), x="ITER")
shape("sum", "sum", _lines("return sum(v for v in x if v)"), x="ITER")
shape("anyall", "any", _lines("return any(x)"), x="ITER")
shape("anyall", "all", _lines("return all(x)"), x="ITER")
shape("anyall", "any", _lines("return any(v for v in x)"), x="ITER")
shape("anyall", "all", _lines("return all(v for v in x)"), x="ITER")
shape("anyall", "any", _lines("return any(v == y for v in x)"), x="ITER", y="NUM3")
shape("anyall", "all", _lines("return all(v != y for v in x)"), x="ITER", y="NUM3")
shape("anyall", "any", _lines("return any(v for a in x for v in a)"), x="ITER")
shape("sorted", "sorted", _lines("return sorted(x)"), x="ITER")
shape("sorted", "sorted", _lines("return sorted(x, reverse=r)"), x="ITER", r="BOOLISH")
shape("sorted", "sorted", _lines("return sorted(x, key=repr)"), x="ITER")
shape("sorted", "sorted", _lines("return sorted(v for v in x)"), x="ITER")
shape("sorted", "sorted", _lines("return sorted(x, key=None, reverse=True)"), x="ITER")
shape("sorted", "sorted", _lines("return sorted(x, reverse=True)"), x="ITER")
shape("sorted", "sorted", _lines("return sorted(x, key=lambda v: 0, reverse=r)"), x="ITER", r="BOOLISH")
shape("sorted", "sorted", _lines("return sorted(x, key=lambda v: 0)"), x="ITER")
shape("sorted", "sorted", _lines("return sorted(x, reverse=False), sorted(x, key=str)"), x="ITER")
shape("sorted", "sorted", _lines("r = sorted(l)", "return r is l, r, l"), l="LIST:|list")
shape("sorted", "sorted", _lines("r = sorted(l, reverse=True)", "return r, l"), l="LIST:|list")
shape("sorted", "sorted", _lines("return sorted([v for v in x], reverse=True), sorted((v for v in x), key=repr, reverse=True)"), x="ITER")
shape("sorted", "sorted", _lines("return sorted(x, k)"), x="ITER", k="BOOLISH")
shape("sorted", "sorted", _lines("return sorted(x, reverse=r, key=k)"), x="ITER", r="BOOLISH", k="KEYFUNC")
shape("sorted", "sorted", _lines("return sorted(iterable=x)"), x="ITER")
shape("ordchr", "ord", _lines("return ord(x)"), x="ORD_ARG")
shape("ordchr", "ord", _lines("return ord(x)"), x="STR:str")
shape("ordchr", "ord", _lines("return ord(x)"), x="BYTES:bytes")
shape("ordchr", "ord", _lines("return ord(s[i])"), s="STR:str|", i="CIDX:cython.Py_ssize_t|")
shape("ordchr", "ord", _lines("return ord(s[i])"), s="BYTES:bytes|", i="CIDX:cython.Py_ssize_t|")
shape("ordchr", "chr", _lines("return chr(x)"), x="CHR_ARG")
shape("ordchr", "chr", _lines("return chr(x)"), x="CHR_C:cython.int")
shape("ordchr", "chr", _lines("return chr(x)"), x="CHR_L:cython.long|cython.longlong|cython.Py_ssize_t")
shape("ordchr", "chr", _lines("return chr(x)"), x="CSIZE:cython.size_t|cython.ulong")
shape("ordchr", "chr", _lines("return chr(x + 1)"), x="CHR_L:cython.long")
shape("isinstance", "isinstance", _lines("return isinstance(x, c)"), x="ANY", c="CLS")
for c in ("int", "str", "(int, float)", "(list, tuple, dict)", "bytes", "bool", "object", "type", "(str, bytes, bytearray)",
          "float", "complex", "set", "frozenset"):
    shape("isinstance", "isinstance", _lines("return isinstance(x, %s)" % c), x="ANY")
shape("type", "type", _lines("return type(x)"), x="ANY")
shape("type", "type", _lines("return type(x) is int"), x="ANY")
shape("type", "type", _lines("return type(x)(x)"), x="NUM")
shape("conv", "int", _lines("return int(x)"), x="INT_ARG")
shape("conv", "int", _lines("return int(x, b)"), x="INT_ARG", b="BASE")
shape("conv", "int", _lines("return int(x, 16)"), x="INT_ARG")
shape("conv", "int", _lines("return int(x)"), x="CDBL:cython.double")
shape("conv", "int", _lines("return int()"), x="BOOLISH")
shape("conv", "float", _lines("return float(x)"), x="INT_ARG")
shape("conv", "bool", _lines("return bool(x)"), x="ANY")
shape("conv", "bool", _lines("return bool()"), x="BOOLISH")
shape("conv", "str", _lines("return str(x)"), x="ANY")
shape("conv", "str", _lines("return str(x, e)"), x="BYTES", e="ENC")
shape("conv", "str", _lines("return str(x, 'utf8', r)"), x="BYTES", r="ERR")
shape("conv", "str", _lines("return str()"), x="BOOLISH")
shape("conv", "list", _lines("return list(x)"), x="ITER")
shape("conv", "list", _lines("return list(v for v in x)"), x="ITER")
shape("conv", "list", _lines("r = list(x)", "return r is x, r"), x="LIST:|list")
shape("conv", "tuple", _lines("return tuple(x)"), x="ITER")
shape("conv", "tuple", _lines("r = tuple(x)", "return r is x, r"), x="TUPLE:|tuple")
shape("conv", "tuple", _lines("return tuple(v for v in x)"), x="ITER")
shape("conv", "tuple", _lines("return tuple(x)"), x="LIST:list")
shape("conv", "set", _lines("return set(x)"), x="ITER")
shape("conv", "set", _lines("return set(v for v in x)"), x="ITER")
shape("conv", "set", _lines("return {v for v in x}"), x="ITER")
shape("conv", "frozenset", _lines("return frozenset(x)"), x="ITER")
shape("conv", "frozenset", _lines("r = frozenset(x)", "return r is x, r"), x="FROZENSET:|frozenset")
shape("conv", "frozenset", _lines("return frozenset()"), x="BOOLISH")
shape("conv", "dict", _lines("return dict(x)"), x="PAIRS")
shape("conv", "dict", _lines("return dict(x, k=1)"), x="PAIRS")
shape("conv", "dict", _lines("return dict((k, v) for k, v in x)"), x="PAIRS")
shape("conv", "dict", _lines("return dict(a=x, b=2)"), x="ANY")
shape("conv", "dict", _lines("return dict(**x)"), x="DICT:|dict")
shape("conv", "dict", _lines("r = dict(x)", "return r is x, r"), x="DICT:|dict")
shape("conv", "dict", _lines("return {k: v for k, v in x}"), x="PAIRS")
shape("conv", "memoryview", _lines("return memoryview(x).tobytes()"), x="BYTES")
shape("conv", "slice", _lines("return slice(a)"), a="IDXN")
shape("conv", "slice", _lines("return slice(a, b)"), a="IDXN", b="IDXN")
shape("conv", "slice", _lines("return slice(a, b, 2)"), a="IDXN", b="IDXN")
shape("misc", "callable", _lines("return callable(x)"), x="ANY")
shape("misc", "hash", _lines("return hash(x) == hash(x)"), x="KEY")
shape("misc", "divmod", _lines("return divmod(a, b)"), a="NUM3", b="NUM3")
shape("misc", "bin", _lines("return bin(x), hex(x), oct(x)"), x="NUM")
shape("misc", "getattr", _lines("return getattr(x, 'real', 'dflt')"), x="ANY")
shape("misc", "getattr", _lines("return getattr(x, n)"), x="ANY", n="SUB")
shape("misc", "hasattr", _lines("return hasattr(x, 'append')"), x="ANY")
shape("misc", "iter", _lines("return list(iter(x))"), x="ITER")
shape("misc", "next", _lines("return next(iter(x), 'dflt')"), x="ITER")
shape("misc", "next", _lines("return next(iter(x))"), x="ITER")
shape("misc", "repr", _lines("return repr(x), ascii(x)"), x="ANY")
shape("misc", "format", _lines("return format(x)"), x="ANY")
shape("misc", "format", _lines("return format(x, s)"), x="NUM", s="SUB")
shape("misc", "issubclass", _lines("return issubclass(x, c)"), x="CLS", c="CLS")
# ---- list methods
shape("list", "append", _lines("r = l.append(x)", "return r, l"), l="LIST:|list", x="ANY")
shape("list", "append", _lines("l.append(x)", "l.append(x)", "return l"), l="ANY", x="KEY")
shape("list", "extend", _lines("r = l.extend(x)", "return r, l"), l="LIST:|list", x="ITER")
shape("list", "pop", _lines("r = l.pop()", "return r, l"), l="LIST:|list")
shape("list", "pop", _lines("r = l.pop(i)", "return r, l"), l="LIST:|list", i="IDX")
shape("list", "pop", _lines("r = l.pop(i)", "return r, l"), l="LIST:|list", i="CIDX:cython.Py_ssize_t|cython.longlong")
shape("list", "pop", _lines("r = l.pop(i)", "return r, l"), l="LIST:|list", i="CINT:cython.int|cython.short")
shape("list", "pop", _lines("r = l.pop(i)", "return r, l"), l="LIST:|list", i="CSIZE:cython.size_t")
shape("list", "pop", _lines("r = l.pop(-1)", "return r, l"), l="LIST:|list")
shape("list", "pop", _lines("r = l.pop(0)", "return r, l"), l="LIST:|list")
shape("list", "pop", _lines("r = l.pop(-2)", "return r, l"), l="LIST:|list")
shape("list", "pop", _lines("return x.pop()"), x="ANY")
shape("list", "pop", _lines("return x.pop(k)"), x="ANY", k="KEY")
shape("list", "pop", _lines("return x.pop(k, 'dflt')"), x="ANY", k="KEY")
shape("list", "sort", _lines("r = l.sort()", "return r, l"), l="LIST:|list")
shape("list", "sort", _lines("r = l.sort(reverse=b)", "return r, l"), l="LIST:|list", b="BOOLISH")
shape("list", "sort", _lines("r = l.sort(key=repr)", "return r, l"), l="LIST:|list")
shape("list", "reverse", _lines("r = l.reverse()", "return r, l"), l="LIST:|list")
shape("list", "insert", _lines("r = l.insert(i, x)", "return r, l"), l="LIST:|list", i="IDX", x="KEY")
shape("list", "insert", _lines("r = l.insert(i, 'v')", "return r, l"), l="LIST:list", i="CIDX:cython.Py_ssize_t")
shape("list", "insert", _lines("r = l.insert(i, 'v')", "return r, l"), l="LIST:list", i="CINT:cython.int")
shape("list", "index", _lines("return l.index(x)"), l="LIST:|list", x="KEY")
shape("list", "count", _lines("return l.count(x)"), l="LIST:|list", x="KEY")
shape("list", "copy", _lines("r = l.copy()", "return r is l, r"), l="LIST:|list")
shape("list", "clear", _lines("r = l.clear()", "return r, l"), l="LIST:|list")
shape("list", "contains", _lines("return x in l, x not in l"), l="LIST:|list", x="KEY")
shape("list", "inferred", _lines("l = []", "l.append(x)", "l.extend(y)", "l.insert(0, x)", "return l.pop(), l"), x="KEY", y="ITER")
shape("list", "inferred", _lines("l = [x, x]", "r = l.pop(i)", "return r, l"), x="KEY", i="IDX")
shape("list", "mul", _lines("return l * n"), l="LIST:|list", n="CSMALL:cython.int|cython.Py_ssize_t|")
shape("list", "literal", _lines("return [x, y].index(y), [x].count(y)"), x="KEY", y="KEY")
# ---- tuple
shape("tuple", "contains", _lines("return x in t"), t="TUPLE:|tuple", x="KEY")
shape("tuple", "index", _lines("return t.index(x), t.count(x)"), t="TUPLE:|tuple", x="KEY")
shape("tuple", "contains", _lines("return x in (1, 'a', None)"), x="KEY")
shape("tuple", "contains", _lines("return x in ('a', 'abc', 'zz')"), x="SUB")
# ---- dict methods
shape("dict", "get", _lines("return d.get(k)"), d="DICT:|dict", k="KEY")
shape("dict", "get", _lines("return d.get(k, 'dflt')"), d="DICT:|dict", k="KEY")
shape("dict", "get", _lines("return d.get(k, v)"), d="DICT:dict", k="KEY", v="KEY")
shape("dict", "get", _lines("return d.get('a')"), d="DICT:|dict")
shape("dict", "setdefault", _lines("r = d.setdefault(k)", "return r, d"), d="DICT:|dict", k="KEY")
shape("dict", "setdefault", _lines("r = d.setdefault(k, v)", "return r, d"), d="DICT:|dict", k="KEY", v="KEY")
shape("dict", "setdefault", _lines("r = d.setdefault(k, [])", "r.append(1)", "return d"), d="DICT:|dict", k="KEY")
shape("dict", "pop", _lines("r = d.pop(k)", "return r, d"), d="DICT:|dict", k="KEY")
shape("dict", "pop", _lines("r = d.pop(k, 'dflt')", "return r, d"), d="DICT:|dict", k="KEY")
shape("dict", "pop", _lines("r = d.pop(k, None)", "return r, d"), d="DICT:dict", k="KEY")
shape("dict", "keys", _lines("return list(d.keys()), list(d.values()), list(d.items())"), d="DICT:|dict")
shape("dict", "keys", _lines("return sorted(d.keys(), key=repr), len(d.items())"), d="DICT:|dict")
shape("dict", "keys", _lines("return type(d.keys()).__name__, type(d.items()).__name__"), d="DICT:|dict")
shape("dict", "copy", _lines("r = d.copy()", "return r is d, type(r).__name__, r"), d="DICT:|dict")
shape("dict", "clear", _lines("r = d.clear()", "return r, d"), d="DICT:|dict")
shape("dict", "update", _lines("r = d.update(x)", "return r, d"), d="DICT:|dict", x="PAIRS")
shape("dict", "update", _lines("r = d.update(a=1)", "return r, d"), d="DICT:|dict")
shape("dict", "contains", _lines("return k in d, k not in d"), d="DICT:|dict", k="KEY")
shape("dict", "getitem", _lines("return d[k]"), d="DICT:|dict", k="KEY")
shape("dict", "setitem", _lines("d[k] = 1", "return d"), d="DICT:|dict", k="KEY")
shape("dict", "delitem", _lines("del d[k]", "return d"), d="DICT:|dict", k="KEY")
shape("dict", "iter", _lines("return [k for k in d], [(k, v) for k, v in d.items()], [v for v in d.values()]"), d="DICT:|dict")
shape("dict", "iter", _lines("out = []", "for k in d.keys():", "    out.append(k)", "return out"), d="DICT:|dict")
shape("dict", "iter", _lines("out = []", "for k, v in x.items():", "    out.append((k, v))", "return out"), x="ANY")
shape("dict", "inferred", _lines("d = {}", "d.setdefault(k, []).append(v)", "return d.get(k), d.pop(k, 0), d"), k="KEY", v="KEY")
shape("dict", "inferred", _lines("d = {'a': 1}", "return d.get(k, 2), k in d, d.pop('a')"), k="KEY")
shape("dict", "literal", _lines("return {'a': 1, 'b': x}.get(k, x)"), x="KEY", k="KEY")
# ---- set methods
shape("set", "add", _lines("r = s.add(x)", "return r, s"), s="SET:|set", x="KEY")
shape("set", "discard", _lines("r = s.discard(x)", "return r, s"), s="SET:|set", x="KEY")
shape("set", "discard", _lines("r = s.discard(x)", "return r, s"), s="SET:set", x="SET")
shape("set", "remove", _lines("r = s.remove(x)", "return r, s"), s="SET:|set", x="KEY")
shape("set", "remove", _lines("r = s.remove(x)", "return r, s"), s="SET:set", x="SET")
shape("set", "pop", _lines("r = s.pop()", "return r, s"), s="SET:|set")
shape("set", "clear", _lines("r = s.clear()", "return r, s"), s="SET:|set")
shape("set", "update", _lines("r = s.update(x)", "return r, s"), s="SET:|set", x="ITER")
shape("set", "update", _lines("r = s.update(x, y)", "return r, s"), s="SET:set", x="ITER", y="ITER")
shape("set", "update", _lines("r = s.update()", "return r, s"), s="SET:|set")
shape("set", "contains", _lines("return x in s, x not in s"), s="SET:|set", x="KEY")
shape("set", "contains", _lines("return x in s"), s="FROZENSET:|frozenset", x="KEY")
shape("set", "contains", _lines("return x in {1, 'a', None}"), x="KEY")
shape("set", "contains", _lines("return x in s"), s="SET:set", x="SET")
shape("set", "ops", _lines("return s | t, s & t, s - t, s ^ t"), s="SET:|set", t="SET:|set")
shape("set", "inferred", _lines("s = set()", "s.add(x)", "s.discard(y)", "s.update(z)", "return s"), x="KEY", y="KEY", z="ITER")
shape("set", "iter", _lines("return sorted([v for v in s], key=repr)"), s="SET:|set")
# ---- bytearray
shape("bytearray", "append", _lines("r = b.append(x)", "return r, b"), b="BYTEARRAY:|bytearray", x="BYTEVAL")
shape("bytearray", "append", _lines("r = b.append(x)", "return r, b"), b="BYTEARRAY:bytearray", x="CNUM:cython.int|cython.long")
shape("bytearray", "append", _lines("r = b.append(x)", "return r, b"), b="BYTEARRAY:bytearray", x="CBYTE:cython.char|cython.uchar")
shape("bytearray", "extend", _lines("r = b.extend(x)", "return r, b"), b="BYTEARRAY:|bytearray", x="BSUB")
shape("bytearray", "extend", _lines("r = b.extend(x)", "return r, b"), b="BYTEARRAY:bytearray", x="ITER")
shape("bytearray", "append", _lines("b = bytearray()", "b.append(x)", "b.extend(y)", "return b"), x="BYTEVAL", y="BSUB")
shape("bytearray", "startswith", _lines("return b.startswith(x), b.endswith(x)"), b="BYTEARRAY:|bytearray", x="BSUB")
shape("bytearray", "startswith", _lines("return b.startswith(x, i), b.endswith(x, i, j)"), b="BYTEARRAY:|bytearray", x="BSUB", i="IDXN", j="IDXN")
shape("bytearray", "decode", _lines("return b.decode(e)"), b="BYTEARRAY:|bytearray", e="ENC")
shape("bytearray", "contains", _lines("return x in b"), b="BYTEARRAY:|bytearray", x="BYTEVAL")
# ---- str methods
shape("str", "split", _lines("return s.split()"), s="STR:|str")
shape("str", "split", _lines("return s.split(sep)"), s="STR:|str", sep="SEP")
shape("str", "split", _lines("return s.split(sep, n)"), s="STR:|str", sep="SEP", n="MAXSPLIT")
shape("str", "split", _lines("return s.split(',', 1), s.split(None, 2), s.split(maxsplit=1)"), s="STR:|str")
shape("str", "rsplit", _lines("return s.rsplit(sep, n)"), s="STR:|str", sep="SEP", n="MAXSPLIT")
shape("str", "splitlines", _lines("return s.splitlines(), s.splitlines(True)"), s="STR:|str")
shape("str", "splitlines", _lines("return s.splitlines(k)"), s="STR:|str", k="BOOLISH")
shape("str", "join", _lines("return s.join(x)"), s="STR:|str", x="STRLIST")
shape("str", "join", _lines("return ','.join(x)"), x="STRLIST")
shape("str", "join", _lines("return ''.join([v for v in x])"), x="STRLIST")
shape("str", "join", _lines("return '-'.join(v for v in x)"), x="STRLIST")
shape("str", "join", _lines("return s.join([a, b])"), s="STR:|str", a="SUB", b="SUB")
shape("str", "startswith", _lines("return s.startswith(x)"), s="STR:|str", x="SUB")
shape("str", "endswith", _lines("return s.endswith(x)"), s="STR:|str", x="SUB")
shape("str", "startswith", _lines("return s.startswith(x, i)"), s="STR:|str", x="SUB", i="IDXN")
shape("str", "endswith", _lines("return s.endswith(x, i, j)"), s="STR:|str", x="SUB", i="IDXN", j="IDXN")
shape("str", "startswith", _lines("return s.startswith(x, i, j)"), s="STR:str", x="SUB", i="CIDX:cython.Py_ssize_t", j="CIDX:cython.Py_ssize_t")
shape("str", "startswith", _lines("return s.startswith('a'), s.endswith(('c', 'x')), s.startswith('ab', 1), s.endswith('', 5, 2)"), s="STR:|str")
shape("str", "find", _lines("return s.find(x), s.rfind(x)"), s="STR:|str", x="SUB")
shape("str", "find", _lines("return s.find(x, i), s.rfind(x, i)"), s="STR:|str", x="SUB", i="IDXN")
shape("str", "find", _lines("return s.find(x, i, j), s.rfind(x, i, j)"), s="STR:|str", x="SUB", i="IDXN", j="IDXN")
shape("str", "find", _lines("return s.find(x, i, j)"), s="STR:str", x="SUB", i="CIDX:cython.Py_ssize_t", j="CIDX:cython.Py_ssize_t")
shape("str", "count", _lines("return s.count(x)"), s="STR:|str", x="SUB")
shape("str", "count", _lines("return s.count(x, i, j)"), s="STR:|str", x="SUB", i="IDXN", j="IDXN")
shape("str", "index", _lines("return s.index(x), s.rindex(x)"), s="STR:|str", x="SUB")
shape("str", "replace", _lines("return s.replace(a, b)"), s="STR:|str", a="SUB", b="SUB")
shape("str", "replace", _lines("return s.replace(a, b, n)"), s="STR:|str", a="SUB", b="SUB", n="MAXSPLIT")
shape("str", "replace", _lines("return s.replace('a', 'xy'), s.replace('', '-', 2), s.replace('b', '', -1)"), s="STR:|str")
shape("str", "encode", _lines("return s.encode()"), s="STR:|str")
shape("str", "encode", _lines("return s.encode(e)"), s="STR:|str", e="ENC")
shape("str", "encode", _lines("return s.encode(e, r)"), s="STR:|str", e="ENC", r="ERR")
for e in ("'utf8'", "'utf-8'", "'UTF-8'", "'ascii'", "'latin-1'", "'iso-8859-1'", "'utf-16'", "'utf-16le'", "'utf-32'", "'U8'", "'cp1252'",
          "'raw-unicode-escape'", "'unicode_escape'"):
    shape("str", "encode", _lines("return s.encode(%s)" % e), s="STR:|str")
    shape("str", "encode", _lines("return s.encode(%s, 'replace'), s.encode(%s, errors='ignore')" % (e, e)), s="STR:|str")
shape("str", "encode", _lines("return s.encode(encoding='ascii', errors=r)"), s="STR:|str", r="ERR")
for m in ("isalpha", "isdigit", "isspace", "isupper", "islower", "istitle", "isalnum", "isdecimal", "isnumeric", "isidentifier", "isprintable",
          "isascii", "lower", "upper", "title", "capitalize", "swapcase", "casefold", "strip", "lstrip", "rstrip"):
    shape("str", m, _lines("return s.%s()" % m), s="STR:|str")
shape("str", "isX", _lines("c = s[i]", "return c.isalpha(), c.isdigit(), c.isspace(), c.isupper(), c.islower(), c.isalnum(), c.isdecimal(), "
                            "c.isnumeric(), c.istitle(), c.lower(), c.upper(), c.title()"), s="STR:str", i="CIDX:cython.Py_ssize_t")
shape("str", "strip", _lines("return s.strip(x), s.lstrip(x), s.rstrip(x)"), s="STR:|str", x="SUB")
shape("str", "contains", _lines("return x in s, x not in s"), s="STR:|str", x="SUB")
shape("str", "contains", _lines("return s[i] in s, s[i] in 'abc', s[i] == 'a', s[i] != x"), s="STR:str", i="CIDX:cython.Py_ssize_t", x="SUB")
shape("str", "contains", _lines("return x in 'abc', x == 'a', 'a' == x, x != 'abc', x == ''"), x="SUB")
shape("str", "mul", _lines("return s * n"), s="STR:|str", n="CSMALL:cython.int|cython.Py_ssize_t|")
shape("str", "concat", _lines("return s + t, s == t, s != t, s < t"), s="STR:|str", t="SUB")
shape("str", "iter", _lines("return [c for c in s], [ord(c) for c in s], list(reversed(s)), list(enumerate(s))"), s="STR:|str")
shape("str", "partition", _lines("return s.partition(x), s.rpartition(x)"), s="STR:|str", x="SUB")
shape("str", "format", _lines("return s.format(x), s.zfill(5), s.center(7, '*'), s.ljust(6), s.expandtabs()"), s="STR:|str", x="KEY")
# ---- bytes methods
shape("bytes", "decode", _lines("return b.decode()"), b="BYTES:|bytes")
shape("bytes", "decode", _lines("return b.decode(e)"), b="BYTES:|bytes", e="ENC")
shape("bytes", "decode", _lines("return b.decode(e, r)"), b="BYTES:|bytes", e="ENC", r="ERR")
for e in ("'utf8'", "'utf-8'", "'UTF-8'", "'ascii'", "'latin-1'", "'iso-8859-1'", "'utf-16'", "'utf-16le'", "'utf-16-be'", "'utf-32'", "'U8'", "'cp1252'"):
    shape("bytes", "decode", _lines("return b.decode(%s)" % e), b="BYTES:|bytes")
    shape("bytes", "decode", _lines("return b.decode(%s, 'replace'), b.decode(%s, errors='ignore')" % (e, e)), b="BYTES:|bytes")
    shape("bytes", "decode", _lines("return b[i:].decode(%s), b[:j].decode(%s), b[i:j].decode(%s, 'replace')" % (e, e, e)), b="BYTES:bytes",
          i="CIDX:cython.Py_ssize_t|", j="CIDX:cython.Py_ssize_t|")
shape("bytes", "decode", _lines("return b[i:j].decode('utf8')"), b="BYTES:|bytes", i="IDXN", j="IDXN")
shape("bytes", "decode", _lines("return b[1:].decode('ascii'), b[:-1].decode('latin-1'), b[-2:].decode('utf8', 'ignore'), b[1:2].decode()"), b="BYTES:|bytes")
shape("bytes", "decode", _lines("return b.decode(encoding='utf8', errors=r)"), b="BYTES:|bytes", r="ERR")
shape("bytes", "startswith", _lines("return b.startswith(x), b.endswith(x)"), b="BYTES:|bytes", x="BSUB")
shape("bytes", "startswith", _lines("return b.startswith(x, i)"), b="BYTES:|bytes", x="BSUB", i="IDXN")
shape("bytes", "endswith", _lines("return b.endswith(x, i, j)"), b="BYTES:|bytes", x="BSUB", i="IDXN", j="IDXN")
shape("bytes", "startswith", _lines("return b.startswith(x, i, j)"), b="BYTES:bytes", x="BSUB", i="CIDX:cython.Py_ssize_t", j="CIDX:cython.Py_ssize_t")
shape("bytes", "startswith", _lines("return b.startswith(b'a'), b.endswith((b'c', b'x')), b.startswith(b'ab', 1), b.endswith(b'', 5, 2)"), b="BYTES:|bytes")
shape("bytes", "join", _lines("return b.join(x)"), b="BYTES:|bytes", x="BYTESLIST")
shape("bytes", "join", _lines("return b', '.join(x)"), x="BYTESLIST")
shape("bytes", "contains", _lines("return x in b"), b="BYTES:|bytes", x="BYTEVAL")
shape("bytes", "contains", _lines("return x in b'abc', b[i] in b"), b="BYTES:bytes", x="CBYTE:cython.int|cython.char", i="CIDX:cython.Py_ssize_t")
shape("bytes", "find", _lines("return b.find(x), b.count(x), b.replace(x, b'-'), b.split(x), b.strip(), b.upper(), b.hex()"), b="BYTES:|bytes", x="BSUB")
shape("bytes", "iter", _lines("return [c for c in b], list(reversed(b)), b * 2, b + b, b == b'abc', b != x"), b="BYTES:|bytes", x="BSUB")
shape("bytes", "literal", _lines("return b'abc'.decode(e), 'abc'.encode(e)"), e="ENC")


def parse_param(spec):
    if ":" in spec:
        pool, anns = spec.split(":", 1)
        return pool, anns.split("|")
    return spec, [""]


def instantiate():
    """-> list of kernels: dict(group, target, src_template, params=[(name, pool, ann)], typed=bool)."""
    out = []
    for group, target, body, params in SHAPES:
        names = list(params)
        variants = [parse_param(params[n]) for n in names]
        for combo in itertools.product(*[v[1] for v in variants]):
            plist = [(n, variants[i][0], combo[i]) for i, n in enumerate(names)]
            out.append({"group": group, "target": target, "body": body, "params": plist,
                        "typed": any(a for _, _, a in plist)})
    return out


def pool_for(pool, ann):
    """Values of `pool` admissible for a parameter annotated `ann` ('' = untyped)."""
    vals = POOLS[pool]
    if ann and not ann.startswith("cython."):
        return [(e, f) for e, f in vals if "s" not in f and "n" not in f]
    return vals
