"""Generator + model for C46 file-level histories: small Cython source trees with cimport/include dependencies.

A tree is a JSON-able dict  {"files": {relpath: spec}, "modules": [relpath, ...]}  with
  spec = {"kind": "pyx"|"py"|"pxd"|"modpxd"|"pxi"|"declpxi"|"init-py"|"init-pxd",
          "deps": [[edge_kind, style, target_relpath], ...],      edge_kind: "cimport" | "include"
          "decoys": [[style, statement_kind, target_relpath], ...],
          "rev": int}
Texts are rendered from the spec (render_file), so the model always knows the true dependency edges; decoys are
statements hidden in strings / comments that name EXISTING files.

Model semantics (= what the compiler reads for a module):
  closure(module) = module + its same-name .pxd + everything reachable through cimport and include edges
  (+ the package's __init__.pxd when the package itself is the cimport source: from pkg cimport mod / from . cimport mod).
"""
from hypothesis import strategies as st

TOP_PXDS = ["vqa", "vqb", "vqc", "vqd"]
PKG = "vqpkg"
PKG_PXDS = ["sub", "other"]

CIMPORT_STYLES_TOP = ["plain", "tab", "from", "from-paren", "from-cont", "list"]
CIMPORT_STYLES_PKG_OUT = ["pkg-dotted", "pkg-from", "pkg-from-name"]
CIMPORT_STYLES_PKG_IN = ["rel-bare", "rel-dotted", "pkg-dotted"]
CIMPORT_STYLES_PY = ["py-from", "py-import"]
DECOY_STYLES = ["str", "triple", "triple-single", "comment", "fstring", "fstring-field", "raw-triple", "continued-str",
                "docstring"]


def modname(rel):
    """vqa.pxd -> vqa ; vqpkg/sub.pxd -> vqpkg.sub"""
    return rel.rsplit(".", 1)[0].replace("/", ".")


def tname(rel):
    return rel.rsplit(".", 1)[0].split("/")[-1] + "_t"


def in_pkg(rel):
    return rel.startswith(PKG + "/")


# --------------------------------------------------------------------------- rendering

def stmt_for(edge, src_rel):
    kind, style, target = edge
    if kind == "include":
        q = '"' if style != "include-sq" else "'"
        sp = "\t" if style == "include-tab" else " "
        return "include%s%s%s%s" % (sp, q, target, q)
    m = modname(target)
    t = tname(target)
    base = m.split(".")[-1]
    if style in ("plain", "list"):
        return "cimport %s" % m
    if style == "tab":
        return "cimport\t%s" % m
    if style == "from":
        return "from %s cimport %s" % (m, t)
    if style == "from-paren":
        return "from %s cimport (%s, %s)" % (m, t, t[:-2] + "_u")
    if style == "from-cont":
        return "from %s cimport \\\n    %s" % (m, t)
    if style == "pkg-dotted":
        return "cimport %s" % m
    if style == "pkg-from":
        return "from %s cimport %s" % (PKG, base)
    if style == "pkg-from-name":
        return "from %s cimport %s" % (m, t)
    if style == "rel-bare":
        return "from . cimport %s" % base
    if style == "rel-dotted":
        return "from .%s cimport %s" % (base, t)
    if style == "py-from":
        return "from cython.cimports.%s import %s" % (m, t)
    if style == "py-import":
        return "import cython.cimports.%s as %s_mod" % (m, base)
    raise ValueError(style)


def decoy_text(n, decoy):
    style, skind, target = decoy
    if skind == "include":
        inner = 'include "%s"' % target
    elif skind == "from":
        inner = "from %s cimport %s" % (modname(target), tname(target))
    else:
        inner = "cimport %s" % modname(target)
    v = "dq%d" % n
    if style == "str":
        return '%s = "%s"' % (v, inner.replace('"', "'"))
    if style == "triple":
        return '%s = """\n%s\n"""' % (v, inner)
    if style == "triple-single":
        return "%s = '''\n%s\n'''" % (v, inner)
    if style == "comment":
        return "# %s\n#%s" % (inner, inner)
    if style == "fstring":
        return '%s = f"""{%d}\n%s\n"""' % (v, n, inner)
    if style == "fstring-field":
        return "%s = f'''{ {'k': %d}['k'] }{%d!r:>4}\n%s\n'''" % (v, n, n, inner)
    if style == "raw-triple":
        return '%s = r"""\\d\\\n%s\n"""' % (v, inner)
    if style == "continued-str":
        return '%s = "x\\\n%s"' % (v, inner.replace('"', "'"))
    if style == "docstring":
        return 'def df%d():\n    """\n%s\n    """\n    return %d' % (n, inner, n)
    raise ValueError(style)


def render_file(tree, rel):
    spec = tree["files"][rel]
    kind = spec["kind"]
    out = ["# rev %d" % spec["rev"]]
    if kind == "py":
        out.append("import cython")
    # group "list" style cimports into one statement
    listed = [e for e in spec["deps"] if e[0] == "cimport" and e[1] == "list"]
    done_list = False
    for e in spec["deps"]:
        if e[0] == "cimport" and e[1] == "list":
            if not done_list:
                out.append("cimport " + ", ".join(modname(x[2]) for x in listed))
                done_list = True
            continue
        out.append(stmt_for(e, rel))
    for n, d in enumerate(spec.get("decoys", [])):
        out.append(decoy_text(n, d))
    base = rel.rsplit(".", 1)[0].split("/")[-1]
    if kind in ("pyx", "py"):
        out.append("%s_val = %d" % (base, spec["rev"]))
    elif kind == "pxd":
        out.append("ctypedef int %s_t" % base)
        out.append("ctypedef int %s_u" % base)
    elif kind == "modpxd":
        out.append("cdef int %s_hidden" % base)
    elif kind == "pxi":
        out.append("%s_val = %d" % (base, spec["rev"]))
    elif kind == "declpxi":
        out.append("ctypedef int %s_t" % base)
    elif kind == "init-pxd":
        out.append("ctypedef int %s_init_t" % PKG)
    return "\n".join(out) + "\n"


# --------------------------------------------------------------------------- model

def edges_of(tree, rel):
    """-> list of (edge_kind_label, target) : true dependency edges out of file rel."""
    spec = tree["files"][rel]
    out = []
    if spec["kind"] in ("pyx", "py"):
        mp = rel.rsplit(".", 1)[0] + ".pxd"
        if mp in tree["files"]:
            out.append(("same-name-pxd", mp))
    for kind, style, target in spec["deps"]:
        if kind == "include":
            out.append(("include", target))
        else:
            label = "cimport:" + style
            out.append((label, target))
            # the compiler reads the package's __init__.pxd only when the package itself is the cimport source
            # ("from pkg cimport mod", "from . cimport mod") - measured with the audit hook
            if style in ("pkg-from", "rel-bare") and (PKG + "/__init__.pxd") in tree["files"]:
                out.append(("pkg-init-pxd:" + style, PKG + "/__init__.pxd"))
    return out


BLIND_KINDS = ["rel-bare", "pkg-from"]      # statement spellings of the recorded C46 findings


def blind_kind(label):
    if label in ("cimport:rel-bare", "pkg-init-pxd:rel-bare"):
        return "rel-bare"          # "from . cimport mod": neither mod.pxd nor __init__.pxd is found
    if label == "cimport:pkg-from":
        return "pkg-from"          # "from pkg cimport mod": pkg/__init__.pxd is found, pkg/mod.pxd is not
    return None


def closure(tree, rel, blind=()):
    """-> {file: set of edge labels by which it is entered}; edges whose kind is in `blind` are ignored"""
    seen = {rel: {"self"}}
    todo = [rel]
    while todo:
        f = todo.pop()
        for label, target in edges_of(tree, f):
            if blind and blind_kind(label) in blind:
                continue
            if target not in seen:
                seen[target] = set()
                todo.append(target)
            seen[target].add(label)
    return seen


def blind_subsets():
    import itertools
    out = []
    for n in range(1, len(BLIND_KINDS) + 1):
        out.extend(itertools.combinations(BLIND_KINDS, n))
    return out


def reaches(tree, a, b):
    return b in closure(tree, a)


def depth_of(tree, module, target):
    """number of edges on the shortest path module -> target (None if unreachable)"""
    dist = {module: 0}
    todo = [module]
    while todo:
        f = todo.pop(0)
        for _, t in edges_of(tree, f):
            if t not in dist:
                dist[t] = dist[f] + 1
                todo.append(t)
    return dist.get(target)


def normalise_cycles(tree):
    """from-cimports of names cannot be circular: every cimport edge that lies on a cycle is spelled as a plain
    module cimport (rel-bare stays: it is a module cimport too)."""
    for src, spec in tree["files"].items():
        for e in spec["deps"]:
            if e[0] == "cimport" and e[1] not in ("plain", "tab", "list", "pkg-dotted", "rel-bare") \
                    and spec["kind"] != "py" and reaches(tree, e[2], src):
                e[1] = "pkg-dotted" if in_pkg(e[2]) else "plain"


# --------------------------------------------------------------------------- strategies

@st.composite
def trees(draw, special):
    """special: None | "rel-bare" | "pkg-from"  (input classes of recorded findings are only generated on request)"""
    files = {}
    npxd = draw(st.integers(2, 4))
    pxds = [p + ".pxd" for p in TOP_PXDS[:npxd]]
    for p in pxds:
        files[p] = {"kind": "pxd", "deps": [], "decoys": [], "rev": 0}
    has_pkg = special is not None or draw(st.booleans())
    pkg_members = []
    if has_pkg:
        init = draw(st.sampled_from(["init-pxd", "init-py"]))
        files["%s/__init__.%s" % (PKG, "pxd" if init == "init-pxd" else "py")] = {"kind": init, "deps": [], "decoys": [],
                                                                                  "rev": 0}
        for m in PKG_PXDS:
            rel = "%s/%s.pxd" % (PKG, m)
            files[rel] = {"kind": "pxd", "deps": [], "decoys": [], "rev": 0}
            pkg_members.append(rel)
    pxis = []
    for i in range(draw(st.sampled_from([1, 2, 2]))):
        rel = "inc%d.pxi" % i
        files[rel] = {"kind": "pxi", "deps": [], "decoys": [], "rev": 0}
        pxis.append(rel)
    declpxi = None
    if draw(st.booleans()):
        declpxi = "decl0.pxi"
        files[declpxi] = {"kind": "declpxi", "deps": [], "decoys": [], "rev": 0}
    modules = []
    nmod = draw(st.integers(2, 3))
    for i in range(nmod):
        ext = "py" if (i == nmod - 1 and draw(st.integers(0, 2)) == 0) else "pyx"
        rel = "m%d.%s" % (i, ext)
        files[rel] = {"kind": ext, "deps": [], "decoys": [], "rev": 0}
        modules.append(rel)
        if draw(st.integers(0, 2)) == 0:
            files["m%d.pxd" % i] = {"kind": "modpxd", "deps": [], "decoys": [], "rev": 0}
    tree = {"files": files, "modules": modules, "special": special}
    all_pxd = pxds + pkg_members

    def add_cimport(src, target):
        if src == target or any(e[2] == target for e in files[src]["deps"]):
            return
        kind = files[src]["kind"]
        closes_cycle = reaches(tree, target, src)
        if kind == "py":
            style = draw(st.sampled_from(CIMPORT_STYLES_PY))
        elif in_pkg(target):
            if in_pkg(src):
                pool = ["rel-dotted", "pkg-dotted"] + (["rel-bare"] * 3 if special == "rel-bare" else [])
            else:
                pool = ["pkg-dotted", "pkg-from-name"] + (["pkg-from"] * 3 if special == "pkg-from" else [])
            style = draw(st.sampled_from(pool))
        else:
            style = draw(st.sampled_from(CIMPORT_STYLES_TOP))
        if closes_cycle and style not in ("rel-bare",):
            style = "plain" if not in_pkg(target) else "pkg-dotted"      # from-cimports of names cannot be circular
        files[src]["deps"].append(["cimport", style, target])

    # pxd -> pxd edges (cycles welcome)
    for _ in range(draw(st.integers(1, 4))):
        a = draw(st.sampled_from(all_pxd))
        b = draw(st.sampled_from(all_pxd))
        if in_pkg(b) and not in_pkg(a) and draw(st.booleans()):
            continue
        add_cimport(a, b)
    if special == "rel-bare" and pkg_members:
        add_cimport(pkg_members[0], pkg_members[1])
        if files[pkg_members[0]]["deps"][-1][1] != "rel-bare":
            files[pkg_members[0]]["deps"][-1][1] = "rel-bare"
    if declpxi and draw(st.booleans()):
        a = draw(st.sampled_from(pxds))
        files[a]["deps"].append(["include", draw(st.sampled_from(["include", "include-sq", "include-tab"])), declpxi])
        if draw(st.booleans()):
            others = [p for p in pxds if p != a and not reaches(tree, p, a)]
            if others:
                add_cimport(declpxi, draw(st.sampled_from(others)))
    if len(pxis) == 2 and draw(st.integers(0, 2)) != 0:
        files[pxis[0]]["deps"].append(["include", "include", pxis[1]])
    if draw(st.booleans()):
        add_cimport(draw(st.sampled_from(pxis)), draw(st.sampled_from(all_pxd)))
    # module edges
    for m in modules:
        for _ in range(draw(st.integers(1, 3))):
            add_cimport(m, draw(st.sampled_from(all_pxd)))
        if files[m]["kind"] == "pyx" and draw(st.integers(0, 2)) != 0:
            files[m]["deps"].append(["include", draw(st.sampled_from(["include", "include-sq", "include-tab"])),
                                     draw(st.sampled_from(pxis))])
        mp = m.rsplit(".", 1)[0] + ".pxd"
        if mp in files and draw(st.booleans()):
            add_cimport(mp, draw(st.sampled_from(pxds)))
    if special == "rel-bare":
        add_cimport(modules[0], pkg_members[0])
    if special == "pkg-from":
        files[modules[0]]["deps"] = [e for e in files[modules[0]]["deps"] if e[2] != pkg_members[1]]
        if files[modules[0]]["kind"] == "pyx":
            files[modules[0]]["deps"].append(["cimport", "pkg-from", pkg_members[1]])
    normalise_cycles(tree)
    # decoys: statements in strings/comments naming existing files that are NOT dependencies of that module
    for m in modules:
        if files[m]["kind"] == "py":
            styles = [s for s in DECOY_STYLES]
        else:
            styles = DECOY_STYLES
        cl = closure(tree, m)
        outside = [f for f in files if f not in cl and files[f]["kind"] in ("pxd", "pxi")]
        for _ in range(draw(st.integers(0, 3))):
            if not outside:
                break
            target = draw(st.sampled_from(sorted(outside)))
            skind = "include" if target.endswith(".pxi") else draw(st.sampled_from(["cimport", "from"]))
            files[m]["decoys"].append([draw(st.sampled_from(styles)), skind, target])
    return tree


OPS = ["touch", "touch", "touch", "edit", "touch-tie", "delc", "addcimport", "rmdep", "adddecoy"]


@st.composite
def histories(draw, special=None):
    """-> (tree, steps); a step is a list of ops followed by an implicit build. Ops use indices resolved at run time."""
    tree = draw(trees(special))
    steps = []
    for _ in range(draw(st.integers(2, 3))):
        ops = []
        for _ in range(draw(st.integers(1, 2))):
            op = draw(st.sampled_from(OPS))
            ops.append([op, draw(st.integers(0, 63)), draw(st.integers(0, 63)), draw(st.integers(0, 63))])
        steps.append(ops)
    # closing probe (cheap: nothing should be recompiled for that module): make one closure file exactly as old as a C file
    steps.append([["touch-tie", draw(st.integers(0, 63)), draw(st.integers(0, 63)), 0]])
    return tree, steps
