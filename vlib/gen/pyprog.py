"""Type-directed generator of pure-Python functions (C01 and donors).  Emits source text.

Every generated function:  def f_<id>(p0, p1, ...): <stmts>; return (<all live variables>)
Kinds: i(int) f(float) s(str) b(bool) L(list of int) D(dict str->int) T(tuple) S(set of int) y(bytes)
Features are recorded in self.features for the non-triviality rule / histogram.
"""
from hypothesis import strategies as st

KINDS = "ifsbLDTSy"

INT_LITS = [0, 1, 2, 3, 5, 7, 10, -1, -2, -7, 255, 256, 65535, 2**31 - 1, 2**31, -2**31, 2**32 + 1,
            2**62, 2**63 - 1, 2**63, -2**63, 2**64 + 3, 10**20, -10**25]
FLOAT_LITS = ["0.0", "-0.0", "1.0", "0.5", "-1.5", "2.5", "1e10", "1e-7", "3.14", "1e308", "float('inf')",
              "float('-inf')", "float('nan')"]
STR_LITS = ["''", "'a'", "'abc'", "'Hello, World'", "'x y z'", "'\\xe9t\\xe9'", "'\\u20ac\\u4e2d'",
            "'\\U0001f600!'", "'a\\x00b'", "'  pad  '", "'A,B,,C'", "'123'", "'%d'", "'{}'"]
BYTES_LITS = ["b''", "b'a'", "b'abc'", "b'\\x00\\xff'", "b'hello world'", "b'A,B'"]


class G:
    def __init__(self, draw, uid, max_depth=3, illtyped=0.012, allow_classes=True, allow_with=True):
        self.draw = draw
        self.uid = uid
        self.max_depth = max_depth
        self.illtyped = illtyped
        self.features = set()
        self.allow_classes = allow_classes
        self.scopes = [dict()]      # var -> kind
        self.counter = 0
        self.aux = []               # auxiliary module-level definitions (classes, globals)
        self.globals_used = False
        self.loop_depth = 0
        self.func_depth = 0
        self.no_walrus = 0

    # -- helpers ---------------------------------------------------------
    def pick(self, seq):
        return self.draw(st.sampled_from(list(seq)))

    def pickl(self, thunks):
        """Lazy alternative choice: only the chosen alternative is generated."""
        return thunks[self.irange(0, len(thunks) - 1)]()

    def chance(self, p):
        return self.draw(st.floats(0, 1)) < p

    def irange(self, a, b):
        return self.draw(st.integers(a, b))

    def fresh(self, prefix="v"):
        self.counter += 1
        return "%s%d" % (prefix, self.counter)

    def vars_of(self, kind):
        return [v for v, k in self.scopes[-1].items() if k == kind]

    def feat(self, name):
        self.features.add(name)

    # -- expressions -----------------------------------------------------
    def expr(self, kind, depth=0):
        if self.chance(self.illtyped / (1 + depth)) and depth > 0:
            # deliberately ill-typed operand; ID_() hides the static type so that the failure happens at
            # run time (Cython rejects some statically ill-typed literal operations at compile time)
            self.feat("illtyped")
            kind = self.pick(KINDS)
            return "ID_(%s)" % getattr(self, "e_" + kind)(depth)
        m = getattr(self, "e_" + kind)
        return m(depth)

    def leaf(self, kind):
        vs = self.vars_of(kind)
        if vs and self.chance(0.6):
            return self.pick(vs)
        if kind == "i":
            if self.chance(0.7):
                return repr(self.irange(-9, 20))
            v = self.pick(INT_LITS)
            return repr(v) if v >= 0 else "(%r)" % v
        if kind == "f":
            return self.pick(FLOAT_LITS) if self.chance(0.5) else repr(self.irange(-50, 50) / 4.0).replace("-", "-") \
                if True else "0.0"
        if kind == "s":
            return self.pick(STR_LITS)
        if kind == "b":
            return self.pick(["True", "False"])
        if kind == "L":
            n = self.irange(0, 4)
            return "[" + ", ".join(repr(self.irange(-5, 9)) for _ in range(n)) + "]"
        if kind == "D":
            n = self.irange(0, 3)
            return "{" + ", ".join("%r: %d" % (self.pick("abcxyz"), self.irange(-3, 9)) for _ in range(n)) + "}"
        if kind == "T":
            n = self.irange(0, 3)
            items = [repr(self.irange(-3, 9)) for _ in range(n)]
            return "(" + ", ".join(items) + ("," if n == 1 else "") + ")"
        if kind == "S":
            n = self.irange(0, 3)
            return "{" + ", ".join(repr(self.irange(0, 6)) for _ in range(n)) + "}" if n else "set()"
        if kind == "y":
            return self.pick(BYTES_LITS)
        raise AssertionError(kind)

    def paren(self, s):
        return "(" + s + ")"

    def e_i(self, d):
        if d >= self.max_depth:
            return self.leaf("i")
        c = self.irange(0, 21)
        e = self.expr
        if c <= 3:
            return self.leaf("i")
        if c <= 6:
            op = self.pick(["+", "-", "*", "+", "-", "&", "|", "^"])
            return "(%s %s %s)" % (e("i", d + 1), op, e("i", d + 1))
        if c == 7:
            op = self.pick(["//", "%"])
            return "(%s %s %s)" % (e("i", d + 1), op, e("i", d + 1))
        if c == 8:
            op = self.pick(["<<", ">>"])
            return "(%s %s %d)" % (e("i", d + 1), op, self.irange(0, 70))
        if c == 9:
            return "(%s%s)" % (self.pick(["-", "~", "+"]), e("i", d + 1))
        if c == 10:
            self.feat("builtin")
            return "len(%s)" % e(self.pick("sLDTSy"), d + 1)
        if c == 11:
            self.feat("builtin")
            return "%s(%s, %s)" % (self.pick(["min", "max"]), e("i", d + 1), e("i", d + 1))
        if c == 12:
            self.feat("condexpr")
            return "(%s if %s else %s)" % (e("i", d + 1), e("b", d + 1), e("i", d + 1))
        if c == 13:
            self.feat("builtin")
            return "sum(%s)" % e("L", d + 1)
        if c == 14:
            return "%s[%s]" % (self.atom("L", d + 1), e("i", d + 2) if self.chance(0.3) else repr(self.irange(-3, 4)))
        if c == 15:
            self.feat("builtin")
            return "abs(%s)" % e("i", d + 1)
        if c == 16 and self.func_depth == 0 and not self.no_walrus:
            self.feat("walrus")
            v = self.fresh("w")
            s = "(%s := %s)" % (v, e("i", d + 1))
            self.scopes[-1][v] = "i"
            return s
        if c == 17:
            self.feat("lambda")
            return "(lambda q: %s)(%s)" % (self.with_local("q", "i", lambda: e("i", d + 1)), e("i", d + 1))
        if c == 18:
            self.feat("builtin")
            return self.pickl([
                lambda: "int(%s)" % e("s", d + 1) if self.chance(0.2) else "int(%s)" % e("b", d + 1),
                lambda: "ord(%s[0])" % self.atom("s", d + 1),
                lambda: "pow(%s, %d)" % (e("i", d + 1), self.irange(0, 5)),
                lambda: "round(%s)" % e("f", d + 1),
                lambda: "divmod(%s, %s)[%d]" % (e("i", d + 1), e("i", d + 1), self.irange(0, 1)),
                lambda: "%s.get(%r, %s)" % (self.atom("D", d + 1), self.pick("abq"), e("i", d + 1)),
                lambda: "%s.count(%s)" % (self.atom("L", d + 1), e("i", d + 1)),
                lambda: "%s.find(%s)" % (self.atom("s", d + 1), self.leaf("s"))])
        if c == 19:
            self.feat("comprehension")
            return "sum(%s)" % self.genexpr(d + 1)
        if c == 20:
            return "(%s ** %d)" % (e("i", d + 1), self.irange(0, 4))
        return "(%s + %s)" % (e("b", d + 1), e("i", d + 1))

    def atom(self, kind, d):
        x = self.expr(kind, d)
        if x[0] in "([{'\"" or x.replace("_", "").isalnum() or x.endswith(")"):
            if x[0] == "-" or x[0].isdigit():
                return "(" + x + ")"
            return x
        return "(" + x + ")"

    def with_local(self, name, kind, thunk):
        saved = dict(self.scopes[-1])
        self.scopes[-1][name] = kind
        self.func_depth += 1
        try:
            return thunk()
        finally:
            self.func_depth -= 1
            self.scopes[-1].clear()
            self.scopes[-1].update(saved)

    def genexpr(self, d, elem="i"):
        v = self.fresh("g")
        src = self.expr("L", d + 1) if self.chance(0.7) else "range(%d)" % self.irange(0, 6)

        def body():
            el = self.expr(elem, d + 1)
            cond = (" if " + self.expr("b", d + 1)) if self.chance(0.4) else ""
            return el, cond
        el, cond = self.with_local(v, "i", body)
        return "%s for %s in %s%s" % (el, v, src, cond)

    def e_f(self, d):
        if d >= self.max_depth:
            return self.leaf("f")
        c = self.irange(0, 9)
        e = self.expr
        if c <= 2:
            return self.leaf("f")
        if c == 3:
            return "(%s / %s)" % (e("i", d + 1), e("i", d + 1))
        if c <= 5:
            return "(%s %s %s)" % (e("f", d + 1), self.pick("+-*"), e(self.pick("fi"), d + 1))
        if c == 6:
            self.feat("builtin")
            return "float(%s)" % e(self.pick("ib"), d + 1)
        if c == 7:
            return "(%s %s %s)" % (e("f", d + 1), self.pick(["/", "//", "%"]), e("f", d + 1))
        if c == 8:
            self.feat("condexpr")
            return "(%s if %s else %s)" % (e("f", d + 1), e("b", d + 1), e("f", d + 1))
        self.feat("builtin")
        return self.pickl([lambda: "abs(%s)" % e("f", d + 1),
                           lambda: "round(%s, %d)" % (e("f", d + 1), self.irange(0, 3)),
                           lambda: "max(%s, %s)" % (e("f", d + 1), e("f", d + 1)),
                           lambda: "(-%s)" % e("f", d + 1)])

    def e_s(self, d):
        if d >= self.max_depth:
            return self.leaf("s")
        c = self.irange(0, 14)
        e = self.expr
        if c <= 2:
            return self.leaf("s")
        if c == 3:
            return "(%s + %s)" % (e("s", d + 1), e("s", d + 1))
        if c == 4:
            return "(%s * %d)" % (e("s", d + 1), self.irange(-1, 3))
        if c == 5:
            self.feat("builtin")
            return "%s(%s)" % (self.pick(["str", "repr"]), e(self.pick("ifsbLDTy"), d + 1))
        if c == 6:
            return "%s[%s:%s]" % (self.atom("s", d + 1), self.pick(["", "1", "-2", "0"]), self.pick(["", "2", "-1", "100"]))
        if c == 7:
            m = self.pick(["upper()", "lower()", "strip()", "title()", "swapcase()", "lstrip()",
                           "replace('a', 'bb')", "zfill(5)", "center(7, '*')", "capitalize()"])
            return "%s.%s" % (self.atom("s", d + 1), m)
        if c == 8:
            self.feat("fstring")
            parts = []
            for _ in range(self.irange(1, 3)):
                k = self.pick("ifsb")
                spec = ""
                if k == "i" and self.chance(0.5):
                    spec = self.pick([":d", ":5d", ":<4", ":x", ":+d", ":03d", "!r", ":,"])
                elif k == "f" and self.chance(0.5):
                    spec = self.pick([":.2f", ":e", ":g", ":8.3f", "!r"])
                elif k == "s" and self.chance(0.5):
                    spec = self.pick(["!r", ":>6", ":^5", "!s", "!a"])
                self.no_walrus += 1
                inner = e(k, d + 1)
                self.no_walrus -= 1
                if "'" in inner or '"' in inner or "\\" in inner or "{" in inner or ":=" in inner or "lambda" in inner or "!" in inner:
                    inner = self.pick(self.vars_of(k)) if self.vars_of(k) else {"i": "7", "f": "1.5", "s": "str(1)", "b": "True"}[k]
                parts.append(self.pick(["", "x", " ", "=", "{{", "%"]) + "{" + inner + spec + "}")
            return "f\"" + "".join(parts) + "\""
        if c == 9:
            self.feat("percentfmt")
            return self.pickl([lambda: "('%%d-%%s' %% (%s, %s))" % (e("i", d + 1), e("s", d + 1)),
                               lambda: "('%%5.2f|' %% %s)" % e("f", d + 1),
                               lambda: "('%%r' %% (%s,))" % e(self.pick("isL"), d + 1),
                               lambda: "('%%x' %% %s)" % e("i", d + 1)])
        if c == 10:
            self.feat("builtin")
            return "%s.join(%s)" % (self.pick(["''", "','", "' '"]), "[str(z) for z in %s]" % e("L", d + 1))
        if c == 11:
            self.feat("condexpr")
            return "(%s if %s else %s)" % (e("s", d + 1), e("b", d + 1), e("s", d + 1))
        if c == 12:
            self.feat("builtin")
            return "chr(%s %% 1114112)" % e("i", d + 1) if self.chance(0.5) else "chr(%s)" % e("i", d + 1)
        if c == 13:
            return "%s[%s]" % (self.atom("s", d + 1), repr(self.irange(-3, 4)))
        return "%s.decode(%s)" % (self.atom("y", d + 1), self.pick(["", "'utf8'", "'latin-1'", "'ascii', 'replace'"]))

    def e_y(self, d):
        if d >= self.max_depth or self.chance(0.4):
            return self.leaf("y")
        c = self.irange(0, 4)
        e = self.expr
        if c == 0:
            return "(%s + %s)" % (e("y", d + 1), e("y", d + 1))
        if c == 1:
            return "%s.encode(%s)" % (self.atom("s", d + 1), self.pick(["", "'utf8'", "'latin-1'", "'ascii'", "'utf-16'"]))
        if c == 2:
            return "%s[%s:%s]" % (self.atom("y", d + 1), self.pick(["", "1", "-2"]), self.pick(["", "2", "-1"]))
        if c == 3:
            return "bytes(%s)" % self.leaf(self.pick(["L", "y"]))
        return "(%s * %d)" % (e("y", d + 1), self.irange(0, 3))

    def e_b(self, d):
        if d >= self.max_depth:
            return self.leaf("b")
        c = self.irange(0, 12)
        e = self.expr
        if c <= 1:
            return self.leaf("b")
        if c <= 3:
            k = self.pick("iifs")
            return "(%s %s %s)" % (e(k, d + 1), self.pick(["<", "<=", "==", "!=", ">", ">="]), e(k, d + 1))
        if c == 4:
            self.feat("chaincmp")
            return "(%s %s %s %s %s)" % (e("i", d + 1), self.pick(["<", "<=", "=="]), e("i", d + 1),
                                         self.pick(["<", "<=", "!=", ">"]), e("i", d + 1))
        if c == 5:
            self.feat("boolop")
            return "(%s %s %s)" % (e("b", d + 1), self.pick(["and", "or"]), e("b", d + 1))
        if c == 6:
            return "(not %s)" % e(self.pick("bisL"), d + 1)
        if c == 7:
            k = self.pick("LSDT")
            return "(%s %s %s)" % (e("s" if k == "D" else "i", d + 1), self.pick(["in", "not in"]), e(k, d + 1))
        if c == 8:
            self.feat("builtin")
            return "isinstance(%s, %s)" % (e(self.pick(KINDS), d + 1), self.pick(["int", "str", "(int, float)", "list", "bool", "(tuple, list)"]))
        if c == 9:
            self.feat("comprehension")
            self.feat("builtin")
            return "%s(%s)" % (self.pick(["any", "all"]), self.genexpr(d + 1, "b"))
        if c == 10:
            self.feat("builtin")
            return "bool(%s)" % e(self.pick(KINDS), d + 1)
        if c == 11:
            return "(%s %s %s)" % (e("s", d + 1), self.pick(["in", "not in"]), e("s", d + 1))
        m = self.pick(["startswith('a')", "endswith('c')", "isdigit()", "isalpha()", "isupper()", "isspace()"])
        return "%s.%s" % (self.atom("s", d + 1), m)

    def e_L(self, d):
        if d >= self.max_depth:
            return self.leaf("L")
        c = self.irange(0, 12)
        e = self.expr
        if c <= 2:
            return self.leaf("L")
        if c == 3:
            self.feat("comprehension")
            return "[" + self.genexpr(d + 1) + "]"
        if c == 4:
            self.feat("builtin")
            return "sorted(%s%s)" % (e(self.pick("LSTL"), d + 1), self.pick(["", ", reverse=True", ", key=lambda z: -z"]))
        if c == 5:
            self.feat("builtin")
            return "list(range(%s))" % ", ".join(repr(self.irange(-3, 7)) for _ in range(self.irange(1, 3))).replace(", 0)", ", 1)")
        if c == 6:
            return "(%s + %s)" % (e("L", d + 1), e("L", d + 1))
        if c == 7:
            return "%s[%s:%s%s]" % (self.atom("L", d + 1), self.pick(["", "1", "-2", "0"]), self.pick(["", "2", "-1", "100"]),
                                     self.pick(["", "", ":2", ":-1"]))
        if c == 8:
            self.feat("builtin")
            self.feat("lambda")
            return "list(map(lambda z: %s, %s))" % (self.with_local("z", "i", lambda: e("i", d + 1)), e("L", d + 1))
        if c == 9:
            self.feat("builtin")
            return "list(%s)" % self.pickl([lambda: "reversed(%s)" % e("L", d + 1), lambda: "%s" % e("T", d + 1),
                                           lambda: "%s.values()" % self.atom("D", d + 1),
                                           lambda: "filter(None, %s)" % e("L", d + 1)])
        if c == 10:
            self.feat("comprehension")
            a, b = self.fresh("g"), self.fresh("g")
            inner = self.with_local(a, "i", lambda: self.with_local(b, "i", lambda: e("i", d + 1)))
            return "[%s for %s, %s in %s]" % (inner, a, b, self.pickl([
                lambda: "enumerate(%s)" % e("L", d + 1),
                lambda: "zip(%s, %s)" % (e("L", d + 1), e("L", d + 1))]))
        if c == 11:
            return "(%s * %d)" % (e("L", d + 1), self.irange(-1, 3))
        self.feat("condexpr")
        return "(%s if %s else %s)" % (e("L", d + 1), e("b", d + 1), e("L", d + 1))

    def e_D(self, d):
        if d >= self.max_depth or self.chance(0.4):
            return self.leaf("D")
        c = self.irange(0, 3)
        e = self.expr
        if c == 0:
            self.feat("comprehension")
            v = self.fresh("g")
            val = self.with_local(v, "i", lambda: e("i", d + 1))
            return "{str(%s): %s for %s in %s}" % (v, val, v, e("L", d + 1))
        if c == 1:
            self.feat("builtin")
            return "dict(zip(%s, %s))" % (self.pick(["'abc'", "['x', 'y']", "'aa'"]), e("L", d + 1))
        if c == 2:
            return "{**%s, %r: %s}" % (e("D", d + 1), self.pick("abz"), e("i", d + 1))
        return "dict(%s, k=%s)" % (e("D", d + 1), e("i", d + 1))

    def e_T(self, d):
        if d >= self.max_depth or self.chance(0.3):
            return self.leaf("T")
        c = self.irange(0, 4)
        e = self.expr
        if c == 0:
            return "(%s, %s)" % (e("i", d + 1), e("i", d + 1))
        if c == 1:
            self.feat("comprehension")
            return "tuple(%s)" % self.genexpr(d + 1)
        if c == 2:
            self.feat("builtin")
            return "divmod(%s, %s)" % (e("i", d + 1), e("i", d + 1))
        if c == 3:
            return "(%s + %s)" % (e("T", d + 1), e("T", d + 1))
        return "(*%s, %s)" % (e("L", d + 1), e("i", d + 1))

    def e_S(self, d):
        if d >= self.max_depth or self.chance(0.3):
            return self.leaf("S")
        c = self.irange(0, 3)
        e = self.expr
        if c == 0:
            self.feat("comprehension")
            return "{" + self.genexpr(d + 1) + "}"
        if c == 1:
            self.feat("builtin")
            return "set(%s)" % e(self.pick("LTS"), d + 1)
        if c == 2:
            return "(%s %s %s)" % (e("S", d + 1), self.pick("|&-^"), e("S", d + 1))
        return "{*%s, %s}" % (e("L", d + 1), e("i", d + 1))

    # -- statements ------------------------------------------------------
    def block(self, indent, n, depth):
        lines = []
        for _ in range(n):
            lines.extend(self.stmt(indent, depth))
        if not lines:
            lines.append(indent + "pass")
        return lines

    def assign_new(self, indent, kind=None):
        kind = kind or self.pick("iiifssbLLDTS")
        rhs = self.expr(kind, 0)
        v = self.fresh()
        self.scopes[-1][v] = kind
        return [indent + "%s = %s" % (v, rhs)]

    def stmt(self, indent, depth):
        sc = self.scopes[-1]
        c = self.irange(0, 25)
        ivars = [v for v in self.vars_of("i") if not v.startswith("n")]   # loop counters are never targets
        if c <= 4 or not sc:
            return self.assign_new(indent)
        if c <= 6 and ivars:
            self.feat("augassign")
            v = self.pick(ivars)
            return [indent + "%s %s= %s" % (v, self.pick(["+", "-", "*", "//", "%", "&", "|", "^"]), self.expr("i", 1))]
        if c == 7:
            k = self.pick("sLfT")
            vs = self.vars_of(k)
            if vs:
                self.feat("augassign")
                v = self.pick(vs)
                op = {"s": ["+"], "L": ["+", "*"], "f": ["+", "-", "*", "/"], "T": ["+"]}[k]
                o = self.pick(op)
                rhs = repr(self.irange(-1, 3)) if (k == "L" and o == "*") else self.expr(k, 1)
                return [indent + "%s %s= %s" % (v, o, rhs)]
            return self.assign_new(indent, k)
        if c == 8:
            ls = self.vars_of("L")
            ds = self.vars_of("D")
            if ls and self.chance(0.6):
                self.feat("augassign")
                v = self.pick(ls)
                return [indent + "%s[%s] %s= %s" % (v, repr(self.irange(-2, 3)), self.pick("+-*"), self.expr("i", 1))]
            if ds:
                v = self.pick(ds)
                return [indent + "%s[%s] = %s" % (v, self.expr("s", 2), self.expr("i", 1))]
            return self.assign_new(indent, "L")
        if c == 9:
            self.feat("unpacking")
            a, b = self.fresh(), self.fresh()
            form = self.irange(0, 7)
            if form >= 5:
                c3 = self.fresh()
                src = self.pick([self.expr("L", 1), self.expr("T", 1), "ID_(%s)" % self.expr("L", 1), self.expr("s", 1),
                                 "(z for z in %s)" % self.expr("L", 2)])
                if form == 5:
                    s = "%s, *%s, %s = %s" % (a, b, c3, src)
                    sc[a], sc[b], sc[c3] = "i", "L", "i"
                elif form == 6:
                    s = "*%s, %s, %s = %s" % (a, b, c3, src)
                    sc[a], sc[b], sc[c3] = "L", "i", "i"
                else:
                    s = "%s, %s, *%s = %s" % (a, b, c3, src)
                    sc[a], sc[b], sc[c3] = "i", "i", "L"
                self.feat("starunpack")
            elif form == 0:
                s = "%s, %s = %s, %s" % (a, b, self.expr("i", 1), self.expr("i", 1))
                sc[a] = sc[b] = "i"
            elif form == 1:
                s = "%s, *%s = %s" % (a, b, self.expr("L", 1))
                sc[a], sc[b] = "i", "L"
            elif form == 2:
                s = "%s, %s = %s" % (a, b, ("ID_(%s)" % self.expr("T", 1)) if self.chance(0.5) else "(%s, %s)" % (self.expr("i", 1), self.expr("i", 1)))
                sc[a] = sc[b] = "i"
            elif form == 3 and len(ivars) >= 2:
                x, y = self.pick(ivars), self.pick(ivars)
                return [indent + "%s, %s = %s, %s" % (x, y, y, x)]
            else:
                c3 = self.fresh()
                s = "(%s, %s), %s = (%s, %s), %s" % (a, b, c3, self.expr("i", 2), self.expr("i", 2), self.expr("s", 1))
                sc[a] = sc[b] = "i"
                sc[c3] = "s"
            return [indent + s]
        if c <= 11 and depth < 3:
            lines = [indent + "if %s:" % self.expr("b", 1)]
            saved = dict(sc)
            lines += self.block(indent + "    ", self.irange(1, 2), depth + 1)
            after_if = dict(sc)
            sc.clear(); sc.update(saved)
            if self.chance(0.5):
                if self.chance(0.3):
                    lines.append(indent + "elif %s:" % self.expr("b", 1))
                    lines += self.block(indent + "    ", 1, depth + 1)
                    sc.clear(); sc.update(saved)
                lines.append(indent + "else:")
                lines += self.block(indent + "    ", self.irange(1, 2), depth + 1)
                after_else = dict(sc)
                sc.clear()
                sc.update({k: v for k, v in after_if.items() if after_else.get(k) == v})
                # vars must be definitely assigned: intersection only
                for k in list(sc):
                    if k not in saved and not (k in after_if and k in after_else):
                        del sc[k]
            else:
                sc.clear(); sc.update(saved)
            return lines
        if c <= 13 and depth < 3:
            self.feat("forloop")
            saved = dict(sc)
            v = self.fresh("k")
            form = self.irange(0, 5)
            if form == 0:
                head = "for %s in range(%s):" % (v, ", ".join([repr(self.irange(-2, 6))] + ([repr(self.irange(-2, 8))] if self.chance(0.5) else [])))
                sc[v] = "i"
            elif form == 1:
                head = "for %s in %s:" % (v, self.expr("L", 1)); sc[v] = "i"
            elif form == 2:
                v2 = self.fresh("k")
                head = "for %s, %s in %s.items():" % (v, v2, self.atom("D", 1)); sc[v] = "s"; sc[v2] = "i"
            elif form == 3:
                v2 = self.fresh("k")
                head = "for %s, %s in enumerate(%s):" % (v, v2, self.expr("L", 1)); sc[v] = "i"; sc[v2] = "i"
            elif form == 4:
                head = "for %s in %s:" % (v, self.expr("s", 1)); sc[v] = "s"
            else:
                head = "for %s in sorted(%s):" % (v, self.expr("S", 1)); sc[v] = "i"
            lines = [indent + head]
            self.loop_depth += 1
            body = self.block(indent + "    ", self.irange(1, 3), depth + 1)
            if self.chance(0.3):
                body.append(indent + "    if %s: %s" % (self.expr("b", 1), self.pick(["break", "continue"])))
            self.loop_depth -= 1
            lines += body
            sc.clear(); sc.update(saved)
            if self.chance(0.2):
                lines.append(indent + "else:")
                lines += self.block(indent + "    ", 1, depth + 1)
                sc.clear(); sc.update(saved)
            return lines
        if c == 14 and depth < 3:
            self.feat("while")
            cnt = self.fresh("n")
            saved = dict(sc)
            lines = [indent + "%s = 0" % cnt, indent + "while %s < %d:" % (cnt, self.irange(0, 4))]
            sc[cnt] = "i"
            saved[cnt] = "i"
            lines.append(indent + "    %s += 1" % cnt)
            body = self.block(indent + "    ", self.irange(1, 2), depth + 1)
            lines += [l for l in body]
            sc.clear(); sc.update(saved)
            return lines
        if c <= 16 and depth < 3:
            self.feat("try")
            saved = dict(sc)
            lines = [indent + "try:"]
            lines += self.block(indent + "    ", self.irange(1, 2), depth + 1)
            if self.chance(0.6):
                lines.append(indent + "    LOG.append(%s)" % self.risky())
            sc.clear(); sc.update(saved)
            exc = self.pick(["ZeroDivisionError", "(IndexError, KeyError)", "TypeError", "ValueError", "Exception", "ArithmeticError", "LookupError"])
            ev = self.fresh("e")
            lines.append(indent + "except %s as %s:" % (exc, ev))
            lines.append(indent + "    LOG.append(type(%s).__name__)" % ev)
            if self.chance(0.4):
                lines += self.block(indent + "    ", 1, depth + 1)
                sc.clear(); sc.update(saved)
            if self.chance(0.4):
                lines.append(indent + "finally:")
                lines.append(indent + "    LOG.append(%r)" % self.fresh("fin"))
                lines += self.block(indent + "    ", 1, depth + 1)
                sc.clear(); sc.update(saved)
            return lines
        if c == 17 and depth < 2 and self.func_depth < 2:
            return self.closure(indent, depth)
        if c == 18 and depth < 2 and self.allow_classes and self.func_depth == 0:
            return self.local_class(indent, depth)
        if c == 19:
            return [indent + "LOG.append(%s)" % self.expr(self.pick(KINDS), 1)]
        if c == 20:
            ls = self.vars_of("L")
            if ls:
                self.feat("method")
                v = self.pick(ls)
                m = self.pickl([lambda: "append(%s)" % self.expr("i", 1), lambda: "extend(%s)" % self.expr("L", 1),
                                lambda: "pop()", lambda: "sort()", lambda: "reverse()",
                                lambda: "insert(%d, %s)" % (self.irange(-2, 3), self.expr("i", 1)),
                                lambda: "pop(%d)" % self.irange(-2, 2), lambda: "remove(%s)" % self.expr("i", 1)])
                return [indent + "%s.%s" % (v, m)]
            ds = self.vars_of("D")
            if ds:
                self.feat("method")
                v = self.pick(ds)
                m = self.pickl([lambda: "setdefault(%r, %s)" % (self.pick("abq"), self.expr("i", 1)),
                                lambda: "pop(%r, None)" % self.pick("abq"),
                                lambda: "update(%s)" % self.expr("D", 1), lambda: "pop(%r)" % self.pick("abq")])
                return [indent + "LOG.append(%s.%s)" % (v, m)]
            return self.assign_new(indent, "L")
        if c == 21 and self.func_depth == 0:
            self.feat("global")
            self.globals_used = True
            g = "G_%s" % self.uid
            return [indent + "%s = %s + %s" % (g, g, self.expr("i", 1))]
        if c == 22:
            # del of a fresh local that no nested scope references (Cython deliberately rejects deleting a
            # variable used by a nested scope)
            self.feat("del")
            v = self.fresh("dv")
            self.no_walrus += 1
            rhs = self.expr(self.pick("isL"), 1)
            self.no_walrus -= 1
            return [indent + "%s = %s" % (v, rhs), indent + "LOG.append(%s)" % v, indent + "del %s" % v]
        if c == 23 and depth < 2 and self.allow_classes:
            self.feat("with")
            saved = dict(sc)
            lines = [indent + "with CM_(%r, %s) as %s:" % (self.fresh("cm"), self.pick(["False", "False", "True"]), self.fresh("cmv"))]
            lines += self.block(indent + "    ", self.irange(1, 2), depth + 1)
            if self.chance(0.4):
                lines.append(indent + "    LOG.append(%s)" % self.risky())
            sc.clear(); sc.update(saved)
            return lines
        if c == 24:
            self.feat("lambda")
            v = self.fresh("fn")
            body = self.with_local("q", "i", lambda: self.expr("i", 1))
            dflt = self.expr("i", 2)
            arg = self.expr("i", 1)
            r = self.fresh()
            sc[r] = "i"
            return [indent + "%s = lambda q, r=%s: %s + r" % (v, dflt, body), indent + "%s = %s(%s)" % (r, v, arg)]
        return self.assign_new(indent)

    def _mark_gdecl(self):
        self._gdecl = True
        return True

    def leaf_nonvar(self, kind):
        return {"i": "3", "f": "1.5", "s": "'z'", "b": "True", "L": "[1]", "D": "{}", "T": "()", "S": "set()", "y": "b'q'"}[kind]

    def risky(self):
        """An expression that may raise a catchable exception."""
        return self.pickl([
            lambda: "%s // %s" % (self.atom("i", 2), self.atom("i", 2)),
            lambda: "%s[%s]" % (self.atom("L", 2), self.expr("i", 2)),
            lambda: "%s[%s]" % (self.atom("D", 2), self.expr("s", 2)),
            lambda: "int(%s)" % self.expr("s", 2),
            lambda: "%s + %s" % (self.atom("i", 2), self.atom("s", 2)),
            lambda: "%s %% %s" % (self.atom("i", 2), self.atom("i", 2)),
            lambda: "1 / %s" % self.atom("i", 2),
            lambda: "%s.index(%s)" % (self.atom("L", 2), self.expr("i", 2)),
            lambda: "next(iter(%s))" % self.expr("L", 2),
            lambda: "%s.pop()" % self.atom("S", 2),
            lambda: "chr(%s)" % self.expr("i", 2),
        ])

    def closure(self, indent, depth):
        self.feat("closure")
        sc = self.scopes[-1]
        fname = self.fresh("inner")
        ivars = [v for v in self.vars_of("i") if not v.startswith("n")]
        lines = []
        acc = None
        if not ivars:
            acc = self.fresh()
            lines.append(indent + "%s = %s" % (acc, self.expr("i", 1)))
            sc[acc] = "i"
            ivars = [acc]
        target = self.pick(ivars)
        p = self.fresh("a")
        lines.append(indent + "def %s(%s, d=%s):" % (fname, p, self.expr("i", 2)))
        use_nonlocal = self.chance(0.6)
        outer = dict(sc)
        self.func_depth += 1
        self.scopes.append(dict(outer))
        inner_sc = self.scopes[-1]
        inner_sc[p] = "i"
        inner_sc["d"] = "i"
        ind2 = indent + "    "
        if use_nonlocal:
            self.feat("nonlocal")
            lines.append(ind2 + "nonlocal %s" % target)
            lines.append(ind2 + "%s = %s + %s" % (target, target, self.expr("i", 1)))
        # inner reads only (assignments create inner locals with fresh names)
        lines += self.block(ind2, self.irange(0, 2), depth + 1)
        lines.append(ind2 + "return %s" % self.expr(self.pick("iisL"), 1))
        self.scopes.pop()
        self.func_depth -= 1
        arg = self.expr("i", 1)
        r = self.fresh()
        lines.append(indent + "%s = %s(%s)" % (r, fname, arg))
        sc[r] = "i"   # approximate kind; only used as operand (may be ill-typed on purpose)
        if self.chance(0.4):
            r2 = self.fresh()
            lines.append(indent + "%s = [%s(z) for z in range(%d)]" % (r2, fname, self.irange(0, 3)))
            sc[r2] = "L"
        return lines

    def local_class(self, indent, depth):
        self.feat("class")
        sc = self.scopes[-1]
        cname = self.fresh("C")
        base = self.pick(["", "", "(Base_)", "(object)"])
        lines = [indent + "class %s%s:" % (cname, base)]
        ind2 = indent + "    "
        self.no_walrus += 1
        lines.append(ind2 + "cattr = %s" % self.expr("i", 1))
        self.no_walrus -= 1
        lines.append(ind2 + "def __init__(self, a):")
        if base == "(Base_)":
            lines.append(ind2 + "    super().__init__(a)")
            self.feat("super")
        lines.append(ind2 + "    self.a = a")
        lines.append(ind2 + "    self.b = %s" % self.with_local("a", "i", lambda: self.expr("i", 1)))
        lines.append(ind2 + "def m(self, x):")
        lines.append(ind2 + "    return %s" % self.with_local("x", "i", lambda: "self.a + " + self.expr("i", 1) + " + self.cattr"))
        lines.append(ind2 + "@property")
        lines.append(ind2 + "def p(self):")
        lines.append(ind2 + "    return self.b * 2")
        lines.append(ind2 + "@staticmethod")
        lines.append(ind2 + "def sm(x):")
        lines.append(ind2 + "    return x + 1")
        lines.append(ind2 + "@classmethod")
        lines.append(ind2 + "def cm(cls, x):")
        lines.append(ind2 + "    return cls.cattr + x")
        o = self.fresh("o")
        lines.append(indent + "%s = %s(%s)" % (o, cname, self.expr("i", 1)))
        r = self.fresh()
        sc[o] = "O"
        lines.append(indent + "%s = %s" % (r, self.pickl([
            lambda: "%s.m(%s)" % (o, self.expr("i", 1)), lambda: "%s.p" % o,
            lambda: "%s.sm(%s)" % (cname, self.expr("i", 1)),
            lambda: "%s.cm(%s)" % (o, self.expr("i", 1)), lambda: "%s.a + %s.b" % (o, o)])))
        sc[r] = "i"
        if self.chance(0.5):
            self.feat("augassign")
            lines.append(indent + "%s.a %s= %s" % (o, self.pick("+-*"), self.expr("i", 1)))
            r2 = self.fresh()
            lines.append(indent + "%s = %s.a" % (r2, o))
            sc[r2] = "i"
        lines.append(indent + "LOG.append((%s.__name__, %s.__qualname__, type(%s).__name__))" % (cname, cname, o))
        return lines


HEADER = '''LOG = []


def ID_(x):
    return x


class Base_:
    def __init__(self, a):
        LOG.append(("Base_.__init__", a))
        self.base_a = a


class CM_:
    def __init__(self, tag, suppress):
        self.tag = tag
        self.suppress = suppress

    def __enter__(self):
        LOG.append(("enter", self.tag))
        return 5

    def __exit__(self, t, v, tb):
        LOG.append(("exit", self.tag, None if t is None else t.__name__))
        return self.suppress

'''

ARG_VALUES = {
    "i": ["0", "1", "-1", "2", "7", "-13", "255", "2**31-1", "2**31", "-2**31-1", "2**62", "2**63-1", "2**63",
          "-2**63", "2**64+1", "10**30", "True", "3"],
    "f": ["0.0", "-0.0", "1.5", "-2.25", "1e300", "float('inf')", "float('nan')", "0.1", "3.0"],
    "s": ["''", "'a'", "'abc'", "'\\xe9'", "'\\u4e2d\\u6587'", "'\\U0001f600'", "'12'", "'a b'"],
    "b": ["True", "False"],
    "L": ["[]", "[1]", "[3, 1, 2]", "[0, -1, 2**40]", "[1, 1, 1, 1, 1]"],
    "D": ["{}", "{'a': 1}", "{'a': 1, 'b': -2, 'x': 0}"],
    "T": ["()", "(1,)", "(1, 2)", "(3, 2, 1)"],
    "S": ["set()", "{1}", "{1, 2, 3}"],
    "y": ["b''", "b'ab'", "b'\\xff\\x00'"],
}
WRONG_ARGS = ["None", "'str'", "1.5", "[1, 2]", "(1, 2)", "{'k': 1}", "b'by'", "3", "S.Plain()", "S.IntSub(5)", "S.StrSub('ab')", "S.ListSub([1, 2])"]


@st.composite
def function_item(draw, uid, max_depth=3, nstmts=(2, 6)):
    g = G(draw, uid, max_depth=max_depth)
    nparams = draw(st.integers(1, 4))
    kinds = [draw(st.sampled_from("iiifssbLLDTSy")) for _ in range(nparams)]
    params = ["p%d" % i for i in range(nparams)]
    for p, k in zip(params, kinds):
        g.scopes[-1][p] = k
    n = draw(st.integers(*nstmts))
    body = g.block("    ", n, 0)
    live = sorted(v for v, k in g.scopes[-1].items() if k != 'O')
    fname = "f_%s" % uid
    src = []
    if g.globals_used:
        src.append("G_%s = 1" % uid)
    src.append("def %s(%s):" % (fname, ", ".join(params)))
    if g.globals_used:
        src.append("    global G_%s" % uid)
    src += body
    src.append("    return (%s,)" % ", ".join(live) if live else "    return ()")
    ncalls = draw(st.integers(3, 6))
    cases = []
    for _ in range(ncalls):
        args = []
        for k in kinds:
            if draw(st.floats(0, 1)) < 0.03:
                args.append(draw(st.sampled_from(WRONG_ARGS)))
            else:
                args.append(draw(st.sampled_from(ARG_VALUES[k])))
        cases.append({"expr": "M.%s(%s)" % (fname, ", ".join(args))})
    return {"src": "\n".join(src), "cases": cases, "meta": {"features": sorted(g.features), "fname": fname}}


def draw_items(k, seed, parts, prefix, **kw):
    """k function items with unique ids <prefix>_<i> (Hypothesis' first, minimal example is dropped)."""
    from vlib import hyp
    raw = hyp.draw_many(function_item("UID", **kw), k + 1, seed, *parts)[1:]
    out = []
    for i, it in enumerate(raw):
        uid = "%s_%d" % (prefix, i)
        out.append({"src": it["src"].replace("UID", uid),
                    "cases": [{"expr": c["expr"].replace("UID", uid)} for c in it["cases"]],
                    "meta": dict(it["meta"], fname=it["meta"]["fname"].replace("UID", uid))})
    return out
