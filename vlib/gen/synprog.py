"""Syntax-coverage generator of VALID Python 3.12 programs with closed names (C43, C42 donors).

Unlike pyprog (semantics, type-directed) this one aims at breadth of the statement/expression grammar and
at literal / nesting extremes.  Every text is checked with CPython's compile() by the caller.
Names: parameters a, b, c (any values), locals assigned before use, builtins.
"""
from hypothesis import strategies as st

INT_FORMS = ["0", "00", "0_0", "7", "1_000", "0x_ff", "0XFF", "0o17", "0O1_7", "0b1010", "0B1_0", "10**40",
             "123456789012345678901234567890", "0x" + "f" * 40, "1" + "0" * 80, "-1", "2147483648", "9223372036854775808",
             "0b" + "1" * 70, "0o7" * 1 + "7" * 30]
FLOAT_FORMS = ["1.0", "1.", ".5", "1e10", "1E-10", "1_0.0_1", "1e400", "1e-400", "0.0", "-0.0", "3.14j", "1j", "1e3j",
               "0j", "1_1.2_2e1_0", "1.7976931348623157e308", "5e-324", "1e+5", "0e0", "0.e1"]
STR_FORMS = ["''", '""', "'a'", '"a\'b"', "'''tri'''", '"""a\nb"""', "r'\\n'", "R'\\\\'", "b'x'", "br'\\x'", "rb'\\\\'",
             "B'\\x00\\xff'", "u'u'", "'\\N{BULLET}'", "'\\x41\\u0041\\U00000041'", "'\\101\\7\\08'", "'\\777'", "b'\\400'", "'\\378\\0'", "'\\\n'", "'a' 'b'",
             "'a' \"b\" '''c'''", "b'a' b'b'", "'\\ud800'", "'\\U0001F600'", "'\\t\\r\\n\\a\\b\\f\\v\\\\\\'\\\"'",
             "f''", "f'{a}'", "f'{a!r:>{b}}'", "f'{a=}'", "f'{{}}'", "f'{a:{b}.{c}}'", "rf'{a}\\n'", "f'{(lambda: a)()}'",
             "f'{a if b else c}'", "f\"{'nested'}\"", "f'{f\"{a}\"}'", "f'{a!s}{b!a}'", "'%s' % a", "'{}'.format(a)", "f\"a{b't'}\"", "f'{b\"x\"!r}'"]
STR_CONCAT = ["'p'", '"q"', "u'u'", "U'V'", r"r'\d'", "R'r'", "f'{a}'", "F'{b!r}'", r"rf'{a}\n'", "fr'{c}'", "\'\'\'t\'\'\'",
              r"'\xe9'", r"u'€'", "f'{{x}}'", "''", "f''", r"'\N{BULLET}'", "f'{a:>{b}}'"]
BYTES_CONCAT = ["b'p'", 'B"q"', r"br'\d'", "rb'r'", r"b'\xff'", "b''", "Rb'x'"]
BIN_OPS = ["+", "-", "*", "/", "//", "%", "**", "@", "<<", ">>", "&", "|", "^", "and", "or", "==", "!=", "<", "<=", ">", ">=",
           "is", "is not", "in", "not in"]
AUG_OPS = ["+=", "-=", "*=", "/=", "//=", "%=", "**=", "@=", "<<=", ">>=", "&=", "|=", "^="]


class Syn:
    def __init__(self, draw, max_depth=3):
        self.draw = draw
        self.max_depth = max_depth
        self.names = ["a", "b", "c"]
        self.n = 0
        self.kinds = set()
        self.in_func = True
        self.in_loop = 0
        self.is_async = False
        self.is_gen = False
        self.operand_ctx = 0    # >0 while generating operands of operators/subscripts/calls/conditions
        self.plain_ctx = 0      # >0: no nested scopes (lambda/comprehension) and no walrus (assignment-target subscripts)
        self.excluded = 0       # shapes skipped because they are recorded findings (probed separately by C43)

    def pick(self, seq):
        return self.draw(st.sampled_from(list(seq)))

    def irange(self, lo, hi):
        return self.draw(st.integers(lo, hi))

    def chance(self, p):
        return self.draw(st.floats(0, 1)) < p

    def fresh(self):
        self.n += 1
        return "x%d" % self.n

    def name(self):
        return self.pick(self.names)

    # ---------------------------------------------------------------- expressions
    def expr(self, d=0):
        if d >= self.max_depth:
            return self.atom()
        c = self.irange(0, 27)
        if self.plain_ctx and c in (10, 15, 19):
            self.excluded += 1
            c = 0

        def e():
            return self.expr(d + 1)

        def o():
            self.operand_ctx += 1
            try:
                return self.expr(d + 1)
            finally:
                self.operand_ctx -= 1
        if c <= 4:
            return self.atom()
        if c <= 7:
            return "(%s %s %s)" % (o(), self.pick(BIN_OPS), o())
        if c == 8:
            return "(%s%s)" % (self.pick(["-", "+", "~", "not "]), o())
        if c == 9:
            return "(%s if %s else %s)" % (e(), o(), e())
        if c == 10:
            return "(lambda %s: %s)" % (self.pick(["", "p", "p, q=1", "*p", "**p", "p, /, q", "p, *, q=2", "p=(1, 2)"]), e())
        if c == 11:
            return "[%s]" % ", ".join(self.maybe_star(e) for _ in range(self.irange(0, 3)))
        if c == 12:
            return "(%s,)" % ", ".join(self.maybe_star(e) for _ in range(self.irange(1, 3)))
        if c == 13:
            return "{%s}" % ", ".join("%s: %s" % (e(), e()) if not self.chance(0.2) else "**{%s: %s}" % (e(), e())
                                      for _ in range(self.irange(0, 3)))
        if c == 14:
            return "{%s}" % ", ".join(self.maybe_star(e) for _ in range(self.irange(1, 3)))
        if c == 15:
            v = self.fresh()
            kind = self.pick(["[%s for %s in %s%s]", "{%s for %s in %s%s}", "(%s for %s in %s%s)", "{%s: 0 for %s in %s%s}",
                              "list(%s for %s in %s%s)"])
            src = e()
            self.names.append(v)
            cond = self.pick(["", " if %s" % e(), " if %s if %s" % (e(), e()), " for %s in %s" % (self.fresh(), e())])
            self.kinds.add("comprehension")
            el = e()
            self.names.remove(v)
            return kind % (el, v, src, cond)
        if c == 16:
            fn = self.pick(["len", "str", "repr", "list", "tuple", "id", "type", "print", "sorted", "abs", "bool"])
            # builtins get a call that fits their signature (Cython checks the C signature of mapped builtins at
            # compile time: a recorded finding class); arbitrary argument lists go to print() and to object calls
            if fn != "print" and not self.chance(0.04):
                return "%s(%s)" % (fn, o())
            return "%s(%s)" % (fn, self.call_args(d))
        if c == 17:
            return "%s[%s]" % (self.patom(d), self.pick([o(), "%s:%s" % (o(), o()), "::%s" % o(), ":", "%s, %s" % (o(), o()),
                                                           "..., %s" % o(), "%s:%s:%s" % (o(), o(), o()), "*%s" % self.name()]))
        if c == 18:
            return "%s.%s" % (self.patom(d), self.pick(["real", "imag", "__class__", "__doc__", "upper", "append", "x"]))
        if c == 19:
            self.kinds.add("walrus")
            v = self.fresh()
            self.names.append(v)
            return "(%s := %s)" % (v, e())
        if c == 20:
            return "(%s)" % " ".join([o()] + ["%s %s" % (self.pick(["<", ">", "==", "<=", "!=", "in", "is"]), o())
                                              for _ in range(self.irange(1, 3))])
        if c == 21 and self.is_gen:
            self.kinds.add("yield")
            return self.pick(["(yield)", "(yield %s)" % e(), "(yield from %s)" % e()]) if not self.is_async else "(yield %s)" % e()
        if c == 22 and self.is_async:
            self.kinds.add("await")
            return "(await %s)" % e()
        if c == 23:
            self.kinds.add("deepnest")
            n = self.pick([5, 12, 20, 30])
            return "(" * n + e() + ")" * n
        if c == 24:
            self.kinds.add("longchain")
            n = self.pick([10, 40, 100])
            sep = self.pick(["+", "and", "or", "*", "<", ","])
            self.operand_ctx += (sep != ",")
            try:
                return "(" + (" %s " % sep).join([self.atom() for _ in range(n)]) + ")"
            finally:
                self.operand_ctx -= (sep != ",")
        if c == 25:
            return "%s(%s)" % (self.patom(d), self.call_args(d))
        if c == 26:
            self.kinds.add("deepnest")
            n = self.pick([5, 30])
            return "[" * n + e() + "]" * n
        return "%s %s %s" % (o(), self.pick(["+", "-", "*"]), o())

    def maybe_star(self, e):
        return ("*" + e()) if self.chance(0.15) else e()

    def call_args(self, d):
        parts = []
        for _ in range(self.irange(0, 3)):
            parts.append(self.expr(d + 1))
        if self.chance(0.2):
            parts.append("*" + self.expr(d + 1))
        if self.chance(0.2):
            parts.append("k%d=%s" % (self.irange(0, 3), self.expr(d + 1)))
        if self.chance(0.15):
            parts.append("**" + self.expr(d + 1))
        return ", ".join(parts)

    def patom(self, d):
        self.operand_ctx += 1
        try:
            return "(%s)" % self.expr(d + 1)
        finally:
            self.operand_ctx -= 1

    def atom(self):
        if self.operand_ctx and not self.chance(0.12):
            return self.name()
        c = self.irange(0, 9)
        if c <= 3:
            return self.name()
        if c == 4:
            self.kinds.add("intlit")
            return self.pick(INT_FORMS)
        if c == 5:
            self.kinds.add("floatlit")
            return self.pick(FLOAT_FORMS)
        if c <= 7:
            self.kinds.add("strlit")
            if self.chance(0.25):
                # implicit concatenation of literals with different prefixes / quote styles (str family or bytes family)
                self.kinds.add("strconcat")
                fam = STR_CONCAT if self.chance(0.8) else BYTES_CONCAT
                return " ".join(self.pick(fam) for _ in range(self.irange(2, 4)))
            return self.pick(STR_FORMS)
        return self.pick(["None", "True", "False", "...", "()", "[]", "{}", "NotImplemented", "__name__", "__debug__"])

    # ---------------------------------------------------------------- statements
    def target(self):
        c = self.irange(0, 5)
        if c <= 2:
            v = self.fresh()
            self.names.append(v)
            return v
        if c == 3:
            self.plain_ctx += 1
            try:
                return "%s[%s]" % (self.name(), self.expr(2))
            finally:
                self.plain_ctx -= 1
        if c == 4:
            return "%s.attr" % self.name()
        v1, v2 = self.fresh(), self.fresh()
        self.names += [v1, v2]
        return self.pick(["%s, %s" % (v1, v2), "(%s, *%s)" % (v1, v2), "[%s, %s]" % (v1, v2), "*%s, %s" % (v1, v2)])

    def block(self, ind, d, n=None):
        out = []
        for _ in range(n or self.irange(1, 3)):
            out += self.stmt(ind, d)
        return out or [ind + "pass"]

    def stmt(self, ind, d):
        c = self.irange(0, 33)
        e = lambda: self.expr(1)
        K = self.kinds
        nxt = ind + "    "
        saved = list(self.names)

        def scoped(lines):
            self.names[:] = saved
            return lines
        if c <= 3:
            rhs = e()
            return [ind + "%s = %s" % (self.target(), rhs)]
        if c == 4:
            K.add("augassign")
            self.plain_ctx += 1
            tgt = self.pick([self.name(), "%s[%s]" % (self.name(), e()), "%s.attr" % self.name()])
            self.plain_ctx -= 1
            return [ind + "%s %s %s" % (tgt, self.pick(AUG_OPS), e())]
        if c == 5:
            K.add("annassign")
            v = self.fresh()
            r = [ind + "%s: %s = %s" % (v, self.pick(["int", "'str'", "list[int]", "int | None", "object"]), e())]
            self.names.append(v)
            return r
        if c == 6:
            K.add("chainassign")
            rhs = e()
            return [ind + "%s = %s = %s" % (self.target(), self.target(), rhs)]
        if c <= 8 and d < 3:
            K.add("if")
            lines = [ind + "if %s:" % e()] + self.block(nxt, d + 1)
            self.names[:] = saved
            for _ in range(self.irange(0, 2)):
                lines += [ind + "elif %s:" % e()] + self.block(nxt, d + 1)
                self.names[:] = saved
            if self.chance(0.5):
                lines += [ind + "else:"] + self.block(nxt, d + 1)
            return scoped(lines)
        if c <= 10 and d < 3:
            K.add("for")
            it = e()
            hdr = "async for" if (self.is_async and self.chance(0.3)) else "for"
            lines = [ind + "%s %s in %s:" % (hdr, self.target(), it)]
            self.in_loop += 1
            lines += self.block(nxt, d + 1)
            if self.chance(0.3):
                lines.append(nxt + self.pick(["break", "continue"]))
            self.in_loop -= 1
            if self.chance(0.3):
                lines += [ind + "else:"] + self.block(nxt, d + 1)
            return scoped(lines)
        if c == 11 and d < 3:
            K.add("while")
            lines = [ind + "while %s:" % e()]
            self.in_loop += 1
            lines += self.block(nxt, d + 1) + [nxt + "break"]
            self.in_loop -= 1
            if self.chance(0.3):
                lines += [ind + "else:"] + self.block(nxt, d + 1)
            return scoped(lines)
        if c <= 13 and d < 3:
            K.add("try")
            lines = [ind + "try:"] + self.block(nxt, d + 1)
            self.names[:] = saved
            form = self.irange(0, 3)
            if form == 3:
                K.add("exceptstar")
                lines += [ind + "except* %s:" % self.pick(["ValueError", "(TypeError, KeyError)"])] + self.block(nxt, d + 1)
            else:
                for _ in range(self.irange(0 if form == 2 else 1, 2)):
                    ev = self.fresh()
                    lines += [ind + self.pick(["except %s:" % self.pick(["ValueError", "(TypeError, KeyError)", "Exception"]),
                                               "except %s as %s:" % (self.pick(["ValueError", "OSError"]), ev)])]
                    lines += self.block(nxt, d + 1)
                    self.names[:] = saved
                if form == 1:
                    lines += [ind + "except:"] + self.block(nxt, d + 1)
                    self.names[:] = saved
            if form != 3 and self.chance(0.3) and "except" in "".join(lines):
                lines += [ind + "else:"] + self.block(nxt, d + 1)
                self.names[:] = saved
            if form == 2 or self.chance(0.4):
                lines += [ind + "finally:"] + self.block(nxt, d + 1)
            return scoped(lines)
        if c == 14 and d < 3:
            K.add("with")
            n = self.irange(1, 3)
            items = []
            for _ in range(n):
                it = "open(%s)" % e() if self.chance(0.3) else e()
                if self.chance(0.6):
                    it += " as " + self.target()
                items.append(it)
            hdr = "async with" if (self.is_async and self.chance(0.3)) else "with"
            head = "%s (%s):" % (hdr, ", ".join(items)) if self.chance(0.3) else "%s %s:" % (hdr, ", ".join(items))
            return scoped([ind + head] + self.block(nxt, d + 1))
        if c == 15 and d < 2:
            return self.funcdef(ind, d)
        if c == 16 and d < 2:
            return self.classdef(ind, d)
        if c == 17:
            return [ind + "return %s" % e() if self.chance(0.8) else ind + "return"] if not (self.is_async and self.is_gen) else [ind + "return"]
        if c == 18:
            return [ind + self.pick(["raise", "raise %s" % e(), "raise ValueError(%s) from %s" % (e(), e()), "raise KeyError from None"])]
        if c == 19:
            return [ind + "assert %s%s" % (e(), self.pick(["", ", %s" % e()]))]
        if c == 20:
            v = self.fresh()
            return [ind + "%s = %s" % (v, e()), ind + "del %s" % v]
        if c == 21:
            return [ind + "del %s[%s]" % (self.name(), e())]
        if c == 22:
            K.add("import")
            return [ind + self.pick(["import os", "import os.path as osp", "from os import path, sep as s", "from . import x" if False else "import sys, io",
                                      "from collections import (OrderedDict, deque,)"])]
        if c == 23 and d < 3:
            K.add("match")
            return self.match(ind, d)
        if c == 24:
            return [ind + e()]
        if c == 25:
            return [ind + "pass"]
        if c == 26 and self.in_func:
            K.add("global")
            v = "G%d" % self.irange(0, 2)
            if v in self.declared:
                return [ind + "%s = %s" % (v, e())]
            return [ind + "pass"]
        if c == 27 and self.in_loop:
            return [ind + self.pick(["break", "continue"])]
        if c == 28:
            K.add("semicolons")
            return [ind + "%s = %s; %s = %s" % (self.fresh(), e(), self.fresh(), e())]
        if c == 29:
            K.add("linecont")
            return [ind + "%s = %s + \\" % (self.fresh(), e()), ind + "    %s" % e()]
        if c == 30:
            K.add("docstring")
            return [ind + self.pick(['"""doc"""', "'x'", "...", "b'bytes'", "1"])]
        if c == 31 and self.is_gen:
            return [ind + self.pick(["yield", "yield %s" % e(), "%s = yield %s" % (self.fresh(), e())])]
        if c == 32:
            K.add("nonascii")
            v = self.pick(["é", "变量", "ﬁ", "µ", "ℌ", "x̃"])
            return [ind + "%s = %s" % (v, e()), ind + "print(%s)" % v]
        rhs = e()
        return [ind + "%s = %s" % (self.target(), rhs)]

    def params(self):
        parts = []
        c = self.irange(0, 6)
        if c == 0:
            return "", []
        names = []
        def nm():
            v = self.fresh()
            names.append(v)
            return v
        if c >= 4:
            parts += [nm(), "/"]
        for _ in range(self.irange(0, 2)):
            p = nm()
            if self.chance(0.3):
                p += ": %s" % self.pick(["int", "'T'", "list[int]"])
            parts.append(p)
        if self.chance(0.4):
            parts.append("%s=%s" % (nm(), self.expr(2)))
        if self.chance(0.3):
            parts.append("*%s" % nm())
            if self.chance(0.5):
                parts.append("%s=%s" % (nm(), self.expr(2)))
        elif self.chance(0.2):
            parts += ["*", "%s" % nm()]
        if self.chance(0.3):
            parts.append("**%s" % nm())
        return ", ".join(parts), names

    def funcdef(self, ind, d):
        self.kinds.add("nesteddef")
        fname = self.fresh()
        psrc, pnames = self.params()
        is_async = self.chance(0.2)
        is_gen = self.chance(0.25)
        deco = []
        for _ in range(self.irange(0, 2)):
            self.kinds.add("decorator")
            deco.append(ind + "@" + self.pick(["staticmethod", "(lambda f: f)", "__import__('functools').wraps(len)", "print"]))
        ret = self.pick(["", "", " -> int", " -> 'T'"])
        saved = (list(self.names), self.in_func, self.in_loop, self.is_async, self.is_gen)
        self.names += pnames
        self.in_func, self.in_loop, self.is_async, self.is_gen = True, 0, is_async, is_gen
        if is_async:
            self.kinds.add("async")
        body = self.block(ind + "    ", d + 1)
        if is_gen:
            body.append(ind + "    yield")
        self.names, self.in_func, self.in_loop, self.is_async, self.is_gen = saved
        self.names.append(fname)
        return deco + [ind + "%sdef %s(%s)%s:" % ("async " if is_async else "", fname, psrc, ret)] + body

    def classdef(self, ind, d):
        self.kinds.add("class")
        cname = self.fresh().upper()
        bases = self.pick(["", "()", "(object)", "(Exception)", "(dict, metaclass=type)", "(*(), **{})"])
        saved = (list(self.names), self.in_func, self.in_loop, self.is_async, self.is_gen)
        self.in_func, self.in_loop, self.is_async, self.is_gen = False, 0, False, False
        body = []
        for _ in range(self.irange(1, 3)):
            c = self.irange(0, 3)
            if c == 0:
                body.append(ind + "    %s = %s" % (self.fresh(), self.expr(2)))
            elif c == 1:
                body.append(ind + "    %s: int" % self.fresh())
            else:
                self.names.append("self")
                body += self.funcdef(ind + "    ", d + 1)
        self.names, self.in_func, self.in_loop, self.is_async, self.is_gen = saved
        self.names.append(cname)
        return [ind + "class %s%s:" % (cname, bases)] + body

    def pattern(self, d, caps):
        c = self.irange(0, 11) if d < 3 else self.irange(0, 3)
        p = lambda: self.pattern(d + 1, caps)
        if c == 0:
            return "_"
        if c == 1:
            v = self.fresh()
            if v in caps:
                return "_"
            caps.append(v)
            return v
        if c == 2:
            return self.pick(["1", "-1", "1.5", "'s'", "b'b'", "None", "True", "1+2j", "-0.0", "0x10"])
        if c == 3:
            return self.pick(["os.sep", "sys.maxsize"])
        if c == 4:
            items = [p() for _ in range(self.irange(0, 3))]
            if self.chance(0.4):
                v = self.fresh()
                caps.append(v)
                items.insert(self.irange(0, len(items)), "*" + v if self.chance(0.7) else "*_")
            return self.pick(["[%s]", "(%s,)" if items else "()"]) % ", ".join(items) if items else "[]"
        if c == 5:
            items = ["%s: %s" % (self.pick(["'k'", "1", "None", "os.sep"]), p()) for _ in range(self.irange(0, 2))]
            if self.chance(0.3):
                v = self.fresh()
                caps.append(v)
                items.append("**" + v)
            return "{%s}" % ", ".join(items)
        if c == 6:
            return "%s(%s)" % (self.pick(["int", "str", "list", "dict", "object", "ValueError"]), self.pick(["", p()]))
        if c == 7:
            return "%s(%s=%s)" % (self.pick(["object", "complex"]), self.pick(["real", "imag"]), p())
        if c == 8:
            # or-patterns must bind the same names: use capture-free alternatives
            return "(%s)" % " | ".join(self.pick(["1", "'a'", "None", "[]", "{}", "int()", "_" if False else "2"]) for _ in range(self.irange(2, 3)))
        if c == 9:
            v = self.fresh()
            inner = p()
            if inner in ("_",) or v in caps:
                return inner
            caps.append(v)
            return "(%s as %s)" % (inner, v)
        return p()

    def match(self, ind, d):
        lines = [ind + "match %s:" % self.expr(1)]
        saved = list(self.names)
        for _ in range(self.irange(1, 4)):
            caps = []
            pat = self.pattern(0, caps)
            guard = ""
            self.names += caps
            if self.chance(0.3):
                guard = " if %s" % self.expr(2)
            lines.append(ind + "    case %s%s:" % (pat, guard))
            lines += self.block(ind + "        ", d + 1, n=self.irange(1, 2))
            self.names[:] = saved
        return lines


@st.composite
def program(draw, uid="U", max_depth=3):
    g = Syn(draw, max_depth=max_depth)
    g.declared = ["G0", "G1", "G2"]
    kind = draw(st.sampled_from(["def", "def", "def", "gen", "async", "asyncgen", "class", "module"]))
    lines = ["import os, sys"]
    if kind == "class":
        g.in_func = False
        g.names = ["os", "sys"]
        body = g.classdef("", 0)
        lines += body
    elif kind == "module":
        g.in_func = False
        g.names = ["os", "sys"]
        lines += ["a = b = c = 0"]
        g.names += ["a", "b", "c"]
        lines += g.block("", 0, n=draw(st.integers(1, 4)))
    else:
        g.is_gen = kind in ("gen", "asyncgen")
        g.is_async = kind in ("async", "asyncgen")
        if g.is_async:
            g.kinds.add("async")
        lines += ["G0 = G1 = G2 = 0"]
        lines.append("%sdef f_%s(a, b=1, *, c=None):" % ("async " if g.is_async else "", uid))
        lines.append("    global G0, G1, G2")
        lines += g.block("    ", 0, n=draw(st.integers(1, 5)))
        if g.is_gen:
            lines.append("    yield a")
    return {"src": "\n".join(lines) + "\n", "kinds": sorted(g.kinds | {kind})}
