"""C40 generator: pure-Python numeric programs with untyped locals in shapes that tempt type inference.

Every function is `f_<uid>(n, k, r, s)`: n small loop bound (int), k an int of any magnitude, r a float, s a str.
Locals carry the uid in their name (`x_<uid>`) so that the C declaration of each local can be found in the C file.
A function returns the tuple of all its definitely-assigned locals (so result *types* are observed: int/float/bool).
"""
from hypothesis import strategies as st

INT_LITS = ["0", "1", "2", "3", "7", "-1", "255", "2147483647", "2147483648", "4611686018427387904", "9223372036854775807"]
SMALL_INTS = ["1", "2", "3", "5", "7", "10", "255", "1000003"]
FLOAT_LITS = ["0.0", "1.0", "0.5", "-0.0", "2.5", "1e308", "1e-300", "3.0"]


class FG:
    def __init__(self, draw, uid):
        self.draw = draw
        self.uid = uid
        self.vars = {}          # name -> kind: i (int), f (float), b (bool), m (may be int or float)
        self.tags = set()
        self.lines = []
        self.counter = 0
        self.maybe = []         # names assigned in one branch only

    def pick(self, seq):
        return self.draw(st.sampled_from(list(seq)))

    def chance(self, a, b):
        return self.draw(st.integers(1, b)) <= a

    def new(self, base, kind):
        self.counter += 1
        nm = "%s%d_%s" % (base, self.counter, self.uid)
        self.vars[nm] = kind
        return nm

    def of(self, kinds):
        return [v for v, k in self.vars.items() if k in kinds]

    # ---------------------------------------------------------------- expressions
    def int_atom(self):
        c = self.of("ibL")
        r = self.draw(st.integers(0, 9))
        if c and r <= 4:
            return self.pick(c)
        if r == 5:
            return "n"
        if r == 6:
            return "k"
        if r == 7:
            self.tags.add("len")
            return "len(s)"
        return self.pick(INT_LITS)

    def int_expr(self, depth=2):
        if depth <= 0 or self.chance(1, 3):
            return self.int_atom()
        r = self.draw(st.integers(0, 13))
        a = self.int_expr(depth - 1)
        if r <= 2:
            return "(%s %s %s)" % (a, self.pick(["+", "-", "*"]), self.int_expr(depth - 1))
        if r == 3:
            self.tags.add("mul-k")
            return "(%s * k + 1)" % a
        if r == 4:
            self.tags.add("floordiv")
            return "(%s // %s)" % (a, self.pick(SMALL_INTS + ["k", "-3"]))
        if r == 5:
            self.tags.add("mod")
            return "(%s %% %s)" % (a, self.pick(SMALL_INTS + ["k", "-7"]))
        if r == 6:
            self.tags.add("pow")
            return "(%s ** %s)" % (a, self.pick(["2", "3"]))
        if r == 7:
            self.tags.add("shift")
            return "(%s << %s)" % (a, self.pick(["1", "3", "31", "62"]))
        if r == 8:
            self.tags.add("shift")
            return "(%s >> %s)" % (a, self.pick(["1", "3", "31"]))
        if r == 9:
            self.tags.add("bitop")
            return "(%s %s %s)" % (a, self.pick(["&", "|", "^"]), self.pick(["255", "1", "k", "-1"]))
        if r == 10:
            return "(-%s)" % a
        if r == 11:
            return "abs(%s)" % a
        if r == 12:
            self.tags.add("minmax")
            return "%s(%s, %s)" % (self.pick(["min", "max"]), a, self.int_expr(depth - 1))
        self.tags.add("condexpr")
        return "(%s if %s else %s)" % (a, self.bool_expr(), self.int_expr(depth - 1))

    def float_atom(self):
        c = self.of("f")
        r = self.draw(st.integers(0, 5))
        if c and r <= 2:
            return self.pick(c)
        if r == 3:
            return "r"
        return self.pick(FLOAT_LITS)

    def float_expr(self, depth=2):
        if depth <= 0 or self.chance(1, 3):
            return self.float_atom()
        r = self.draw(st.integers(0, 8))
        a = self.float_expr(depth - 1)
        if r <= 1:
            return "(%s %s %s)" % (a, self.pick(["+", "-", "*"]), self.float_expr(depth - 1))
        if r == 2:
            self.tags.add("float-int-mix")
            return "(%s %s %s)" % (a, self.pick(["+", "-", "*"]), self.int_atom())
        if r == 3:
            self.tags.add("truediv")
            return "(%s / %s)" % (self.int_expr(depth - 1), self.pick(["2", "3", "7", "k", "r"]))
        if r == 4:
            self.tags.add("floordiv-float")
            return "(%s // %s)" % (a, self.pick(["2", "0.5", "3", "k"]))
        if r == 5:
            self.tags.add("mod-float")
            return "(%s %% %s)" % (a, self.pick(["2", "0.5", "-3", "k"]))
        if r == 6:
            return "(-%s)" % a
        if r == 7:
            self.tags.add("float()")
            return "float(%s)" % self.int_atom()
        return "abs(%s)" % a

    def bool_expr(self):
        r = self.draw(st.integers(0, 6))
        c = self.of("b")
        if c and r == 0:
            return self.pick(c)
        if r <= 3:
            return "(%s %s %s)" % (self.int_atom(), self.pick(["<", ">", "==", "!=", "<=", ">="]), self.int_atom())
        if r == 4:
            return "(%s %s %s)" % (self.float_atom(), self.pick(["<", ">", "=="]), self.float_atom())
        if r == 5:
            return "(n %s %s)" % (self.pick([">", "<", "=="]), self.pick(["0", "2", "3"]))
        return "(not %s)" % self.bool_expr() if self.chance(1, 2) else "(k == 0)"

    def expr_of(self, kind):
        if kind == "i":
            return self.int_expr()
        if kind == "f":
            return self.float_expr()
        if kind == "b":
            return self.bool_expr()
        return self.int_expr() if self.chance(1, 2) else self.float_expr()

    # ---------------------------------------------------------------- statements
    def simple(self, ind, in_loop=False):
        r = self.draw(st.integers(0, 11))
        pad = "    " * ind
        ints, floats, bools = self.of("i"), self.of("f"), self.of("b")
        if r <= 2 and ints:
            v = self.pick(ints)
            op = self.pick(["+=", "+=", "-=", "*=", "*=", "//=", "%=", "<<=", ">>=", "&=", "|=", "^="] + ([] if in_loop else ["**="]))
            self.tags.add("augassign" + ("-loop" if in_loop else ""))
            rhs = {"<<=": self.pick(["1", "3", "17"]), ">>=": self.pick(["1", "3"]), "**=": self.pick(["2", "3"]),
                   "//=": self.pick(SMALL_INTS + ["k"]), "%=": self.pick(SMALL_INTS + ["k"])}.get(op) or self.pick([self.int_atom(), "k", "n"])
            return ["%s%s %s %s" % (pad, v, op, rhs)]
        if r == 3 and floats:
            v = self.pick(floats)
            op = self.pick(["+=", "-=", "*=", "/=", "//=", "%="])
            self.tags.add("augassign-float")
            return ["%s%s %s %s" % (pad, v, op, self.pick([self.float_atom(), self.int_atom(), "2", "k"]))]
        if r == 4 and len(ints) >= 2:
            a, b = self.pick(ints), self.pick(ints)
            self.tags.add("swap")
            return ["%s%s, %s = %s, %s + %s" % (pad, a, b, b, a, b)]
        if r == 5 and ints:
            v = self.pick(ints)
            self.tags.add("grow-mul")
            return ["%s%s = %s * %s + 1" % (pad, v, v, self.pick(["k", "k", "3", "1000003", "n"]))]
        if r == 6 and floats:
            # int assigned to a variable that started as float (and back)
            v = self.pick(floats)
            self.tags.add("float-var-gets-int")
            self.vars[v] = "m"
            return ["%s%s = %s" % (pad, v, self.int_expr(1))]
        if r == 7 and ints and not in_loop:
            v = self.pick(ints)
            self.tags.add("int-var-gets-float")
            self.vars[v] = "m"
            return ["%s%s = %s" % (pad, v, self.float_expr(1))]
        if r == 8 and bools:
            self.tags.add("bool-arith")
            b = self.pick(bools)
            v = self.new("t", "i") if not in_loop else None
            return ["%s%s = %s + %s" % (pad, v, b, self.pick([b, "1", "True"]))] if not in_loop else \
                ["%s%s = %s + %s" % (pad, self.pick(ints) if ints else v, b, "1")]
        kind = self.pick("iifb")
        pool = self.of(kind)
        if pool and (in_loop or self.chance(1, 2)):
            v = self.pick(pool)
        elif in_loop:
            return ["%spass" % pad]
        else:
            e = self.expr_of(kind)          # before the name exists: no self-reference
            v = self.new({"i": "x", "f": "y", "b": "c"}[kind], kind)
            return ["%s%s = %s" % (pad, v, e)]
        return ["%s%s = %s" % (pad, v, self.expr_of(kind))]

    def block(self, ind, n, in_loop):
        out = []
        for _ in range(n):
            out.extend(self.simple(ind, in_loop))
        return out

    def accumulator(self):
        """a local that only ever sees integer literals: `acc = 1` then `acc <op>= literal` in a loop (the shape where
        inference is most tempted to pick a C integer, and where only overflow marking keeps it a Python int)"""
        self.tags.add("literal-accumulator")
        acc = self.new("q", "L")          # readable elsewhere, never another assignment target
        i = self.new("i", "L")
        op, rhs = self.pick([("<<=", "17"), ("<<=", "7"), ("*=", "1000003"), ("*=", "3"), ("+=", "9223372036854775807"),
                             ("+=", "2147483647"), ("-=", "4611686018427387904"), ("*=", "-65536")])
        init = self.pick(["1", "1", "3", "2147483647", "-1"])
        upd = "%s %s %s" % (acc, op, rhs)
        if self.chance(2, 5):
            # plain (not in-place) update through a binary operator; shift/bit-only forms included
            self.tags.add("literal-accumulator:binop")
            upd = "%s = %s" % (acc, self.pick(["{a} << 8", "({a} << 9) | 1", "({a} << 7) ^ ({a} >> 3)", "({a} << 13) & -2",
                                                "{a} * 1000003", "{a} + 9223372036854775807", "({a} | 5) << 11"]).format(a=acc))
        if self.chance(1, 2):
            return ["    %s = %s" % (acc, init), "    for %s in range(n):" % i, "        %s" % upd]
        return ["    %s = %s" % (acc, init), "    %s = 0" % i, "    while %s < n:" % i, "        %s" % upd,
                "        %s += 1" % i]

    def compound(self):
        r = self.draw(st.integers(0, 8))
        if r == 8:
            return self.accumulator()
        if r <= 1:
            self.tags.add("for-range")
            i = self.new("i", "L")        # L: loop counter - readable, never an assignment target (termination)
            body = self.block(2, self.draw(st.integers(1, 2)), True)
            if self.chance(1, 2) and self.of("i"):
                self.tags.add("range-arith")
                t = self.pick(self.of("i"))
                if t != i:
                    body.append("        %s += %s * %s * %s" % (t, i, i, self.pick(["k", "1000003", "2147483647", i])))
            rng = self.pick(["range(n)", "range(n)", "range(1, n + 1)", "range(n, 0, -1)", "range(0, n * 3, 3)"])
            return ["    %s = 0" % i, "    for %s in %s:" % (i, rng)] + body
        if r == 2:
            self.tags.add("while-step")
            i = self.new("i", "L")
            step = self.pick(["1", "2", "3"])
            body = self.block(2, self.draw(st.integers(1, 2)), True)
            return ["    %s = 0" % i, "    while %s < n:" % i] + body + ["        %s += %s" % (i, step)]
        if r == 3:
            self.tags.add("if-else")
            a = self.block(2, 1, True)
            b = self.block(2, 1, True)
            return ["    if %s:" % self.bool_expr()] + a + ["    else:"] + b
        if r == 4:
            # both branches assign the same new variable, possibly with different types
            self.tags.add("branch-types")
            k1, k2 = self.pick("iifb"), self.pick("iifb")
            cond, e1, e2 = self.bool_expr(), self.expr_of(k1), self.expr_of(k2)
            v = self.new("z", "m")
            return ["    if %s:" % cond, "        %s = %s" % (v, e1), "    else:", "        %s = %s" % (v, e2)]
        if r == 5 and not self.maybe:
            self.tags.add("one-branch-assign")
            self.counter += 1
            v = "u%d_%s" % (self.counter, self.uid)
            self.maybe.append(v)
            return ["    if %s:" % self.bool_expr(), "        %s = %s" % (v, self.int_expr(1))]
        if r == 6 and self.vars:
            self.tags.add("closure")
            v = self.pick(sorted(self.vars))
            self.counter += 1
            g = "g%d_%s" % (self.counter, self.uid)
            w = self.new("w", self.vars[v] if self.vars[v] != "L" else "i")
            mod = self.pick(["", "", " + 1", " * 2"]) if self.vars[v] in "ifL" else ""
            return ["    def %s():" % g, "        return %s%s" % (v, mod), "    %s = %s()" % (w, g)]
        return self.simple(1)

    def build(self):
        d = self.draw
        # initial assignments
        n_init = d(st.integers(2, 4))
        for _ in range(n_init):
            r = d(st.integers(0, 9))
            if r <= 3:
                v = self.new("x", "i")
                self.lines.append("    %s = %s" % (v, self.pick(["0", "1", "1", "2", "7", "-1", "n", "k", "len(s)", "2147483647",
                                                                   "4611686018427387904", "n * 2", "k + 1"])))
            elif r == 4:
                a, b = self.new("a", "i"), self.new("b", "i")
                self.tags.add("chained-assign")
                self.lines.append("    %s = %s = %s" % (a, b, self.pick(["0", "1", "n"])))
            elif r <= 6:
                v = self.new("y", "f")
                self.lines.append("    %s = %s" % (v, self.pick(["1.0", "0.0", "0.5", "-0.0", "r", "1e308", "n / 2", "float(n)", "r * 2"])))
            elif r == 7:
                v = self.new("c", "b")
                self.tags.add("bool-var")
                self.lines.append("    %s = %s" % (v, self.pick(["n > 2", "k == 0", "True", "False", "n == k", "not n", "r > 0.5", "s == 'a'"])))
            elif r == 8:
                v = self.new("x", "i")
                self.tags.add("len")
                self.lines.append("    %s = len(s) * %s" % (v, self.pick(["1", "1000000000000000000", "k"])))
            else:
                v = self.new("x", "i")
                self.tags.add("div-result")
                self.lines.append("    %s = %s" % (v, self.pick(["n // 2", "k // 3", "k % 7", "divmod(k, 7)[1]", "int(r)", "round(r)", "abs(k)"])))
        for _ in range(d(st.integers(2, 5))):
            self.lines.extend(self.compound())
        ret = sorted(self.vars)
        tail = []
        for v in self.maybe:
            tail += ["    try:", "        m_%s = %s" % (v, v), "    except UnboundLocalError:", "        m_%s = 'unbound'" % v]
            ret.append("m_" + v)
        src = "def f_%s(n, k, r, s):\n%s\n%s    return (%s)\n" % (
            self.uid, "\n".join(self.lines), "".join(t + "\n" for t in tail), "".join(v + ", " for v in ret))
        return src, ret


N_VALUES = [0, 1, 2, 3, 5, 9, 12]
K_VALUES = [0, 1, -1, 2, 3, 7, -7, 255, 65536, 2**31 - 1, 2**31, -2**31, 2**32 + 1, 2**62, 2**63 - 1, 2**63, -2**63, 2**64 + 3,
            10**20, -10**25]
R_VALUES = ["0.0", "-0.0", "0.5", "1.5", "-2.5", "1e10", "1e308", "1e-320", "float('inf')", "float('nan')", "3.0"]
S_VALUES = ["''", "'a'", "'abc'", "'x' * 40"]


@st.composite
def items(draw, ncalls):
    g = FG(draw, "UID")
    src, ret = g.build()
    calls = []
    for _ in range(ncalls):
        calls.append((draw(st.sampled_from(N_VALUES)), draw(st.sampled_from(K_VALUES)), draw(st.sampled_from(R_VALUES)),
                      draw(st.sampled_from(S_VALUES))))
    return {"src": src, "ret": ret, "tags": sorted(g.tags), "calls": calls}


def draw_items(k, seed, parts, prefix, ncalls=8):
    from vlib import hyp
    raw = hyp.draw_many(items(ncalls), k + k // 2 + 2, seed, *parts)[1:]
    out, seen = [], set()
    for r in raw:
        if r["src"] in seen:
            continue
        seen.add(r["src"])
        uid = "%s_%d" % (prefix, len(out))
        try:
            compile(r["src"], "<gen>", "exec")
        except SyntaxError:
            continue
        cases, cs = [], set()
        fill = [(N_VALUES[(j * 3 + 1) % len(N_VALUES)], K_VALUES[(j * 7 + len(out)) % len(K_VALUES)],
                 R_VALUES[(j * 5 + 2) % len(R_VALUES)], S_VALUES[j % len(S_VALUES)]) for j in range(len(r["calls"]))]
        for (n, kk, rr, ss) in r["calls"] + fill:
            if len(cases) >= len(r["calls"]):
                break
            e = "M.f_%s(%d, %d, %s, %s)" % (uid, n, kk, rr, ss)
            if e not in cs:
                cs.add(e)
                cases.append({"expr": e})
        out.append({"src": r["src"].replace("UID", uid), "cases": cases,
                    "meta": {"uid": uid, "tags": r["tags"], "locals": [v.replace("UID", uid) for v in r["ret"]]}})
        if len(out) >= k:
            break
    return out
