"""C30 generator: dataclass IR -> `cdef class` dataclass (.pyx) and stdlib dataclass (.py oracle).

Class IR (JSON-able):
  {"name": "C3", "opts": {"order": True, ...}           # only non-default decorator options
   "fields": [{"name": "a", "type": "int|double|object|str|list",
               "default": "<literal>"|None, "factory": "list"|"dict"|"lambda: 7"|None,
               "via": "plain"|"field",                  # `= value` or `= dataclasses.field(...)`
               "init": False?, "repr": False?, "compare": False?, "hash": True|False?, "kw_only": True?}],
   "kw_only_at": k|None}                                # position of a `_: dataclasses.KW_ONLY` sentinel
"""
import dataclasses

from hypothesis import strategies as st

from .uni import chance, irange, pick

TYPES = ("int", "double", "object", "str", "list")
PYX_T = {"int": "cython.int", "double": "cython.double", "object": "object", "str": "str", "list": "list"}
PY_T = {"int": "int", "double": "float", "object": "object", "str": "str", "list": "list"}
VALUES = {
    "int": ["0", "1", "-5", "7", "2147483647", "-2147483648", "42"],
    "double": ["0.0", "1.5", "-2.25", "1e10", "-0.0", "3.0"],
    "object": ["None", "1", "'o'", "(1, 2)", "2.5", "True"],
    "str": ["''", "'a'", "'xyz'", "'b c'"],
    "list": ["[]", "[1]", "[1, 2]", "['q']"],
}
DEFAULTS = {
    "int": ["0", "3", "-1"], "double": ["1.5", "0.0"], "object": ["None", "'d'", "(0,)"], "str": ["'x'", "''"],
}
FACTORIES = {"int": ["lambda: 7"], "double": ["lambda: 2.5"], "object": ["list", "dict", "lambda: 'f'"],
             "str": ["str", "lambda: 'fs'"], "list": ["list", "lambda: [0]"]}
DEC_OPTS = ("init", "repr", "eq", "order", "unsafe_hash", "frozen", "kw_only", "match_args")
DEC_DEFAULT = {"init": True, "repr": True, "eq": True, "order": False, "unsafe_hash": False, "frozen": False,
               "kw_only": False, "match_args": True}
HEADER_PYX = "cimport cython\nimport dataclasses\n\n"
HEADER_PY = "import dataclasses\n\n"


def _p(draw, prob):
    """Uniform Bernoulli draw (st.floats is NOT uniform)."""
    return chance(draw, prob)


@st.composite
def dc_class(draw, allow_invalid=True):
    nf = irange(draw, 1, 5)
    opts = {}
    # decorator options: each flipped with some probability
    for o, p in (("order", 0.35), ("frozen", 0.3), ("unsafe_hash", 0.2), ("eq", 0.12), ("repr", 0.08),
                 ("kw_only", 0.08), ("match_args", 0.08), ("init", 0.02)):
        if _p(draw, p):
            opts[o] = not DEC_DEFAULT[o]
    if opts.get("order") and opts.get("eq") is False and not (allow_invalid and _p(draw, 0.25)):
        del opts["eq"]
    fields = []
    seen_default = False
    kw_from = None
    if _p(draw, 0.02):
        kw_from = irange(draw, 0, nf)
    kwfield = irange(draw, 0, nf - 1) if _p(draw, 0.02) else None
    for i in range(nf):
        t = pick(draw, TYPES)
        f = {"name": "abcde"[i], "type": t, "default": None, "factory": None, "via": "plain"}
        kw = bool(opts.get("kw_only")) or (kw_from is not None and i >= kw_from)
        if i == kwfield:
            f["kw_only"] = True
            f["via"] = "field"
            kw = True
        want_default = seen_default and not kw
        if allow_invalid and want_default and _p(draw, 0.04):
            want_default = False      # non-default after default: stdlib raises TypeError
        if want_default or _p(draw, 0.4):
            if t == "list":
                if allow_invalid and _p(draw, 0.07):
                    f["default"] = "[]"           # mutable default: stdlib raises ValueError
                else:
                    f["factory"] = pick(draw, FACTORIES[t])
            elif _p(draw, 0.3):
                f["factory"] = pick(draw, FACTORIES[t])
            else:
                f["default"] = pick(draw, DEFAULTS[t])
            if f["factory"] is not None:
                f["via"] = "field"
            elif _p(draw, 0.4):
                f["via"] = "field"
            if not kw:
                seen_default = True
        for o, p in (("repr", 0.15), ("compare", 0.15)):
            if _p(draw, p):
                f[o] = False
                f["via"] = "field"
        if _p(draw, 0.12):
            f["hash"] = chance(draw, 0.5)
            f["via"] = "field"
        if (f["default"] is not None or f["factory"] is not None) and _p(draw, 0.15):
            f["init"] = False
            f["via"] = "field"
        fields.append(f)
    return {"name": "C0", "opts": opts, "fields": fields, "kw_only_at": kw_from}


# ---------------------------------------------------------------- rendering

def _field_line(f, pyx):
    t = (PYX_T if pyx else PY_T)[f["type"]]
    line = "    %s: %s" % (f["name"], t)
    if f["via"] == "plain":
        if f["default"] is not None:
            line += " = %s" % f["default"]
        return line
    kws = []
    if f["default"] is not None:
        kws.append("default=%s" % f["default"])
    if f["factory"] is not None:
        kws.append("default_factory=%s" % f["factory"])
    for o in ("init", "repr", "compare", "hash", "kw_only"):
        if o in f:
            kws.append("%s=%r" % (o, f[o]))
    return line + " = dataclasses.field(%s)" % ", ".join(kws)


def render_class(c, pyx, with_match=True):
    opts = ", ".join("%s=%r" % (k, c["opts"][k]) for k in DEC_OPTS if k in c["opts"])
    out = ["@dataclasses.dataclass(%s)" % opts if opts else "@dataclasses.dataclass",
           "%s %s:" % ("cdef class" if pyx else "class", c["name"])]
    for i, f in enumerate(c["fields"]):
        if c.get("kw_only_at") == i:
            out.append("    _: dataclasses.KW_ONLY")
        out.append(_field_line(f, pyx))
    if c.get("kw_only_at") == len(c["fields"]):
        out.append("    _: dataclasses.KW_ONLY")
    out.append("")
    if with_match:
        n = max(1, len(positional_fields(c)))
        ps = ", ".join("p%d" % i for i in range(n))
        out += ["def matchpos_%s(x):" % c["name"], "    match x:", "        case %s(%s):" % (c["name"], ps),
                "            return ('pos', %s)" % (ps + ","), "    return 'nomatch'", ""]
        kws = ", ".join("%s=k%d" % (f["name"], i) for i, f in enumerate(c["fields"]))
        ks = ", ".join("k%d" % i for i in range(len(c["fields"])))
        out += ["def matchkw_%s(x):" % c["name"], "    match x:", "        case %s(%s):" % (c["name"], kws),
                "            return ('kw', %s)" % (ks + ","), "    return 'nomatch'", ""]
    return "\n".join(out) + "\n"


def render_module(classes, pyx):
    return (HEADER_PYX if pyx else HEADER_PY) + "\n".join(render_class(c, pyx) for c in classes)


# ---------------------------------------------------------------- signature model (stdlib rules)

def is_kw_only(c, i):
    f = c["fields"][i]
    if "kw_only" in f:
        return f["kw_only"]
    if c.get("kw_only_at") is not None and i >= c["kw_only_at"]:
        return True
    return bool(c["opts"].get("kw_only"))


def init_fields(c):
    return [(i, f) for i, f in enumerate(c["fields"]) if f.get("init", True)]


def positional_fields(c):
    return [f for i, f in init_fields(c) if not is_kw_only(c, i)]


def has_default(f):
    return f["default"] is not None or f["factory"] is not None


def stdlib_verdict(c):
    """Create the class with the real stdlib module: -> None if accepted, else exception type name."""
    ns = {}
    try:
        exec(HEADER_PY + render_class(c, False, with_match=False), ns)
    except Exception as e:
        return type(e).__name__
    return None


def nondefault_options(c):
    n = len(c["opts"]) + (1 if c.get("kw_only_at") is not None else 0)
    for f in c["fields"]:
        n += sum(1 for o in ("init", "repr", "compare", "hash", "kw_only") if o in f)
        n += 1 if f["factory"] is not None else 0
        n += 1 if (f["via"] == "field" and f["default"] is not None) else 0
    return n


# ---------------------------------------------------------------- cases

def _ctor(c, vals, mode="pos"):
    """Constructor call text with one value per init field (vals: {field name: literal})."""
    pos, kw = [], []
    for i, f in init_fields(c):
        v = vals[f["name"]]
        if mode == "kw" or is_kw_only(c, i):
            kw.append("%s=%s" % (f["name"], v))
        else:
            pos.append(v)
    return "M.%s(%s)" % (c["name"], ", ".join(pos + kw))


def class_cases(c, valsets):
    """valsets: [A, A2(=A, fresh objects), B] dicts field name -> literal.  -> list of {"expr", "op"}"""
    n = c["name"]
    A, B = valsets[0], valsets[1]
    cases = []

    def add(op, expr):
        cases.append({"expr": expr, "op": op})

    if c["opts"].get("init") is False:
        add("ctor-noinit", "type(M.%s()).__name__" % n)
        add("match_args", "M.%s.__match_args__" % n)
        add("is_dataclass", "dataclasses.is_dataclass(M.%s)" % n)
        add("fields", _fields_expr(n))
        return cases
    xa, xa2, xb = _ctor(c, A), _ctor(c, A), _ctor(c, B)
    rep = "repr(%s)" if c["opts"].get("repr", True) else "repr(%s)[:1]"
    add("repr", rep % xa)
    add("repr", rep % xb)
    add("ctor-kw", rep % _ctor(c, A, "kw"))
    # omit every defaulted init field
    req = {f["name"]: A[f["name"]] for i, f in init_fields(c) if not has_default(f)}
    # positions change when defaulted fields are dropped: pass the remaining ones by keyword
    add("ctor-defaults", rep % ("M.%s(%s)" % (n, ", ".join("%s=%s" % kv for kv in req.items()))))
    if req:
        first = next(iter(req))
        miss = dict(req)
        del miss[first]
        add("ctor-missing", "M.%s(%s)" % (n, ", ".join("%s=%s" % kv for kv in miss.items())))
    npos = len(positional_fields(c))
    add("ctor-extra-pos", "M.%s(%s)" % (n, ", ".join(["1"] * (npos + 1 + len(init_fields(c))))))
    add("ctor-unknown-kw", _ctor(c, A)[:-1] + (", " if init_fields(c) else "") + "zz=1)")
    kwo = [f for i, f in init_fields(c) if is_kw_only(c, i)]
    if kwo:
        # pass everything positionally: must fail because of the keyword-only field(s)
        add("ctor-kwonly-positional", "M.%s(%s)" % (n, ", ".join(A[f["name"]] for i, f in init_fields(c))))
    noinit = [f for f in c["fields"] if not f.get("init", True)]
    if noinit:
        add("ctor-noinit-field-kw", _ctor(c, A)[:-1] + (", " if init_fields(c) else "") + "%s=1)" % noinit[0]["name"])
    for op, sym in (("eq", "=="), ("ne", "!="), ("lt", "<"), ("le", "<="), ("gt", ">"), ("ge", ">=")):
        add(op, "%s %s %s" % (xa, sym, xa2))
        add(op, "%s %s %s" % (xa, sym, xb))
        add(op, "%s %s %s" % (xb, sym, xa))
    add("eq-other", "%s == 1" % xa)
    add("lt-other", "%s < 1" % xa)
    add("eq-ident", "(lambda x: x == x)(%s)" % xa)
    add("hash", "(lambda x, y: hash(x) if hash(x) == hash(y) else 'identity-hash')(%s, %s)" % (xa, xa2))
    add("hash-eq", "(lambda x, y: hash(x) == hash(y))(%s, %s)" % (xa, xb))
    f0 = c["fields"][0]
    add("setattr", "(lambda x: (setattr(x, %r, %s), x.%s))(%s)" % (f0["name"], B[f0["name"]] if f0["name"] in B
                                                                  else VALUES[f0["type"]][1], f0["name"], xa))
    if c["opts"].get("frozen"):
        add("delattr-frozen", "delattr(%s, %r)" % (xa, f0["name"]))
        add("setattr-new-frozen", "setattr(%s, 'zz', 1)" % xa)
    for f in c["fields"]:
        add("getattr", "%s.%s" % (xa, f["name"]))
        if f["factory"] in ("list", "dict", "lambda: [0]"):
            # mutable results only: identity of immutable values is not part of the property
            add("factory-fresh", "(lambda x, y: x.%s is y.%s)(%s, %s)" % (
                f["name"], f["name"], "M.%s(%s)" % (n, ", ".join("%s=%s" % kv for kv in req.items())),
                "M.%s(%s)" % (n, ", ".join("%s=%s" % kv for kv in req.items()))))
    add("fields", _fields_expr(n))
    add("asdict", "dataclasses.asdict(%s)" % xa)
    add("astuple", "dataclasses.astuple(%s)" % xb)
    initf = init_fields(c)
    if initf:
        i, f = initf[-1]
        add("replace", rep % ("dataclasses.replace(%s, %s=%s)" % (xa, f["name"], B[f["name"]])))
    add("is_dataclass", "(dataclasses.is_dataclass(M.%s), dataclasses.is_dataclass(%s))" % (n, xa))
    add("match_args", "getattr(M.%s, '__match_args__', 'absent')" % n)
    add("match-pos", "M.matchpos_%s(%s)" % (n, xa))
    add("match-kw", "M.matchkw_%s(%s)" % (n, xb))
    add("match-other", "M.matchkw_%s(1)" % n)
    return cases


def _fields_expr(n):
    return ("[(f.name, f.init, f.repr, f.compare, f.hash, f.default is dataclasses.MISSING, "
            "f.default_factory is dataclasses.MISSING, None if f.default is dataclasses.MISSING else f.default) "
            "for f in dataclasses.fields(M.%s)]" % n)


@st.composite
def value_sets(draw, c):
    A = {f["name"]: pick(draw, VALUES[f["type"]]) for f in c["fields"]}
    B = dict(A)
    # B differs from A in at least one field (when possible), biased to late fields (ordering tie-breaks)
    k = irange(draw, 0, len(c["fields"]) - 1)
    for f in c["fields"][k:]:
        B[f["name"]] = pick(draw, VALUES[f["type"]])
    return [A, B]
