"""C25 generator: functions with generated signatures / default expressions / docstrings in several scopes.

Default expressions are built as Python `ast` trees (so `ast.unparse` gives correct, minimally parenthesised source),
test-evaluated in a copy of the module prelude (expressions that raise or explode are re-drawn as a literal) and tagged
with the syntactic features that matter for re-printing (ExpressionWriter): nesting of operators, 1-tuples, lambdas...
"""
import ast

from hypothesis import strategies as st

PRELUDE = '''import math
INF = float("inf")
G_I = 7
G_J = -3
G_F = 2.5
G_S = "s\\u00e9"
G_L = [11, 13, 17, 19]
G_T = (2, 3)
G_D = {"k": 5, "j": 6}


class G_C:
    a = 5

    def __init__(self, v=0):
        self.v = v

    def __repr__(self):
        return "G_C(%r)" % (self.v,)

    def __canon__(self):
        return ("G_C", self.v)

    def __eq__(self, other):
        return isinstance(other, G_C) and other.v == self.v

    __hash__ = None


G_O = G_C(4)
G_O.b = G_C(9)


def G_FN(*a, **k):
    return ("G_FN", a, sorted(k.items()))
'''

SETUP = r'''
import ast, inspect

class H:
    KINDS = None

    @staticmethod
    def unwrap(f):
        return getattr(f, "__func__", f)

    @staticmethod
    def norm(v):
        """a lambda default can only be compared as 'some lambda' (its __name__ is not part of the signature)"""
        n = getattr(v, "__name__", None)
        if isinstance(n, str) and callable(v) and (n == "<lambda>" or n.startswith("lambda")):
            return "<a lambda>"
        if isinstance(v, (tuple, list)):
            return type(v)(H.norm(x) for x in v)
        if isinstance(v, (set, frozenset)):
            return type(v)(H.norm(x) for x in v)
        if isinstance(v, dict):
            return {k: H.norm(x) for k, x in v.items()}
        return v

    @staticmethod
    def params_of_signature(f):
        out = []
        for p in inspect.signature(f).parameters.values():
            out.append(("param", p.name, p.kind.name, "<empty>" if p.default is p.empty else ("default", H.norm(p.default))))
        return out

    @staticmethod
    def desc(f):
        """(i) names / qualname / module / doc / inspect.signature of a binding function"""
        out = [("name", f.__name__), ("qualname", f.__qualname__), ("module", f.__module__), ("doc", f.__doc__)]
        try:
            out.extend(H.params_of_signature(f))
        except Exception as e:
            out.append(("signature-error", type(e).__name__, str(e)[:200]))
        return out

    @staticmethod
    def params_of_text(text, M):
        tree = ast.parse("def _" + text + ": pass")
        a = tree.body[0].args
        out = []
        texts = []
        pos = [(x, "POSITIONAL_ONLY") for x in a.posonlyargs] + [(x, "POSITIONAL_OR_KEYWORD") for x in a.args]
        defaults = [None] * (len(pos) - len(a.defaults)) + list(a.defaults)

        def ev(node):
            if node is None:
                return "<empty>"
            src = ast.unparse(node)
            texts.append(src)
            try:
                return ("default", H.norm(eval(compile(ast.Expression(body=node), "<embedded>", "eval"), vars(M))))
            except Exception as e:
                return ("default-eval-error", type(e).__name__, src)
        for (x, kind), d in zip(pos, defaults):
            out.append(("param", x.arg.lstrip("$"), kind, ev(d)))
        if a.vararg:
            out.append(("param", a.vararg.arg, "VAR_POSITIONAL", "<empty>"))
        for x, d in zip(a.kwonlyargs, a.kw_defaults):
            out.append(("param", x.arg, "KEYWORD_ONLY", ev(d)))
        if a.kwarg:
            out.append(("param", a.kwarg.arg, "VAR_KEYWORD", "<empty>"))
        return out, texts

    @staticmethod
    def emb(f, M, fmt):
        """(ii) embedded signature: parameter list + evaluated defaults + remaining docstring.
        Under CPython (reference) the same structure is derived from the function object itself."""
        f = H.unwrap(f)
        if not M.__file__.endswith(".so"):
            doc = f.__doc__
            return [("sigline-name", True)] + H.params_of_signature(f) + \
                [("docrest", inspect.cleandoc(doc) if doc else None)]
        doc = f.__doc__
        raw = ("texts", None, [], doc)
        if fmt == "clinic":
            text = getattr(f, "__text_signature__", None)
            if text is None:
                return [("no-text-signature", doc), raw]
            name_ok = True
            rest = doc if doc else None
        else:
            if not doc:
                return [("no-doc", doc), raw]
            line, sep, rest = doc.partition("\n")
            if rest:
                if not rest.startswith("\n"):
                    return [("no-blank-line-after-signature", doc[:200]), raw]
                rest = rest[1:]
            else:
                rest = None
            i = line.find("(")
            if i < 0:
                return [("no-signature-line", line), raw]
            head = line[:i]
            name_ok = head == f.__name__ or head.endswith("." + f.__name__)
            text = line[i:]
        try:
            params, texts = H.params_of_text(text, M)
        except SyntaxError as e:
            return [("unparsable-signature", text), raw]
        return [("sigline-name", name_ok)] + params + [("docrest", rest), ("texts", text, texts, doc)]
'''

PARAM_NAMES = ["a", "b", "c", "d", "e", "x", "y", "k", "n", "\u00e9", "val", "opt", "key_", "_z"]
ANNOTATIONS = [None, None, None, "int", "str", "'str'", "list", "G_C", "'G_C'", "float", "object"]

STRS = ["", "a", "it's", 'say "hi"', "both ' and \"", "back\\slash", "new\nline", "tab\there", "\u00e9\u4e2d",
        "\U0001f600", "nul\x00", "(x, y=1)", "%s {} $"]
BYTESS = [b"", b"ab", b"\x00\xff", b"it's", b'q"', b"\\n"]
INTS = [0, 1, 2, 3, 5, 7, 11, 255, 2 ** 31, 2 ** 63, 10 ** 20]
FLOATS = [0.0, 1.5, 2.5, 1e10, 1e-7, 0.1, 1e300, 3.0]
BINOPS = [ast.Add, ast.Sub, ast.Mult, ast.Div, ast.FloorDiv, ast.Mod, ast.Pow, ast.LShift, ast.RShift, ast.BitOr,
          ast.BitXor, ast.BitAnd]
CMPOPS = [ast.Eq, ast.NotEq, ast.Lt, ast.LtE, ast.Gt, ast.GtE, ast.Is, ast.IsNot, ast.In, ast.NotIn]

_NS = {}


def prelude_ns():
    if not _NS:
        exec(PRELUDE, _NS)
    return _NS


class EG:
    """expression generator; collects feature tags"""

    def __init__(self, draw):
        self.draw = draw
        self.tags = set()

    def pick(self, seq):
        return self.draw(st.sampled_from(list(seq)))

    def num_leaf(self):
        k = self.draw(st.integers(0, 13))
        if k <= 2:
            return ast.Constant(self.pick(INTS))
        if k <= 4:
            return ast.Constant(self.pick(FLOATS))
        if k == 5:
            self.tags.add("neg-literal")
            return ast.UnaryOp(ast.USub(), ast.Constant(self.pick(INTS[1:] + FLOATS)))
        if k <= 9:
            self.tags.add("name")
            return ast.Name(self.pick(["G_I", "G_J", "G_F", "G_I", "G_J", "INF"]), ast.Load())
        if k <= 11:
            self.tags.add("attribute")
            return self.pick([lambda: ast.Attribute(ast.Name("G_O", ast.Load()), "a", ast.Load()),
                              lambda: ast.Attribute(ast.Attribute(ast.Name("G_O", ast.Load()), "b", ast.Load()), "v", ast.Load()),
                              lambda: ast.Attribute(ast.Name("math", ast.Load()), "pi", ast.Load())])()
        self.tags.add("subscript")
        return ast.Subscript(ast.Name("G_L", ast.Load()), ast.Constant(self.pick([0, 1, 3])), ast.Load())

    def leaf(self):
        k = self.draw(st.integers(0, 11))
        if k <= 4:
            return self.num_leaf()
        if k <= 6:
            self.tags.add("str")
            return ast.Constant(self.pick(STRS))
        if k == 7:
            self.tags.add("bytes")
            return ast.Constant(self.pick(BYTESS))
        if k == 8:
            return ast.Constant(self.pick([None, True, False]))
        if k == 9:
            self.tags.add("ellipsis")
            return ast.Constant(Ellipsis)
        if k == 10:
            self.tags.add("name")
            return ast.Name(self.pick(["G_S", "G_L", "G_T", "G_D", "G_O", "G_FN", "G_C"]), ast.Load())
        self.tags.add("neg-zero")
        return ast.UnaryOp(ast.USub(), ast.Constant(0.0))

    def num(self, depth):
        """numeric-valued expression (operators nest so that parentheses matter)"""
        if depth <= 0 or self.draw(st.integers(0, 3)) == 0:
            return self.num_leaf()
        k = self.draw(st.integers(0, 9))
        if k <= 5:
            op = self.pick(BINOPS)
            l, r = self.num(depth - 1), self.num(depth - 1)
            if isinstance(r, ast.BinOp):
                self.tags.add("binop-right-nested")
            if isinstance(l, ast.BinOp):
                self.tags.add("binop-left-nested")
            if isinstance(l, ast.UnaryOp) and op is ast.Pow:
                self.tags.add("pow-of-unary")
            if isinstance(l, ast.IfExp) or isinstance(r, ast.IfExp):
                self.tags.add("ifexp-in-binop")
            self.tags.add("binop")
            return ast.BinOp(l, op(), r)
        if k <= 7:
            self.tags.add("unary")
            operand = self.num(depth - 1)
            if isinstance(operand, (ast.BinOp, ast.IfExp, ast.BoolOp)):
                self.tags.add("unary-of-compound")
            return ast.UnaryOp(self.pick([ast.USub, ast.UAdd, ast.Invert])(), operand)
        if k == 8:
            self.tags.add("ifexp")
            t, b, o = self.anyexpr(depth - 1), self.num(depth - 1), self.num(depth - 1)
            if isinstance(o, ast.IfExp) or isinstance(b, ast.IfExp) or isinstance(t, ast.IfExp):
                self.tags.add("ifexp-nested")
            return ast.IfExp(t, b, o)
        self.tags.add("call")
        return ast.Call(ast.Name(self.pick(["abs", "int", "round"]), ast.Load()), [self.num(depth - 1)], [])

    def var_leaf(self):
        self.tags.add("name")
        return self.pick([lambda: ast.Name("G_I", ast.Load()), lambda: ast.Name("G_J", ast.Load()), lambda: ast.Name("G_F", ast.Load()),
                          lambda: ast.Attribute(ast.Name("G_O", ast.Load()), "a", ast.Load()),
                          lambda: ast.Subscript(ast.Name("G_L", ast.Load()), ast.Constant(1), ast.Load()),
                          lambda: ast.Constant(self.pick([2, 3, 5]))])()

    def paren_sensitive(self):
        """A op1 (B op2 C) or (A op2 B) op1 C over non-constant operands: the grouping must survive re-printing"""
        self.tags.add("paren-sensitive")
        a, b, c = self.var_leaf(), self.var_leaf(), self.var_leaf()
        op1, op2 = self.pick(BINOPS), self.pick(BINOPS)
        if self.draw(st.booleans()):
            self.tags.add("binop-right-nested")
            return ast.BinOp(a, op1(), ast.BinOp(b, op2(), c))
        self.tags.add("binop-left-nested")
        return ast.BinOp(ast.BinOp(a, op2(), b), op1(), c)

    def anyexpr(self, depth):
        if depth <= 0 or self.draw(st.integers(0, 4)) == 0:
            return self.leaf()
        k = self.draw(st.integers(0, 22))
        if k >= 20:
            return self.paren_sensitive()
        if k <= 4:
            return self.num(depth)
        if k == 5:
            self.tags.add("boolop")
            vals = [self.anyexpr(depth - 1) for _ in range(self.draw(st.integers(2, 3)))]
            if any(isinstance(v, ast.BoolOp) for v in vals):
                self.tags.add("boolop-nested")
            return ast.BoolOp(self.pick([ast.And, ast.Or])(), vals)
        if k == 6:
            self.tags.add("not")
            v = self.anyexpr(depth - 1)
            if isinstance(v, (ast.BoolOp, ast.Compare, ast.IfExp)):
                self.tags.add("not-of-compound")
            return ast.UnaryOp(ast.Not(), v)
        if k == 7:
            n = self.draw(st.integers(1, 2))
            self.tags.add("compare" if n == 1 else "compare-chain")
            ops = [self.pick(CMPOPS)() for _ in range(n)]
            comps = []
            for o in ops:
                if isinstance(o, (ast.In, ast.NotIn)):
                    comps.append(ast.Name(self.pick(["G_L", "G_T", "G_D"]), ast.Load()))
                elif isinstance(o, (ast.Is, ast.IsNot)):
                    comps.append(self.pick([lambda: ast.Constant(None), lambda: ast.Name("G_O", ast.Load())])())
                else:
                    comps.append(self.num(depth - 1))
            if any(isinstance(o, (ast.Is, ast.IsNot)) for o in ops):
                left = ast.Name(self.pick(["G_O", "G_I"]), ast.Load())     # no `literal is x` (SyntaxWarning)
                comps = [c if not isinstance(c, (ast.Constant, ast.UnaryOp)) or getattr(c, "value", 0) is None
                         else ast.Name("G_I", ast.Load()) for c in comps]
            else:
                left = self.num(depth - 1)
            return ast.Compare(left, ops, comps)
        if k <= 10:
            n = self.draw(st.sampled_from([0, 1, 1, 2, 3]))
            elts = [self.anyexpr(depth - 1) for _ in range(n)]
            which = self.pick(["tuple", "tuple", "list", "set"])
            if self.draw(st.integers(0, 5)) == 0 and which != "set":
                self.tags.add("starred")
                elts.insert(self.draw(st.integers(0, len(elts))), ast.Starred(ast.Name(self.pick(["G_L", "G_T"]), ast.Load()), ast.Load()))
            if which == "tuple":
                self.tags.add("tuple%d" % len(elts) if len(elts) < 2 else "tuple")
                return ast.Tuple(elts, ast.Load())
            if which == "list":
                self.tags.add("list")
                return ast.List(elts, ast.Load())
            self.tags.add("set" if elts else "set-empty")
            if not elts:
                return ast.Call(ast.Name("set", ast.Load()), [], [])
            return ast.Set([e if not isinstance(e, (ast.List, ast.Set, ast.Dict)) else ast.Constant(1) for e in elts])
        if k == 11:
            self.tags.add("dict")
            n = self.draw(st.integers(0, 3))
            keys = [ast.Constant(self.pick(["k", "it's", 1, 2.5, None, (1, 2)])) for _ in range(n)]
            vals = [self.anyexpr(depth - 1) for _ in range(n)]
            if n and self.draw(st.integers(0, 5)) == 0:
                self.tags.add("dict-unpack")
                keys.append(None)
                vals.append(ast.Name("G_D", ast.Load()))
            return ast.Dict(keys, vals)
        if k == 12:
            self.tags.add("ifexp")
            t, b, o = self.anyexpr(depth - 1), self.anyexpr(depth - 1), self.anyexpr(depth - 1)
            if any(isinstance(x, ast.IfExp) for x in (t, b, o)):
                self.tags.add("ifexp-nested")
            if any(isinstance(x, ast.Lambda) for x in (t, b, o)):
                self.tags.add("lambda-in-ifexp")
            return ast.IfExp(t, b, o)
        if k == 13:
            self.tags.add("lambda")
            args = ast.arguments(posonlyargs=[], args=[ast.arg("q")] if self.draw(st.booleans()) else [], vararg=None,
                                 kwonlyargs=[], kw_defaults=[], kwarg=None, defaults=[])
            return ast.Lambda(args, self.num(depth - 1))
        if k == 14:
            self.tags.add("attribute")
            return self.pick([lambda: ast.Attribute(ast.Name("G_O", ast.Load()), "b", ast.Load()),
                              lambda: ast.Attribute(ast.Name("G_C", ast.Load()), "a", ast.Load()),
                              lambda: ast.Attribute(ast.Constant("x"), "upper", ast.Load()),
                              lambda: ast.Attribute(ast.Constant(3), "real", ast.Load()),
                              lambda: ast.Attribute(ast.Name("G_S", ast.Load()), "encode", ast.Load())])()
        if k == 15:
            self.tags.add("call")
            args = [self.anyexpr(depth - 1) for _ in range(self.draw(st.integers(0, 2)))]
            kws = []
            if self.draw(st.integers(0, 2)) == 0:
                self.tags.add("call-kw")
                kws.append(ast.keyword("kw", self.anyexpr(depth - 1)))
            if self.draw(st.integers(0, 4)) == 0:
                self.tags.add("call-star")
                args.append(ast.Starred(ast.Name("G_T", ast.Load()), ast.Load()))
            if self.draw(st.integers(0, 4)) == 0:
                self.tags.add("call-starstar")
                kws.append(ast.keyword(None, ast.Name("G_D", ast.Load())))
            fn = self.pick(["G_FN", "G_FN", "G_C", "str1"])
            if fn == "str1":
                # no repr()/str() of arbitrary objects: their text contains addresses and function type names
                return ast.Call(ast.Name("str", ast.Load()), [self.num(depth - 1)], [])
            return ast.Call(ast.Name(fn, ast.Load()), args if fn == "G_FN" else args[:1], kws if fn == "G_FN" else [])
        if k == 16:
            self.tags.add("subscript")
            base = self.pick(["G_L", "G_T", "G_S"])
            how = self.draw(st.integers(0, 4))
            if how == 0:
                sl = ast.Constant(self.pick([0, 1, -1]))
                if sl.value == -1:
                    sl = ast.UnaryOp(ast.USub(), ast.Constant(1))
            elif how == 1:
                self.tags.add("slice")
                sl = ast.Slice(ast.Constant(1), None, None)
            elif how == 2:
                self.tags.add("slice")
                sl = ast.Slice(None, ast.UnaryOp(ast.USub(), ast.Constant(1)), None)
            elif how == 3:
                self.tags.add("slice-step")
                sl = ast.Slice(None, None, ast.Constant(2))
            else:
                self.tags.add("subscript-dict")
                return ast.Subscript(ast.Name("G_D", ast.Load()), ast.Constant("k"), ast.Load())
            return ast.Subscript(ast.Name(base, ast.Load()), sl, ast.Load())
        if k == 17:
            self.tags.add("fstring")
            parts = [ast.Constant(self.pick(["v=", "it's ", "{{", ""])),
                     ast.FormattedValue(self.num(depth - 1), self.pick([-1, -1, 114, 115]),
                                        self.pick([None, None, ast.JoinedStr([ast.Constant(">6")])]))]
            return ast.JoinedStr([p for p in parts if not (isinstance(p, ast.Constant) and p.value == "")])
        if k == 18:
            self.tags.add("comprehension")
            gen = ast.comprehension(ast.Name("q", ast.Store()), ast.Name("G_L", ast.Load()),
                                    [ast.Compare(ast.Name("q", ast.Load()), [ast.Gt()], [ast.Constant(12)])]
                                    if self.draw(st.booleans()) else [], 0)
            elt = ast.BinOp(ast.Name("q", ast.Load()), ast.Mult(), ast.Constant(2))
            which = self.pick(["list", "set", "dict", "list"])
            if which == "list":
                return ast.ListComp(elt, [gen])
            if which == "set":
                return ast.SetComp(elt, [gen])
            return ast.DictComp(ast.Name("q", ast.Load()), elt, [gen])
        self.tags.add("str-concat")
        return ast.BinOp(ast.Constant(self.pick(STRS)), self.pick([ast.Add, ast.Mult])(),
                         ast.Constant(self.pick(STRS)) if self.draw(st.booleans()) else ast.Constant(2))


def _check_eval(node):
    """True if the expression evaluates quickly to something of moderate size in the prelude namespace."""
    try:
        src = ast.unparse(ast.fix_missing_locations(ast.Expression(body=node)))
        if "**" in src and len(src) > 60:
            return False
        import warnings
        with warnings.catch_warnings():
            warnings.simplefilter("ignore")
            v = eval(compile(src, "<gen>", "eval"), dict(prelude_ns()))
        if isinstance(v, int) and not isinstance(v, bool) and abs(v) > 10 ** 40:
            return False
        if isinstance(v, (str, bytes, list, tuple)) and len(v) > 200:
            return False
        if isinstance(v, complex):
            return False
        return len(repr(v)) < 600
    except Exception:
        return False


@st.composite
def default_exprs(draw, depth):
    """(source text, sorted tags, is_plain_small_literal)"""
    for _ in range(4):
        g = EG(draw)
        node = g.anyexpr(depth)
        # guard pathological pow before evaluating
        bad = any(isinstance(n, ast.BinOp) and isinstance(n.op, (ast.Pow, ast.LShift)) and
                  not (isinstance(n.right, ast.Constant) and isinstance(n.right.value, int) and n.right.value <= 5)
                  and not isinstance(n.right, ast.UnaryOp) for n in ast.walk(node))
        if bad:
            continue
        if _check_eval(node):
            src = ast.unparse(ast.fix_missing_locations(ast.Expression(body=node)))
            plain = False
            if isinstance(node, ast.Constant):
                v = node.value
                plain = v is None or isinstance(v, bool) or (isinstance(v, int) and abs(v) < 256) or \
                    (isinstance(v, str) and len(v) < 2)
            return src, sorted(g.tags), bool(plain)
    v = draw(st.sampled_from([0, 1, 5]))
    return repr(v), [], True


DOCS = [None, None, "One line.", "It's \"quoted\" \u00e9.", "First line.\n\n    Indented body\n      more\n    end\n    ",
        "f(x, y=1)\n\nlooks like a signature", "\n    Leading newline.\n    ", "trailing \\ backslash", ""]

SCOPES = ["module", "module", "class", "class", "nested", "classnested", "funcclass", "static", "classm", "lambda"]


@st.composite
def items(draw, depth):
    scope = draw(st.sampled_from(SCOPES))
    names = list(draw(st.permutations(PARAM_NAMES)))
    n_po = draw(st.sampled_from([0, 0, 0, 1, 2]))
    n_norm = draw(st.sampled_from([1, 1, 2, 2, 3]))
    n_kwo = draw(st.sampled_from([0, 0, 1, 2]))
    star = draw(st.sampled_from([None, None, "args"]))
    starstar = draw(st.sampled_from([None, None, "kw"]))
    npos = n_po + n_norm
    ndef = min(npos, draw(st.sampled_from([0, 1, 1, 2, 2, 3])))
    params = []
    tags = set()
    nonplain = 0
    for i in range(npos):
        nm = names.pop()
        d = None
        if i >= npos - ndef:
            d = draw(default_exprs(depth))
        params.append(("po" if i < n_po else "n", nm, d))
    for _ in range(n_kwo):
        nm = names.pop()
        d = draw(default_exprs(depth)) if draw(st.booleans()) else None
        params.append(("k", nm, d))
    ann = {p[1]: draw(st.sampled_from(ANNOTATIONS)) for p in params} if scope != "lambda" else {}
    ret = draw(st.sampled_from([None, None, None, "int", "'G_C'", "list"])) if scope != "lambda" else None
    doc = draw(st.sampled_from(DOCS)) if scope != "lambda" else None
    return {"scope": scope, "params": params, "star": star, "starstar": starstar, "ann": ann, "ret": ret, "doc": doc}


def _param_text(raw, with_ann=True):
    out = []
    seen_po = False
    params = raw["params"]

    def one(p):
        kind, nm, d = p
        a = raw["ann"].get(nm) if with_ann else None
        t = nm + (": %s" % a if a else "")
        if d is not None:
            t += (" = %s" % d[0]) if a else ("=%s" % d[0])
        return t
    po = [p for p in params if p[0] == "po"]
    no = [p for p in params if p[0] == "n"]
    ko = [p for p in params if p[0] == "k"]
    out += [one(p) for p in po]
    if po:
        out.append("/")
    out += [one(p) for p in no]
    if raw["star"]:
        out.append("*" + raw["star"])
    elif ko:
        out.append("*")
    out += [one(p) for p in ko]
    if raw["starstar"]:
        out.append("**" + raw["starstar"])
    return ", ".join(out)


def materialise(raw, uid):
    """-> {"src", "access" (expression template with {M}), "meta"}"""
    scope = raw["scope"]
    ptxt = _param_text(raw)
    ret = " -> %s" % raw["ret"] if raw["ret"] else ""
    doc = raw["doc"]

    def fn(name, indent, first=None, deco=None):
        pad = " " * indent
        plist = ", ".join([x for x in (first, ptxt) if x])
        lines = []
        if deco:
            lines.append(pad + deco)
        lines.append("%sdef %s(%s)%s:" % (pad, name, plist, ret))
        if doc is not None:
            lines.append("%s    %s" % (pad, _doc_literal(doc)))
        lines.append("%s    return None" % pad)
        return "\n".join(lines) + "\n"
    if scope == "module":
        src = fn("f_%s" % uid, 0)
        access, qual, depth_ = "{M}f_%s" % uid, "f_%s" % uid, 1
    elif scope == "lambda":
        src = "f_%s = lambda %s: None\n" % (uid, _param_text(raw, with_ann=False))
        access, qual, depth_ = "{M}f_%s" % uid, "<lambda>", 1
    elif scope in ("class", "static", "classm"):
        first = {"class": "self", "static": None, "classm": "cls"}[scope]
        deco = {"static": "@staticmethod", "classm": "@classmethod"}.get(scope)
        src = "class K_%s:\n%s" % (uid, fn("m", 4, first, deco))
        access, qual, depth_ = "{M}K_%s.m" % uid, "K_%s.m" % uid, 2
    elif scope == "nested":
        src = "def o_%s():\n%s    return inner\n" % (uid, fn("inner", 4))
        access, qual, depth_ = "{M}o_%s()" % uid, "o_%s.<locals>.inner" % uid, 2
    elif scope == "classnested":
        src = "class K_%s:\n    class In:\n%s" % (uid, fn("m", 8, "self"))
        access, qual, depth_ = "{M}K_%s.In.m" % uid, "K_%s.In.m" % uid, 3
    elif scope == "funcclass":
        src = "def o_%s():\n    class L:\n%s    return L\n" % (uid, fn("m", 8, "self"))
        access, qual, depth_ = "{M}o_%s().m" % uid, "o_%s.<locals>.L.m" % uid, 3
    else:
        raise ValueError(scope)
    tags = sorted({t for p in raw["params"] if p[2] for t in p[2][1]})
    nonplain = sum(1 for p in raw["params"] if p[2] and not p[2][2])
    return {"src": src, "access": access,
            "meta": {"scope": scope, "qualname": qual, "depth": depth_, "tags": tags, "nonplain": nonplain, "uid": uid,
                     "sig": ptxt, "doc": doc,
                     "default_order": [p[1] for p in raw["params"] if p[2]], "defaults": {p[1]: [p[2][0], p[2][1]] for p in raw["params"] if p[2]}}}


def _doc_literal(doc):
    if "\n" in doc:
        body = doc.replace("\\", "\\\\").replace('"""', '\\"\\"\\"')
        if body.endswith('"'):
            body = body[:-1] + '\\"'
        return '"""%s"""' % body
    return repr(doc)


def draw_items(k, seed, parts, prefix, depth=3):
    from vlib import hyp
    raw = hyp.draw_many(items(depth), k + k // 2 + 2, seed, *parts)[1:]
    seen, uniq = set(), []
    for r in raw:
        key = (r["scope"], _param_text(r), r["doc"])
        if key not in seen:
            seen.add(key)
            uniq.append(r)
    return [materialise(r, "%s_%d" % (prefix, i)) for i, r in enumerate(uniq[:k])]
