"""Shared machinery for the Cython property checks (see DESIGN.md §2, §3)."""
