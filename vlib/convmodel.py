"""C33 model + in-runner driver: Python <-> C/C++ value conversions.

SELF-CONTAINED (stdlib only): imported by the check (value generation, expected outcomes) AND loaded by path into the
runner subprocess as `convmodel`:   convmodel.run(M, '<json job list>') -> json summaries.

Type descriptors (JSON lists):
    ["int", ctype]                    C integer (ctype in INT_RANGES)
    ["double"] / ["float"]
    ["bytes"]                         std::string / char* as bytes          (["cstr"]: char*, stops at NUL)
    ["text", enc]                     std::string / char* under c_string_type=str (enc: "ascii" | "utf8" | "latin1");
                                      ["ctext", enc]: char*, stops at NUL
    ["barr", enc] / ["cbarr", enc]    c_string_type=bytearray (enc only governs which str inputs are accepted)
    ["complex"]
    ["vector", T] ["list", T] ["set", T] ["uset", T] ["map", K, V] ["umap", K, V] ["pair", A, B]
    ["struct", name, [[field, T], ...]]   from a mapping, to a dict
    ["union", name, [[field, T], ...]]    from a single-key mapping; the kernel returns the member that was set
    ["array", T, n]                        C array, to a list

Encoded values (JSON): see enc()/dec().  An expected outcome is ("ok", python value) or ("exc", allowed class names).
"""
import json
import math

INT_RANGES = {
    "signed char": (-128, 127), "unsigned char": (0, 255), "short": (-2 ** 15, 2 ** 15 - 1),
    "unsigned short": (0, 2 ** 16 - 1), "int": (-2 ** 31, 2 ** 31 - 1), "unsigned int": (0, 2 ** 32 - 1),
    "long": (-2 ** 63, 2 ** 63 - 1), "unsigned long": (0, 2 ** 64 - 1), "long long": (-2 ** 63, 2 ** 63 - 1),
    "size_t": (0, 2 ** 64 - 1),
}
WRONG = ("TypeError", "ValueError", "OverflowError")


class GenRaises(Exception):
    """Raised by generated iterators that fail midway."""


class Reject(Exception):
    def __init__(self, allowed, why):
        Exception.__init__(self, why)
        self.allowed = tuple(allowed)
        self.why = why


# ------------------------------------------------------------------------------------------------ value codec
def enc(v):
    """Python value -> JSON-able."""
    if v is None:
        return {"t": "none"}
    if v is True or v is False:
        return {"t": "bool", "v": v}
    if isinstance(v, int):
        return {"t": "int", "v": str(v)}
    if isinstance(v, float):
        return {"t": "float", "v": v.hex() if v == v else "nan"}
    if isinstance(v, complex):
        return {"t": "complex", "v": [enc(v.real), enc(v.imag)]}
    if isinstance(v, str):
        return {"t": "str", "v": [ord(c) for c in v]}
    if isinstance(v, bytes):
        return {"t": "bytes", "v": v.hex()}
    if isinstance(v, bytearray):
        return {"t": "bytearray", "v": bytes(v).hex()}
    if isinstance(v, list):
        return {"t": "list", "v": [enc(x) for x in v]}
    if isinstance(v, tuple):
        return {"t": "tuple", "v": [enc(x) for x in v]}
    if isinstance(v, (set, frozenset)):
        return {"t": "set", "v": [enc(x) for x in v]}
    if isinstance(v, dict):
        return {"t": "dict", "v": [[enc(k), enc(x)] for k, x in v.items()]}
    if isinstance(v, Gen):
        return {"t": "gen", "v": [enc(x) for x in v.items], "raise_at": v.raise_at}
    raise TypeError("cannot encode %r" % (v,))


class Gen:
    """Marker for 'a generator yielding items (and raising GenRaises before item raise_at, if not None)'."""
    def __init__(self, items, raise_at=None):
        self.items = list(items)
        self.raise_at = raise_at

    def __repr__(self):
        return "Gen(%r, raise_at=%r)" % (self.items, self.raise_at)


def _gen(items, raise_at):
    for i, x in enumerate(items):
        if raise_at is not None and i == raise_at:
            raise GenRaises("item %d" % i)
        yield x
    if raise_at is not None and raise_at >= len(items):
        raise GenRaises("at end")


def dec(e, live=True):
    """JSON-able -> Python value.  live=True materialises Gen markers as real generators (single use!)."""
    t = e["t"]
    if t == "none":
        return None
    if t == "bool":
        return bool(e["v"])
    if t == "int":
        return int(e["v"])
    if t == "float":
        return float("nan") if e["v"] == "nan" else float.fromhex(e["v"])
    if t == "complex":
        return complex(dec(e["v"][0]), dec(e["v"][1]))
    if t == "str":
        return "".join(chr(c) for c in e["v"])
    if t == "bytes":
        return bytes.fromhex(e["v"])
    if t == "bytearray":
        return bytearray.fromhex(e["v"])
    if t == "list":
        return [dec(x, live) for x in e["v"]]
    if t == "tuple":
        return tuple(dec(x, live) for x in e["v"])
    if t == "set":
        return {dec(x, live) for x in e["v"]}
    if t == "dict":
        return {dec(k, live): dec(x, live) for k, x in e["v"]}
    if t == "gen":
        items = [dec(x, live) for x in e["v"]]
        return _gen(items, e["raise_at"]) if live else Gen(items, e["raise_at"])
    raise ValueError(t)


# ------------------------------------------------------------------------------------------------ the model
def _typename(v):
    return type(v).__name__


def conv(T, v):
    """Model of `cdef T x = v; return x`: returns the Python value, or raises Reject(allowed exception classes)."""
    k = T[0]
    if k == "int":
        lo, hi = INT_RANGES[T[1]]
        if isinstance(v, bool) or type(v) is int:
            if lo <= int(v) <= hi:
                return int(v)
            raise Reject(("OverflowError",), "integer %d out of range for %s" % (v, T[1]))
        raise Reject(("TypeError",), "%s for C %s" % (_typename(v), T[1]))
    if k in ("double", "float"):
        if isinstance(v, bool) or type(v) in (int, float):
            try:
                f = float(v)
            except OverflowError:
                raise Reject(("OverflowError",), "int too large for double")
            if k == "float":
                import struct
                try:
                    f = struct.unpack("f", struct.pack("f", f))[0]
                except OverflowError:
                    f = math.copysign(float("inf"), f)          # C double -> float conversion of a large value
            return f
        raise Reject(("TypeError",), "%s for C %s" % (_typename(v), k))
    if k == "complex":
        if isinstance(v, bool) or type(v) in (int, float, complex):
            try:
                return complex(v)
            except OverflowError:
                raise Reject(("OverflowError",), "int too large for complex")
        raise Reject(("TypeError",), "%s for C++ complex" % _typename(v))
    if k in ("bytes", "cstr", "barr", "cbarr", "text", "ctext"):
        encname = T[1] if len(T) > 1 and T[1] in ("ascii", "utf8", "latin1") else None
        # ---- Python -> C string: bytes / bytearray always; str only with an ascii / utf8 c_string_encoding
        if type(v) in (bytes, bytearray):
            raw = bytes(v)
        elif type(v) is str and encname in ("ascii", "utf8"):
            try:
                raw = v.encode(encname)
            except UnicodeError:
                raise Reject(("UnicodeEncodeError", "UnicodeError", "ValueError"), "str not encodable as %s" % encname)
        elif type(v) is str:
            raise Reject(("TypeError",), "str for a C string without an implicit ascii / utf8 encoding")
        else:
            raise Reject(("TypeError",), "%s for a C string" % _typename(v))
        # ---- C string -> Python
        if k in ("cstr", "cbarr", "ctext"):
            raw = raw.split(b"\0", 1)[0]            # char* stops at the first NUL (documented)
        if k in ("bytes", "cstr"):
            return raw
        if k in ("barr", "cbarr"):
            return bytearray(raw)
        try:
            return raw.decode(encname)
        except UnicodeError:
            raise Reject(("UnicodeDecodeError", "UnicodeError", "ValueError"), "bytes not decodable as %s" % encname)
    if k in ("vector", "list", "set", "uset"):
        items = _iterate(v, "a C++ %s" % k)
        out = []
        for it in items:
            if isinstance(it, Reject):
                raise it
            out.append(conv(T[1], it))
        if k in ("set", "uset"):
            res = set()
            for x in out:
                if x not in res:            # std::set::insert keeps the first of equivalent elements
                    res.add(x)
            return res
        return out
    if k in ("map", "umap"):
        if not hasattr(v, "items"):
            raise Reject(("TypeError", "AttributeError"), "%s has no items() for a C++ map" % _typename(v))
        res = {}
        for key, val in v.items():
            ck = conv(T[1], key)
            cv = conv(T[2], val)
            if ck not in res:              # std::map::insert does not overwrite
                res[ck] = cv
        return res
    if k == "pair":
        items = _iterate(v, "a C++ pair")
        got = []
        for it in items:
            if isinstance(it, Reject):
                raise it
            got.append(it)
            if len(got) > 2:
                break
        if len(got) != 2:
            raise Reject(("ValueError", "TypeError"), "%d values for a pair" % len(got))
        return (conv(T[1], got[0]), conv(T[2], got[1]))
    if k == "array":
        n = T[2]
        try:
            ln = len(v)
        except TypeError:
            ln = None
        except OverflowError:
            ln = None
        if ln is not None and ln != n:
            raise Reject(("IndexError", "ValueError", "TypeError"), "length %d for array of %d" % (ln, n))
        items = _iterate(v, "a C array")
        out = []
        for it in items:
            if isinstance(it, Reject):
                raise it
            if len(out) >= n:
                raise Reject(("IndexError", "ValueError", "TypeError"), "too many values for array of %d" % n)
            out.append(conv(T[1], it))
        if len(out) != n:
            raise Reject(("IndexError", "ValueError", "TypeError"), "%d values for array of %d" % (len(out), n))
        return out
    if k == "struct":
        if not _is_mapping(v):
            raise Reject(("TypeError",), "%s is not a mapping" % _typename(v))
        vals = []
        for fname, ft in T[2]:
            if fname not in v:
                raise Reject(("ValueError", "KeyError"), "missing key %r" % fname)
            vals.append(v[fname])
        return {fname: conv(ft, x) for (fname, ft), x in zip(T[2], vals)}
    if k == "union":
        if not _is_mapping(v):
            # lists / str pass PyMapping_Check and then fail the member lookup with ValueError
            raise Reject(("TypeError", "ValueError"), "%s is not a mapping" % _typename(v))
        present = [(fname, ft) for fname, ft in T[2] if fname in v]
        if len(present) != 1 or len(v) != 1:
            raise Reject(("ValueError",), "%d of the union members given (%d keys)" % (len(present), len(v)))
        fname, ft = present[0]
        return {fname: conv(ft, v[fname])}
    raise ValueError(T)


def _is_mapping(v):
    return isinstance(v, dict)


def _iterate(v, what):
    """Yield the items of v like `for item in v`; a failing iteration yields a Reject instance as last element."""
    if isinstance(v, Gen):
        def g():
            for i, x in enumerate(v.items):
                if v.raise_at is not None and i == v.raise_at:
                    yield Reject(("GenRaises",), "iterator raises")
                    return
                yield x
            if v.raise_at is not None and v.raise_at >= len(v.items):
                yield Reject(("GenRaises",), "iterator raises")
        return g()
    if isinstance(v, (list, tuple, set, frozenset, dict, str, bytes, bytearray)):
        return iter(v)
    return iter([Reject(("TypeError",), "%s is not iterable (%s)" % (_typename(v), what))])


def expected(T, v):
    try:
        return ("ok", conv(T, v))
    except Reject as r:
        return ("exc", list(r.allowed), r.why)


def either(T, v):
    """True if the case is debatable (executed, not judged): a struct / union mapping that is complete but carries
    additional unknown keys (the struct converter ignores them, the union converter raises ValueError)."""
    k = T[0]
    if k == "struct" and isinstance(v, dict):
        names = [f for f, _ in T[2]]
        if all(f in v for f in names):
            if any(key not in names for key in v):
                return True
            return any(either(ft, v[f]) for f, ft in T[2])
        return False
    if k == "union" and isinstance(v, dict):
        names = [f for f, _ in T[2]]
        known = [key for key in v if key in names]
        return len(known) == 1 and len(v) > 1 and all(key in names or True for key in v) and any(key not in names for key in v)
    if k in ("vector", "list", "set", "uset", "array") and isinstance(v, (list, tuple, Gen)):
        items = v.items if isinstance(v, Gen) else v
        return any(either(T[1], x) for x in items)
    if k == "pair" and isinstance(v, (list, tuple)) and len(v) == 2:
        return either(T[1], v[0]) or either(T[2], v[1])
    if k in ("map", "umap") and isinstance(v, dict):
        return any(either(T[2], x) for x in v.values())
    return False


# ------------------------------------------------------------------------------------------------ canon / classes
def canon(v):
    if isinstance(v, float):
        return "f:nan" if v != v else "f:" + v.hex()
    if isinstance(v, complex):
        return "c:(%s,%s)" % (canon(v.real), canon(v.imag))
    if isinstance(v, bool):
        return "b:%r" % v
    if isinstance(v, int):
        return "i:%d" % v
    if isinstance(v, (bytes, bytearray, str)):
        return "%s:%s" % (type(v).__name__, ascii(bytes(v) if not isinstance(v, str) else v))
    if isinstance(v, list):
        return "[" + ",".join(canon(x) for x in v) + "]"
    if isinstance(v, tuple):
        return "(" + ",".join(canon(x) for x in v) + ")"
    if isinstance(v, (set, frozenset)):
        return "{" + ",".join(sorted(canon(x) for x in v)) + "}"
    if isinstance(v, dict):
        return "{" + ",".join(sorted(canon(k) + "=>" + canon(x) for k, x in v.items())) + "}"
    if v is None:
        return "None"
    return "?%s:%r" % (type(v).__name__, v)


def depth(v):
    if isinstance(v, Gen):
        v = v.items
    if isinstance(v, dict):
        return 1 + max([max(depth(k), depth(x)) for k, x in v.items()] + [0])
    if isinstance(v, (list, tuple, set, frozenset)):
        return 1 + max([depth(x) for x in v] + [0])
    return 0


def has_special_text(v):
    if isinstance(v, Gen):
        v = v.items
    if isinstance(v, (bytes, bytearray)):
        return b"\0" in bytes(v) or any(c >= 0x80 for c in bytes(v))
    if isinstance(v, str):
        return "\0" in v or any(ord(c) >= 0x80 for c in v)
    if isinstance(v, dict):
        return any(has_special_text(k) or has_special_text(x) for k, x in v.items())
    if isinstance(v, (list, tuple, set, frozenset)):
        return any(has_special_text(x) for x in v)
    return False


def is_empty_container(v):
    if isinstance(v, Gen):
        v = v.items
    return isinstance(v, (list, tuple, set, frozenset, dict, bytes, bytearray, str)) and len(v) == 0


def nontrivial(v, outcome):
    return outcome[0] == "exc" or depth(v) >= 2 or is_empty_container(v) or has_special_text(v)


# ------------------------------------------------------------------------------------------------ driver
def run_job(M, job):
    """job: {"k": kernel, "T": descriptor, "values": [encoded...], "union": bool}"""
    f = getattr(M, job["k"])
    T = job["T"]
    n = nt = nbad = neither = 0
    cls = {}
    bad = []
    seen = set()
    ntkeys = []
    for ev in job["values"]:
        model_v = dec(ev, live=False)
        exp = expected(T, model_v)
        n += 1
        lab = "out:" + (exp[0] if exp[0] == "ok" else "exc:" + exp[1][0])
        cls[lab] = cls.get(lab, 0) + 1
        if either(T, model_v):
            neither += 1
            cls["either:extra-keys"] = cls.get("either:extra-keys", 0) + 1
            try:
                f(dec(ev, live=True))
            except Exception:      # noqa
                pass
            continue
        isnt = nontrivial(model_v, exp)
        if isnt:
            nt += 1
            if len(ntkeys) < job.get("maxnt", 6) and (nt & (nt - 1)) == 0:
                ntkeys.append([job["k"], ev])
        try:
            got = f(dec(ev, live=True))
            gk = "ok"
        except Exception as e:      # noqa
            got = e
            gk = type(e).__name__
        verdict = None
        if exp[0] == "ok":
            if gk != "ok":
                verdict = "ok->exc:" + gk
                detail = "raised %s: %s; expected %s" % (gk, got, canon(exp[1])[:300])
            elif canon(got) != canon(exp[1]):
                verdict = "value"
                detail = "returned %s; expected %s" % (canon(got)[:300], canon(exp[1])[:300])
        else:
            if gk == "ok":
                verdict = "exc->ok:" + exp[1][0]
                detail = "returned %s; expected %s (%s)" % (canon(got)[:300], "/".join(exp[1]), exp[2])
            elif gk not in exp[1]:
                verdict = "exctype:%s->%s" % (exp[1][0], gk)
                detail = "raised %s: %s; expected %s (%s)" % (gk, got, "/".join(exp[1]), exp[2])
        if verdict is not None:
            nbad += 1
            bucket = "%s|%s" % (job["label"], verdict)
            if bucket not in seen and len(bad) < job.get("maxbad", 12):
                seen.add(bucket)
                bad.append([bucket, {"k": job["k"], "T": T, "label": job["label"], "value": ev},
                            "%s(%r): %s" % (job["k"], model_v, detail)])
    return {"n": n, "nt": nt, "nbad": nbad, "either": neither, "cls": cls, "bad": bad, "ntkeys": ntkeys}


def run(M, jobs_json):
    return json.dumps([run_job(M, j) for j in json.loads(jobs_json)])
