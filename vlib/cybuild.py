"""Cython (in-process, from the source view) + C compiler driver."""
import hashlib
import io
import os
import subprocess
import sys
import sysconfig
import threading

from . import tree

PY_INC = sysconfig.get_paths()["include"]
EXT_SUFFIX = sysconfig.get_config_var("EXT_SUFFIX")
BASE_CFLAGS = ["-O0", "-w", "-fPIC", "-fwrapv", "-fno-strict-aliasing"]
SAN_CFLAGS = ["-O0", "-g1", "-w", "-fPIC", "-fno-strict-aliasing", "-fno-omit-frame-pointer",
              "-fsanitize=address,undefined", "-fno-sanitize=vptr",
              "-fno-sanitize-recover=undefined"]


class CythonError(Exception):
    """Cython reported positioned compile errors (not a crash)."""
    def __init__(self, errors, crashed=None):
        Exception.__init__(self, "\n".join(errors[:10]))
        self.errors = errors
        self.crashed = crashed


class CCError(Exception):
    pass


_lock = threading.Lock()


def cython_compile(src_path, cplus=False, directives=None, options=None, language_level=3,
                   capture=True):
    """Run the Cython compiler in-process on src_path. Returns the C file path.

    Raises CythonError (with .errors texts) if compilation reports errors, and lets
    any internal exception of the compiler propagate (C43 cares about those).
    """
    tree.activate_view()
    from Cython.Compiler import Main, Options, Errors
    opts = dict(options or {})
    cdirs = dict(directives or {})
    out = os.path.splitext(src_path)[0] + (".cpp" if cplus else ".c")
    if os.path.exists(out):
        os.unlink(out)
    co = Options.CompilationOptions(
        Options.default_options, cplus=cplus, language_level=language_level,
        compiler_directives=cdirs, output_file=out, **opts)
    old_stderr = sys.stderr
    buf = io.StringIO()
    if capture:
        sys.stderr = buf
    try:
        try:
            result = Main.compile_single(src_path, co, os.path.splitext(os.path.basename(src_path))[0])
        finally:
            sys.stderr = old_stderr
    except Errors.CompileError as e:
        raise CythonError([str(e)] + buf.getvalue().splitlines())
    if result.num_errors > 0 or not os.path.exists(out):
        text = buf.getvalue()
        raise CythonError(text.splitlines() or ["num_errors=%d" % result.num_errors],
                          crashed=("Compiler crash" in text))
    return out


def cc(c_path, so_path=None, flags=None, defines=None, cplus=None, sanitize=False, extra=None,
       compiler=None, timeout=600):
    if cplus is None:
        cplus = c_path.endswith(".cpp")
    if so_path is None:
        so_path = os.path.splitext(c_path)[0] + EXT_SUFFIX
    comp = compiler or ("g++" if cplus else "gcc")
    cmd = [comp]
    cmd += list(flags if flags is not None else (SAN_CFLAGS if sanitize else BASE_CFLAGS))
    if cplus:
        cmd += ["-std=c++17"]
    for d in (defines or []):
        cmd.append("-D" + d)
    cmd += ["-I", PY_INC, "-shared", "-o", so_path, c_path]
    cmd += list(extra or [])
    p = subprocess.run(cmd, stdout=subprocess.PIPE, stderr=subprocess.STDOUT, text=True,
                       timeout=timeout)
    if p.returncode != 0:
        raise CCError("%s\n%s" % (" ".join(cmd), p.stdout[-4000:]))
    return so_path


def numpy_include():
    import numpy
    return numpy.get_include()


def build(src_text, name, outdir, ext=".py", cplus=False, directives=None, options=None,
          flags=None, defines=None, sanitize=False, extra=None, so_dir=None, encoding="utf-8"):
    """Write src_text as <outdir>/<name><ext>, cythonize it and compile to a .so.

    The .so is placed in so_dir (default <outdir>/so) - a directory that does not
    contain the source, so a runner can never import the .py by accident.
    """
    os.makedirs(outdir, exist_ok=True)
    src_path = os.path.join(outdir, name + ext)
    if isinstance(src_text, bytes):
        with open(src_path, "wb") as f:
            f.write(src_text)
    else:
        with open(src_path, "w", encoding=encoding, newline="") as f:
            f.write(src_text)
    c_path = cython_compile(src_path, cplus=cplus, directives=directives, options=options)
    so_dir = so_dir or os.path.join(outdir, "so")
    os.makedirs(so_dir, exist_ok=True)
    so_path = os.path.join(so_dir, name + EXT_SUFFIX)
    cc(c_path, so_path, flags=flags, defines=defines, cplus=cplus, sanitize=sanitize, extra=extra)
    return so_path


def san_env(env=None):
    env = dict(env if env is not None else os.environ)
    asan = subprocess.run(["gcc", "-print-file-name=libasan.so"], capture_output=True, text=True).stdout.strip()
    ubsan = subprocess.run(["gcc", "-print-file-name=libubsan.so"], capture_output=True, text=True).stdout.strip()
    env["LD_PRELOAD"] = asan + " " + ubsan
    env["ASAN_OPTIONS"] = "detect_leaks=0:abort_on_error=1:allocator_may_return_null=1:handle_segv=1"
    env["UBSAN_OPTIONS"] = "print_stacktrace=1:halt_on_error=1"
    return env


def sha12(text):
    if isinstance(text, str):
        text = text.encode("utf-8", "surrogatepass")
    return hashlib.sha256(text).hexdigest()[:12]
