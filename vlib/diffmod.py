"""E2: differential module batches (DESIGN §3 E2).

items: list of dicts {"src": <text defining the item's functions/classes>, "cases": [{"expr": "M.f(...)"}, ...],
"meta": anything}.  K items are rendered into one module, compiled once, run in a runner subprocess and in a
CPython reference runner on the *same source text*.
"""
import os

from . import cybuild, runner, tree

PY_HEADER = "LOG = []\n"


class BatchResult:
    def __init__(self):
        self.status = "ok"          # ok | cyerror | ccerror | import-diff
        self.detail = None
        self.src = None
        self.ref = None              # list per item of list of outcomes
        self.got = None
        self.c_path = None
        self.so_path = None


def render(items, header=PY_HEADER):
    return header + "\n\n".join(it["src"] for it in items) + "\n"


def flat_cases(items):
    flat = []
    for it in items:
        flat.extend(it["cases"])
    return flat


def unflat(items, outcomes):
    out = []
    i = 0
    for it in items:
        n = len(it["cases"])
        out.append(outcomes[i:i + n])
        i += n
    return out


def _internal_detail(e):
    """Error lines for an exception that escaped from the compiler (same marker as Cython's own CompilerCrash text)."""
    import traceback
    tb = traceback.extract_tb(e.__traceback__)
    where = ""
    for fr in reversed(tb):
        if "/Cython/" in fr.filename:
            where = " at %s:%s" % (os.path.basename(fr.filename), fr.name)
            break
    return ["Compiler crash (internal %s%s): %s" % (type(e).__name__, where, str(e)[:300])]


def run_batch(items, name, outdir, header=PY_HEADER, ext=".py", directives=None, options=None, cplus=False,
              flags=None, defines=None, sanitize=False, env=None, reference=True, setup=None,
              extra=None, timeout=300, keep_c=False, run_env=None, always_log=False):
    """Compile + run one batch. Returns BatchResult."""
    res = BatchResult()
    src = render(items, header)
    res.src = src
    d = os.path.join(outdir, name)
    try:
        so = cybuild.build(src, name, d, ext=ext, cplus=cplus, directives=directives, options=options,
                           flags=flags, defines=defines, sanitize=sanitize, extra=extra)
    except cybuild.CythonError as e:
        res.status = "cyerror"
        res.detail = e.errors[:20]
        return res
    except cybuild.CCError as e:
        res.status = "ccerror"
        res.detail = str(e)[-3000:]
        return res
    except Exception as e:       # internal exception of the compiler that was not wrapped into a CompileError
        res.status = "cyerror"
        res.detail = _internal_detail(e)
        return res
    res.so_path = so
    res.c_path = os.path.join(d, name + (".cpp" if cplus else ".c"))
    cases = flat_cases(items)
    renv = run_env
    if sanitize and renv is None:
        renv = cybuild.san_env()
    imp_c, got = runner.run_cases("so", so, name, cases, env=renv, setup=setup, timeout=timeout,
                                  always_log=always_log)
    res.got_import = imp_c
    res.got = unflat(items, got)
    if reference:
        imp_r, ref = runner.run_cases("py", os.path.join(d, name + ext), name, cases, setup=setup,
                                      timeout=timeout, always_log=always_log)
        res.ref_import = imp_r
        res.ref = unflat(items, ref)
        if imp_r != imp_c:
            res.status = "import-diff"
            res.detail = {"ref": imp_r, "got": imp_c}
    return res


def split_failing(items, name, outdir, status_of, depth=0, **kw):
    """When a batch fails to build, bisect to isolate failing items.
    Returns list of (item, BatchResult-or-None) for items, where None means "built fine in a sub-batch"
    (and the sub-batch results are yielded as ('batch', items, result))."""
    raise NotImplementedError


def run_batch_isolating(items, name, outdir, **kw):
    """Run a batch; on build failure isolate the failing items so that good items are still executed.

    Yields (sub_items, BatchResult) pairs; failing single items come with status cyerror/ccerror."""
    res = run_batch(items, name, outdir, **kw)
    if res.status in ("ok", "import-diff") or len(items) == 1:
        yield items, res
        return
    if res.status == "cyerror":
        # Cython alone is cheap: test every item on its own, drop the bad ones, rebuild the rest once
        good = []
        header = kw.get("header", PY_HEADER)
        ext = kw.get("ext", ".py")
        d = os.path.join(outdir, name + "_probe")
        os.makedirs(d, exist_ok=True)
        for j, it in enumerate(items):
            pth = os.path.join(d, "p%d%s" % (j, ext))
            with open(pth, "w", encoding="utf-8", newline="") as f:
                f.write(render([it], header))
            try:
                cybuild.cython_compile(pth, cplus=kw.get("cplus", False), directives=kw.get("directives"),
                                       options=kw.get("options"))
                good.append(it)
            except Exception as e:
                r = BatchResult()
                r.status = "cyerror"
                r.detail = e.errors[:40] if isinstance(e, cybuild.CythonError) else _internal_detail(e)
                r.src = render([it], header)
                yield [it], r
            except Exception as e:   # internal compiler exception
                r = BatchResult()
                r.status = "cyerror"
                r.detail = ["internal exception %s: %s" % (type(e).__name__, e)]
                r.src = render([it], header)
                yield [it], r
        if good and len(good) < len(items):
            for r in run_batch_isolating(good, name + "_g", outdir, **kw):
                yield r
        elif good:
            # whole batch failed but every item compiles alone: bisect
            mid = len(items) // 2
            for j, part in enumerate((items[:mid], items[mid:])):
                for r in run_batch_isolating(part, "%s_%d" % (name, j), outdir, **kw):
                    yield r
        return
    mid = len(items) // 2
    for j, part in enumerate((items[:mid], items[mid:])):
        for r in run_batch_isolating(part, "%s_%d" % (name, j), outdir, **kw):
            yield r


def cy_error_messages(detail):
    """Extract 'file:line:col: message' texts from a CythonError detail list."""
    import re
    out = []
    for l in detail or []:
        m = re.match(r"^\S+:\d+:\d+: (.*)", l)
        if m:
            out.append(re.sub(r"'[^']*'", "'_'", m.group(1)))
    return out


def msg_template(outcome):
    """Normalise an outcome for bucketing: digits and quoted names removed."""
    import json
    import re
    s = json.dumps(outcome)
    s = re.sub(r"\d+", "N", s)
    s = re.sub(r"'[^']*'", "'_'", s)
    return s[:200]


MSG_EXC_TYPES = {"TypeError", "ValueError", "IndexError", "AttributeError", "OverflowError", "ZeroDivisionError",
                 "UnboundLocalError", "NameError", "RuntimeError", "SystemError", "UnicodeEncodeError",
                 "UnicodeDecodeError", "ImportError", "NotImplementedError", "BufferError", "MemoryError"}


def _is_msg(args):
    return (args[0] == "tuple" and len(args[1]) == 1 and args[1][0][0] == "str")


def compare(ref, got, mode="full"):
    """Return None if outcomes agree under `mode`, else a short classification string.
    mode "full": everything equal.  "exctype": values/logs equal, exceptions compared by type only."""
    if ref == got:
        return None
    if ref[0] in ("timeout", "notrun") or got[0] in ("timeout", "notrun"):
        return None     # inconclusive, never a verdict (counted by the caller)
    if got and got[0] in ("crash", "timeout", "notrun"):
        if ref and ref[0] == got[0]:
            return None
        return got[0] + ":" + str(got[1] if len(got) > 1 else "")
    if ref and ref[0] in ("crash", "timeout", "notrun"):
        return "ref-" + ref[0]
    if ref[0] == "exc" and got[0] == "exc":
        if ref[1] != got[1]:
            return "exctype:%s->%s" % (ref[1], got[1])
        if mode == "exctype":
            if ref[3:] == got[3:]:
                return None
            return "log-after-exc"
        if ref[2] != got[2]:
            if ref[1] in MSG_EXC_TYPES and _is_msg(ref[2]) and _is_msg(got[2]):
                # same type, args are one message string each, only the text differs
                return "excmsg:%s" % ref[1]
            return "excargs:%s|%s" % (msg_template(ref[2]), msg_template(got[2]))
        return "log-after-exc:%s" % ref[1]
    if ref[0] != got[0]:
        return "%s->%s:%s" % (ref[0], got[0], (got[1] if got[0] == "exc" else ref[1]))
    if ref[1] != got[1]:
        return "value"
    return "log"


def replay_case(case, outdir, mode="full"):
    """Generic replay for differential pure-Python cases.
    case: {"header","src","exprs",[ "ext","directives","cplus","defines","flags" ]}"""
    items = [{"src": case["src"], "cases": [{"expr": e} for e in case["exprs"]]}]
    res = run_batch(items, case.get("name", "replaymod"), outdir, header=case.get("header", PY_HEADER),
                    ext=case.get("ext", ".py"), directives=case.get("directives"), cplus=case.get("cplus", False),
                    defines=case.get("defines"), flags=case.get("flags"), sanitize=case.get("sanitize", False))
    if res.status != "ok":
        return True, "build status %s: %s" % (res.status, str(res.detail)[:300])
    for e, r, g in zip(case["exprs"], res.ref[0], res.got[0]):
        c = compare(r, g, mode)
        if c is not None:
            return True, "%s: %s: CPython %s vs compiled %s" % (e, c, json_short(r), json_short(g))
    return False, "outcomes agree"


def json_short(o, n=240):
    import json
    s = json.dumps(o)
    return s if len(s) <= n else s[:n] + "..."
