"""C17 in-runner driver: hands Exporter objects with caller-chosen PEP 3118 metadata to the acquisition kernels of the
compiled module and judges accept / reject by construction and element values by struct.unpack on the raw bytes.

SELF-CONTAINED (stdlib + numpy for long double); loaded by path into the runner as `bufdrive`, next to `bufdecl`
(vlib/gen/bufdecl.py, the layout model).   bufdrive.run(M, '<json job list>') -> json summaries.

Job:  {"k": kernel name, "dtype": decl id, "kind": "mv"|"cmv"|"lb", "cases": [case...]}
Case: {"cls": label, "expect": "accept"|"reject"|"either", "fmt": str|None, "itemsize": int, "shape": [...],
       "strides": [...], "offset": int, "readonly": bool, "strict": bool, "raw": hex string}
"""
import gc
import json
import math
import struct
import sys

bufdecl = sys.modules.get("bufdecl")
if bufdecl is None:          # imported as part of the vlib package (check side)
    from .gen import bufdecl

REJECT_EXC = ("ValueError", "TypeError")


def expected_values(t, case):
    raw = bytes.fromhex(case["raw"])
    shape, strides = case["shape"], case["strides"]
    out = []

    def rec(dim, off):
        if dim == len(shape):
            out.append(bufdecl.unpack_value(t, raw, off))
            return
        for i in range(shape[dim]):
            rec(dim + 1, off + i * strides[dim])
    rec(0, case["offset"])
    return out


def same(a, b):
    """NaN-tolerant structural equality with exact types."""
    if isinstance(b, tuple) and len(b) == 2 and b[0] == "longdouble":
        import numpy as np
        want = float(np.frombuffer(b[1] + b"\0" * 6, dtype=np.longdouble)[0])
        return same(a, want)
    if type(a) is not type(b):
        return False
    if isinstance(a, float):
        return (a != a and b != b) or (a == b and math.copysign(1, a) == math.copysign(1, b))
    if isinstance(a, complex):
        return same(a.real, b.real) and same(a.imag, b.imag)
    if isinstance(a, list):
        return len(a) == len(b) and all(same(x, y) for x, y in zip(a, b))
    if isinstance(a, dict):
        return list(a) == list(b) and all(same(a[k], b[k]) for k in a)
    return a == b


def run_case(M, f, t, job, case):
    """-> (verdict or None, detail)"""
    raw = bytearray.fromhex(case["raw"])
    fmt = case["fmt"]
    ex = M.Exporter(raw, None if fmt is None else fmt.encode("latin1"), case["itemsize"], case["shape"], case["strides"],
                    case.get("readonly", False), case.get("offset", 0), case.get("strict", True))
    try:
        # legacy-buffer kernels cannot ask the buffer for its shape: extents are passed along (as many as the kernel
        # declares dimensions, whatever the exporter claims)
        got = f(ex, *job["extents"](case)) if job["kind"] == "lb" else f(ex)
        outcome = "ok"
    except Exception as e:      # noqa
        got = e
        outcome = type(e).__name__
    gets, rels = ex.gets, ex.releases
    if gets != rels:
        got = None if outcome != "ok" else got
        gc.collect()
        gets, rels = ex.gets, ex.releases
    exp = case["expect"]
    if exp == "either":
        return None, outcome
    if exp == "reject":
        allowed = REJECT_EXC + (("BufferError",) if case.get("exporter_may_refuse") else ())
        if outcome == "ok":
            return "accepted", "acquisition succeeded and returned %r" % (got,)
        if outcome not in allowed:
            return "exc:" + outcome, "raised %s: %s" % (outcome, got)
        if gets != rels:
            return "unreleased", "rejected with %s but the buffer was acquired %d and released %d times" % (outcome, gets, rels)
        return None, outcome
    # accept
    if outcome != "ok":
        return "rejected:" + outcome, "raised %s: %s" % (outcome, got)
    want = expected_values(t, case)
    if not same(got, want):
        return "values", "read %r, struct.unpack gives %r" % (got, want)
    if gets != rels:
        return "unreleased", "buffer acquired %d and released %d times after a successful call" % (gets, rels)
    return None, outcome


def run_job(M, job):
    nd = job.get("nd", 1)
    job["extents"] = lambda case: (list(case["shape"]) + [1] * nd)[:nd]
    t = bufdecl.decls()[job["dtype"]]
    f = getattr(M, job["k"])
    n = nt = nbad = 0
    cls = {}
    bad = []
    seen = set()
    ntkeys = []
    for case in job["cases"]:
        verdict, detail = run_case(M, f, t, job, case)
        n += 1
        label = "%s|%s" % (case["expect"], case["cls"])
        cls[label] = cls.get(label, 0) + 1
        cls["kind:" + job["kind"]] = cls.get("kind:" + job["kind"], 0) + 1
        cls["outcome:%s:%s" % (case["expect"], detail if detail in ("ok", "ValueError", "TypeError", "BufferError") else "other")] = \
            cls.get("outcome:%s:%s" % (case["expect"], detail if detail in ("ok", "ValueError", "TypeError", "BufferError") else "other"), 0) + 1
        if case.get("nt"):
            nt += 1
            if len(ntkeys) < job.get("maxnt", 6) and (nt & (nt - 1)) == 0:
                ntkeys.append([job["k"], case["cls"], case["fmt"], case["itemsize"], case["shape"], case["strides"]])
        if verdict is not None:
            nbad += 1
            bucket = "%s|%s|%s|%s" % (job["kind"], case["expect"], case["cls"], verdict)
            if bucket not in seen and len(bad) < job.get("maxbad", 40):
                seen.add(bucket)
                bad.append([bucket, case, "%s on %s with format %r itemsize %d shape %r strides %r%s: %s" % (
                    job["k"], job["dtype"], case["fmt"], case["itemsize"], case["shape"], case["strides"],
                    " readonly" if case.get("readonly") else "", detail)])
    return {"n": n, "nt": nt, "nbad": nbad, "cls": cls, "bad": bad, "ntkeys": ntkeys}


def run(M, jobs_json):
    return json.dumps([run_job(M, j) for j in json.loads(jobs_json)], default=repr)


def layout(M):
    return json.dumps(M.LAYOUT())
