"""Hypothesis helpers: seeded bulk generation and seeded native property runs."""
import hashlib

import hypothesis
from hypothesis import HealthCheck, Phase, given, settings, strategies as st

ALL_HC = list(HealthCheck)


def derive(seed, *parts):
    h = hashlib.blake2b(repr((int(seed),) + tuple(parts)).encode(), digest_size=8).digest()
    return int.from_bytes(h, "big") >> 1


def draw_many(strategy, n, seed, *parts):
    """Return up to n examples drawn from strategy, deterministically from seed."""
    out = []

    @hypothesis.seed(derive(seed, *parts))
    @settings(max_examples=n, database=None, deadline=None, derandomize=False,
              phases=[Phase.generate], suppress_health_check=ALL_HC,
              report_multiple_bugs=False)
    @given(strategy)
    def collect(x):
        out.append(x)

    collect()
    return out


def run_property(fn, strategy, n, seed, *parts, shrink=True):
    """Run fn(example) under Hypothesis; returns None or (shrunk_example, exception)."""
    last = {}

    phases = [Phase.generate, Phase.target] + ([Phase.shrink] if shrink else [])

    @hypothesis.seed(derive(seed, *parts))
    @settings(max_examples=n, database=None, deadline=None, derandomize=False, phases=phases,
              suppress_health_check=ALL_HC, report_multiple_bugs=False)
    @given(strategy)
    def prop(x):
        try:
            fn(x)
        except BaseException as e:
            last["x"] = x
            last["e"] = e
            raise

    try:
        prop()
    except BaseException as e:
        if "x" in last:
            return last["x"], last["e"]
        raise
    return None
