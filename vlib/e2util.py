"""Helpers shared by the E2 checks C14/C19-C23: robust batch isolation (internal compiler exceptions), uniform
status handling, and an AST-level reducer for Python-source cases."""
import ast
import os
import traceback

from . import cybuild, diffmod


def run_isolating(items, name, outdir, **kw):
    """Like diffmod.run_batch_isolating, but an *internal compiler exception* (which cybuild lets propagate) is
    handled too: every item is probed alone with Cython, crashing/rejected items are yielded with status
    'cyerror' (detail starts with 'internal exception') and the remaining items are run as one batch."""
    try:
        for r in diffmod.run_batch_isolating(items, name, outdir, **kw):
            yield r
        return
    except (cybuild.CythonError, cybuild.CCError):
        raise
    except Exception:
        first_tb = traceback.format_exc(limit=-3)
    if len(items) == 1:
        r = diffmod.BatchResult()
        r.status = "cyerror"
        r.detail = ["internal exception: " + first_tb[-600:]]
        r.src = diffmod.render(items, kw.get("header", diffmod.PY_HEADER))
        yield items, r
        return
    header = kw.get("header", diffmod.PY_HEADER)
    ext = kw.get("ext", ".py")
    d = os.path.join(outdir, name + "_iprobe")
    os.makedirs(d, exist_ok=True)
    good = []
    for j, it in enumerate(items):
        pth = os.path.join(d, "p%d%s" % (j, ext))
        with open(pth, "w", encoding="utf-8", newline="") as f:
            f.write(diffmod.render([it], header))
        try:
            cybuild.cython_compile(pth, cplus=kw.get("cplus", False), directives=kw.get("directives"),
                                   options=kw.get("options"))
            good.append(it)
        except cybuild.CythonError as e:
            r = diffmod.BatchResult()
            r.status = "cyerror"
            r.detail = e.errors[:40]
            r.src = diffmod.render([it], header)
            yield [it], r
        except Exception as e:
            r = diffmod.BatchResult()
            r.status = "cyerror"
            r.detail = ["internal exception %s: %s" % (type(e).__name__, str(e)[:300])]
            r.src = diffmod.render([it], header)
            yield [it], r
    if good:
        if len(good) == len(items):
            # every item compiles alone but the batch crashes: bisect
            mid = len(items) // 2
            for j, part in enumerate((items[:mid], items[mid:])):
                for r in run_isolating(part, "%s_h%d" % (name, j), outdir, **kw):
                    yield r
        else:
            for r in run_isolating(good, name + "_ig", outdir, **kw):
                yield r


def process(part, items, name, outdir, header, on_item, case_of, build_bucket="build", **kw):
    """Run a batch and dispatch: on_item(item, refs, gots) for each item that was built and run.
    Build problems are counted / reported uniformly:
      - Cython rejects an item (positioned error or internal exception): counted, class histogram, NOT a
        violation of a behavioural property (C43 judges rejections and crashes);
      - generated C does not compile for a single item: violation '<build_bucket>:ccerror';
      - module import outcome differs: violation 'import-diff'.
    case_of(item, exprs) -> replay case dict."""
    for sub, res in run_isolating(items, name, outdir, header=header, **kw):
        if res.status == "cyerror":
            part.count("cython_rejected_items", len(sub))
            msgs = diffmod.cy_error_messages(res.detail)[:1]
            if not msgs:
                msgs = [str((res.detail or ["?"])[0])[:80]]
            for msg in msgs:
                part.classes["rejected:" + msg[:80]] += 1
            if len(sub) == 1:
                part.notes.setdefault("rejected_examples", [])
                if len(part.notes["rejected_examples"]) < 3:
                    part.notes["rejected_examples"].append({"src": sub[0]["src"], "detail": [str(x)[:200] for x in (res.detail or [])[:3]]})
            continue
        if res.status == "ccerror":
            part.count("c_compile_failed_items", len(sub))
            if len(sub) == 1:
                part.violation(build_bucket + ":ccerror", case_of(sub[0], [c["expr"] for c in sub[0]["cases"]]),
                               "generated C does not compile: %s" % str(res.detail)[-600:])
            continue
        if res.status == "import-diff":
            part.violation("import-diff", case_of({"src": "\n\n".join(it["src"] for it in sub), "cases": [], "meta": {}}, []),
                           "module import differs: %s" % diffmod.json_short(res.detail, 600))
            continue
        for it, refs, gots in zip(sub, res.ref, res.got):
            on_item(it, refs, gots)


# ---------------------------------------------------------------------------------------------------------
# AST reducer

def _unparse(tree):
    return ast.unparse(tree)


class _Candidates(ast.NodeVisitor):
    """Enumerate (path) of reducible positions lazily by index."""


def _variants(tree):
    """Yield reduced source variants of `tree` (each a fresh source string), big cuts first."""
    import copy
    # 1. delete statements / replace compound statements by their bodies
    positions = []
    for node in ast.walk(tree):
        for field in ("body", "orelse", "finalbody", "handlers"):
            lst = getattr(node, field, None)
            if isinstance(lst, list) and lst and isinstance(lst[0], (ast.stmt, ast.excepthandler)):
                for i in range(len(lst)):
                    positions.append((node, field, i))
    for node, field, i in positions:
        lst = getattr(node, field)
        st = lst[i]
        # delete
        if len(lst) > 1 or field in ("orelse", "finalbody") or (field == "handlers" and getattr(node, "finalbody", None)):
            saved = list(lst)
            del lst[i]
            try:
                yield _unparse(tree)
            finally:
                lst[:] = saved
        # hoist inner body
        if isinstance(st, ast.stmt):
            for f2 in ("body", "orelse", "finalbody"):
                inner = getattr(st, f2, None)
                if isinstance(inner, list) and inner and isinstance(inner[0], ast.stmt) and not isinstance(st, (ast.FunctionDef, ast.ClassDef, ast.AsyncFunctionDef)):
                    saved = list(lst)
                    lst[i:i + 1] = inner
                    try:
                        yield _unparse(tree)
                    finally:
                        lst[:] = saved
    # 2. replace an expression by one of its sub-expressions, or by a constant
    exprs = []
    for node in ast.walk(tree):
        for field, value in ast.iter_fields(node):
            if isinstance(value, ast.expr) and not isinstance(getattr(value, "ctx", None), (ast.Store, ast.Del)):
                exprs.append((node, field, None, value))
            elif isinstance(value, list):
                for i, v in enumerate(value):
                    if isinstance(v, ast.expr) and not isinstance(getattr(v, "ctx", None), (ast.Store, ast.Del)):
                        exprs.append((node, field, i, v))
    for node, field, idx, value in exprs:
        if isinstance(value, (ast.Constant, ast.Name)):
            continue
        if isinstance(node, (ast.keyword,)) and field != "value":
            continue
        subs = [c for c in ast.iter_child_nodes(value) if isinstance(c, ast.expr)
                and not isinstance(getattr(c, "ctx", None), (ast.Store, ast.Del))]
        # keyword values / starred contents
        for c in list(ast.iter_child_nodes(value)):
            if isinstance(c, ast.keyword):
                subs.append(c.value)
            if isinstance(c, ast.Starred):
                subs.append(c.value)
        repls = [s for s in subs if not isinstance(s, ast.Starred)] + [ast.Constant(value=0)]
        for rp in repls:
            if isinstance(value, ast.Starred):
                continue
            if idx is None:
                setattr(node, field, rp)
            else:
                getattr(node, field)[idx] = rp
            try:
                yield _unparse(tree)
            except Exception:
                pass
            finally:
                if idx is None:
                    setattr(node, field, value)
                else:
                    getattr(node, field)[idx] = value
        # drop list elements (call args / display elements / keywords)
    for node in ast.walk(tree):
        for field in ("args", "keywords", "elts", "ops", "values", "targets", "items", "decorator_list", "bases"):
            lst = getattr(node, field, None)
            if not isinstance(lst, list) or not lst or isinstance(node, (ast.arguments,)):
                continue
            if field == "ops":
                continue
            if isinstance(node, ast.Dict):
                continue
            minlen = 1 if field in ("targets", "items", "values") else 0
            if isinstance(node, ast.BoolOp):
                minlen = 2
            for i in range(len(lst)):
                if len(lst) - 1 < minlen:
                    break
                saved = list(lst)
                del lst[i]
                try:
                    yield _unparse(tree)
                except Exception:
                    pass
                finally:
                    lst[:] = saved
        if isinstance(node, ast.Compare) and len(node.ops) > 1:
            for i in range(len(node.ops)):
                so, sc = list(node.ops), list(node.comparators)
                del node.ops[i]
                del node.comparators[i]
                try:
                    yield _unparse(tree)
                finally:
                    node.ops[:] = so
                    node.comparators[:] = sc
        if isinstance(node, ast.Dict) and len(node.keys) > 0:
            for i in range(len(node.keys)):
                sk, sv = list(node.keys), list(node.values)
                del node.keys[i]
                del node.values[i]
                try:
                    yield _unparse(tree)
                finally:
                    node.keys[:] = sk
                    node.values[:] = sv


def reduce_ast(src, predicate, budget=40):
    """Greedy reducer over the Python AST of `src`: tries statement deletion, hoisting of compound-statement
    bodies, replacing expressions by sub-expressions / the constant 0 and dropping list elements.
    predicate(text) -> True if the failure is still present.  At most `budget` predicate calls.
    Returns the smallest failing source found (the input if nothing smaller fails)."""
    calls = 0
    cur = src
    seen = {src}
    progress = True
    while progress and calls < budget:
        progress = False
        try:
            tree = ast.parse(cur)
        except SyntaxError:
            return cur
        for cand in _variants(tree):
            if cand in seen or len(cand) >= len(cur) + 8:
                continue
            seen.add(cand)
            try:
                compile(cand, "<reduce>", "exec")
            except (SyntaxError, ValueError):
                continue
            calls += 1
            ok = False
            try:
                ok = predicate(cand)
            except Exception:
                ok = False
            if ok:
                cur = cand
                progress = True
                break
            if calls >= budget:
                break
    return cur


# ---------------------------------------------------------------------------------------------------------
# root-cause bucketing of LOG differences for programs whose leaves are logging calls E(i, ..)/R(i)

def log_of(outcome):
    for x in outcome[2:] if outcome and outcome[0] in ("ok",) else (outcome[3:] if outcome else []):
        if isinstance(x, list) and x and x[0] == "log":
            return x[1]
    return []


def ev_kind(e):
    """canon'd LOG entry -> ('leaf', i) | (kind, None)"""
    if e[0] == "int":
        try:
            return "leaf", int(e[1])
        except ValueError:
            return "int", None
    if e[0] == "tuple" and e[1] and e[1][0][0] == "str":
        return e[1][0][1].strip("'\""), None
    return e[0], None


def _tdesc(t):
    if isinstance(t, ast.Name):
        return "N"
    if isinstance(t, ast.Subscript):
        inner = _tdesc(t.value) if isinstance(t.value, (ast.Subscript, ast.Attribute)) else ""
        sl = "slice" if isinstance(t.slice, ast.Slice) else ("tup" if isinstance(t.slice, ast.Tuple) else "")
        return inner + "S" + sl
    if isinstance(t, ast.Attribute):
        inner = _tdesc(t.value) if isinstance(t.value, (ast.Subscript, ast.Attribute)) else ""
        return inner + "A"
    if isinstance(t, (ast.Tuple, ast.List)):
        return "T(" + "".join(_tdesc(x) for x in t.elts) + ")"
    if isinstance(t, ast.Starred):
        return "*" + _tdesc(t.value)
    return type(t).__name__


def node_desc(n):
    t = type(n).__name__
    if isinstance(n, ast.Compare):
        return "Compare(%s)" % ",".join(type(o).__name__ for o in n.ops) + \
            (":" + type(n.comparators[-1]).__name__ if isinstance(n.ops[-1], (ast.In, ast.NotIn)) else "")
    if isinstance(n, ast.Call):
        flags = ""
        if any(isinstance(a, ast.Starred) for a in n.args):
            flags += "*"
        if any(k.arg is not None for k in n.keywords):
            flags += "k"
        if any(k.arg is None for k in n.keywords):
            flags += "**"
        fn = "method" if isinstance(n.func, ast.Attribute) else (n.func.id if isinstance(n.func, ast.Name) else "expr")
        return "Call[%s]%s" % (fn, flags)
    if isinstance(n, ast.Assign):
        return "Assign[%s]=%s" % ("=".join(_tdesc(x) for x in n.targets), type(n.value).__name__)
    if isinstance(n, ast.AugAssign):
        return "AugAssign[%s]" % _tdesc(n.target)
    if isinstance(n, ast.Subscript):
        return "Subscript[%s]" % type(n.slice).__name__
    if isinstance(n, (ast.List, ast.Tuple, ast.Set)):
        return t + ("*" if any(isinstance(e, ast.Starred) for e in n.elts) else "")
    if isinstance(n, ast.Dict):
        return t + ("**" if any(k is None for k in n.keys) else "")
    if isinstance(n, ast.BoolOp):
        return "BoolOp(%s)" % type(n.op).__name__
    if isinstance(n, ast.For):
        return "For[%s]" % _tdesc(n.target)
    if isinstance(n, ast.With):
        return "With[%d%s]" % (len(n.items), "".join(":" + _tdesc(i.optional_vars) for i in n.items if i.optional_vars is not None))
    if isinstance(n, ast.Delete):
        return "Delete[%s]" % ",".join(_tdesc(x) for x in n.targets)
    if isinstance(n, ast.FunctionDef):
        return "FunctionDef" + ("@" if n.decorator_list else "")
    if isinstance(n, ast.ClassDef):
        return "ClassDef" + ("@" if n.decorator_list else "")
    return t


def leaf_paths(src, leaf_names=("E", "R")):
    """leaf id -> list of ancestor AST nodes (root first, the leaf's Call node last)"""
    tree = ast.parse(src)
    paths = {}

    def walk(node, path):
        path = path + [node]
        if isinstance(node, ast.Call) and isinstance(node.func, ast.Name) and node.func.id in leaf_names \
                and node.args and isinstance(node.args[0], ast.Constant) and isinstance(node.args[0].value, int):
            paths.setdefault(node.args[0].value, path)
        for c in ast.iter_child_nodes(node):
            walk(c, path)
    walk(tree, [])
    return paths


def _lca_index(paths):
    """index (into every path) of the lowest common ancestor; a single path -> its parent"""
    if len(paths) == 1:
        k = max(0, len(paths[0]) - 2)
        while k > 0 and isinstance(paths[0][k], (ast.keyword, ast.Starred, ast.withitem)):
            k -= 1
        return k
    n = min(len(p) for p in paths)
    last = 0
    for i in range(n):
        if all(p[i] is paths[0][i] for p in paths):
            last = i
        else:
            break
    return last


def _stmt_index(path):
    for i in range(len(path) - 1, -1, -1):
        if isinstance(path[i], ast.stmt):
            return i
    return 0


def _field_of(parent, child):
    for name, value in ast.iter_fields(parent):
        if value is child:
            return name, None
        if isinstance(value, list):
            for k, v in enumerate(value):
                if v is child:
                    return name, k
                # keyword(value=...) / withitem etc. are found one level down by the path itself
    return "?", None


def logdiff_signature(src, ref, got, leaf_names=("E", "R")):
    """Describe how the LOGs of two outcomes differ, as '<AST context>|<statement>|<relation>|<ref role>><got role>'
    (statement = description of the enclosing statement, '=' if it is the context itself):
    AST context = description of the lowest common ancestor of the leaf calls inside the differing window
      (the enclosing statement if only container events differ);
    relation = reorder (same multiset of events) | extra | missing | mixed;
    roles = at the first point of divergence, what CPython logged vs what compiled code logged: for a leaf the
      field of the context node it sits in (e.g. decorator_list, bases, left, comparators, args, value), for a
      container event its kind (gi, ga, si, call, iter, next, bool, ...), 'end' if the log ended."""
    import collections
    import json
    rl, gl = log_of(ref), log_of(got)
    i = 0
    while i < len(rl) and i < len(gl) and rl[i] == gl[i]:
        i += 1
    j = 0
    while j < len(rl) - i and j < len(gl) - i and rl[len(rl) - 1 - j] == gl[len(gl) - 1 - j]:
        j += 1
    rw, gw = rl[i:len(rl) - j], gl[i:len(gl) - j]
    rc = collections.Counter(json.dumps(e) for e in rl)
    gc_ = collections.Counter(json.dumps(e) for e in gl)
    if rc == gc_:
        rel = "reorder"
    elif not (rc - gc_):
        rel = "extra"
    elif not (gc_ - rc):
        rel = "missing"
    else:
        rel = "mixed"
    leaves = []
    for e in rw + gw:
        k, li = ev_kind(e)
        if k == "leaf" and li not in leaves:
            leaves.append(li)
    try:
        paths = leaf_paths(src, leaf_names)
    except SyntaxError:
        return "noparse|?|%s|?" % rel
    leaves = [li for li in leaves if li in paths]
    # if both sides log a leaf at the first point of divergence, those two leaves define the context (loops
    # repeat leaves, which would widen a window-based context to the loop statement)
    fr = ev_kind(rl[i]) if i < len(rl) else (None, None)
    fg = ev_kind(gl[i]) if i < len(gl) else (None, None)
    if fr[0] == "leaf" and fg[0] == "leaf" and fr[1] in paths and fg[1] in paths and fr[1] != fg[1]:
        leaves = [fr[1], fg[1]]
        rw = rw or [rl[i]]
        gw = gw or [gl[i]]
    use_stmt = False
    if not leaves:
        # only container events differ: context = statement of the nearest leaf before (else after) the window
        prv = [ev_kind(e) for e in rl[:i]]
        nxt = [ev_kind(e) for e in rl[len(rl) - j:]]
        pl = next((li for k, li in reversed(prv) if k == "leaf" and li in paths), None)
        nl = next((li for k, li in nxt if k == "leaf" and li in paths), None)
        anchor = pl if pl is not None else nl
        if anchor is None:
            # no leaf at all around: fall back to the last non-return statement of the first function
            ctx_node, ctx_paths, idx = None, [], 0
            try:
                fn = ast.parse(src).body[0]
                body = [st for st in getattr(fn, "body", []) if not isinstance(st, ast.Return)]
                if body:
                    ctx_node = body[-1]
                    ctx_paths = [[fn, ctx_node]]
                    idx = 1
            except SyntaxError:
                pass
        else:
            ctx_paths = [paths[anchor]]
            idx = _stmt_index(paths[anchor])
            ctx_node = paths[anchor][idx]
        use_stmt = True
    else:
        if (not rw or not gw):
            # pure insertion/deletion: the leaf that follows the window gives the context
            nxt = [ev_kind(e) for e in rl[len(rl) - j:]]
            nl = next((li for k, li in nxt if k == "leaf" and li in paths), None)
            if nl is not None and nl not in leaves:
                leaves.append(nl)
        ctx_paths = [paths[li] for li in leaves]
        idx = _lca_index(ctx_paths)
        ctx_node = ctx_paths[0][idx]

    r_ev = rl[i] if i < len(rl) else None
    g_ev = gl[i] if i < len(gl) else None
    # attribute lookup vs argument evaluation of a method call: context = that call
    kinds2 = sorted(str(ev_kind(e)[0]) for e in (r_ev, g_ev) if e is not None)
    if kinds2 == ["ga", "leaf"] and ctx_paths:
        li = [ev_kind(e)[1] for e in (r_ev, g_ev) if ev_kind(e)[0] == "leaf"][0]
        pth = paths.get(li)
        if pth:
            for k in range(len(pth) - 2, -1, -1):
                n = pth[k]
                if isinstance(n, ast.Call) and isinstance(n.func, ast.Attribute) and pth[k + 1] is not n.func:
                    ctx_node, idx, ctx_paths = n, k, [pth]
                    break
                if isinstance(n, ast.stmt):
                    break

    def role(ev):
        if ev is None:
            return "end"
        k, li = ev_kind(ev)
        if k != "leaf":
            return k
        if li not in paths or ctx_node is None:
            return "leaf"
        pth = paths[li]
        if idx + 1 < len(pth) and idx < len(pth) and pth[idx] is ctx_node:
            name, k2 = _field_of(ctx_node, pth[idx + 1])
            return name if k2 is None else "%s[%d]" % (name, k2)
        return "leaf"
    ctx = node_desc(ctx_node) if ctx_node is not None else "?"
    stmt = "?"
    if ctx_paths:
        sn = ctx_paths[0][_stmt_index(ctx_paths[0][:idx + 1])]
        stmt = "=" if sn is ctx_node else node_desc(sn)
    return "%s|%s|%s|%s>%s" % (ctx, stmt, rel, role(r_ev), role(g_ev))
