"""C42 - compilation is deterministic (DESIGN §4 C42, engines E7/E4).

A corpus of modules (generated: vlib/gen/detmods "much to order" .pyx modules, vlib/gen/pyprog function
batches, vlib/gen/synprog programs; plus a seeded sample of /repo tests/run files) is compiled, group by
group, in several *cells*: separate python processes that differ in PYTHONHASHSEED, in the order in which the
modules are compiled inside the process, in the absolute directory, in compiling each module in a fresh
process image, and in cythonize(nthreads=0) vs cythonize(nthreads=4).  Oracle: byte-identical generated files
(.c/.cpp/.h) and identical success/failure per module with respect to the baseline cell of the same family.
"""
import json
import os
import re
import shutil
import subprocess
import sys

from hypothesis import strategies as st

from vlib import harness, hyp, tree
from vlib.gen import detmods, pyprog, synprog

PID = "C42"
LEVEL = "exploration"
META = {
    "technique": "metamorphic repeat-compilation: generated and corpus modules compiled in separate processes under varied PYTHONHASHSEED, in-process compilation order, working directory, process freshness and cythonize nthreads; byte comparison of all generated files",
    "level_text": "Exploration: every module of a seeded corpus (generated .pyx modules dense in interned names, constants, cdef classes, fused functions, closures, cimports; pyprog/synprog pure-Python modules; a sample of tests/run) is compiled by Main.compile in a baseline process (hash seed 0) and again under 2 other hash seeds with reversed / permuted in-process order in another absolute directory, a subset additionally one-module-per-fresh-process; and by cythonize with nthreads=0 and nthreads=4 under different hash seeds. Any byte difference or success/failure difference is a violation, diagnosed (hash seed / order / process) by re-compiling the module alone. Sampling; no proof.",
    "level_note": "Runs the pure-Python compiler of the source view only: the self-compiled compiler cell of the DESIGN is not implemented. Errors are compared as success/failure only (not message text). Relative file names are used in every cell, so absolute paths are expected not to appear in the output.",
}
HERE = os.path.dirname(os.path.abspath(__file__))
CELL = os.path.join(os.path.dirname(HERE), "vlib", "detcell.py")
CONST_RE = re.compile(r"__pyx_(?:n|kp)_[sub]_\w+|__pyx_int_\w+|__pyx_float_\w+|__pyx_tuple_\w*|__pyx_codeobj_\w*")
SKIP_CORPUS = re.compile(r"numpy|memoryview|memslice|pythran|openmp|parallel|buffer|fused_def|cpp_stl|relaxed_strides|"
                         r"test_unicode|test_grammar|msvc_strings|test_fstring|test_coroutines|test_exceptions|cythonscope")


# ----------------------------------------------------------------------------------------------
# corpus

def corpus_dir():
    """tests/run of the tree under test; a scratch copy made by the sensitivity recipe has none -> use /repo's."""
    d = os.path.join(tree.REPO, "tests", "run")
    return d if os.path.isdir(d) else "/repo/tests/run"


def corpus_files(seed, n):
    d = corpus_dir()
    if not os.path.isdir(d) or n == 0:
        return []
    names = sorted(x for x in os.listdir(d) if x.endswith((".pyx", ".py")) and not SKIP_CORPUS.search(x)
                   and 300 < os.path.getsize(os.path.join(d, x)) < 25000)
    picked = hyp.draw_many(st.lists(st.sampled_from(names), min_size=n, max_size=n, unique=True), 2, seed, "c42corpus")[-1]
    out = []
    stems = set()
    for x in sorted(picked):
        if x.split(".")[0] in stems:
            continue
        stems.add(x.split(".")[0])
        with open(os.path.join(d, x), encoding="utf-8", errors="surrogateescape") as f:
            out.append({"name": x, "src": f.read(), "kind": "corpus"})
    return out


def build_corpus(seed, tier):
    ndet, npy, nsyn, ncorp = (6, 2, 2, 6) if tier == "quick" else (80, 30, 30, 160)
    if os.environ.get("VERIF_C42_SIZE"):        # development aid only
        ndet, npy, nsyn, ncorp = [int(x) for x in os.environ["VERIF_C42_SIZE"].split(",")]
    mods = []
    for i, m in enumerate(detmods.draw_modules(ndet, seed, ("c42det", tier), "d")):
        mods.append({"name": "det_%03d.pyx" % i, "src": m["src"], "kind": "detmods"})
    for i in range(npy):
        items = pyprog.draw_items(10 if tier == "quick" else 16, seed, ("c42py", tier, i), "p%d" % i)
        mods.append({"name": "pyp_%03d.py" % i, "src": pyprog.HEADER + "\n\n" + "\n\n".join(it["src"] for it in items) + "\n",
                     "kind": "pyprog"})
    progs = hyp.draw_many(synprog.program("UID"), nsyn * 5 + 1, seed, "c42syn", tier)[1:]
    for i in range(nsyn):
        chunk = progs[i * 5:(i + 1) * 5]
        src = "\n".join(p["src"].replace("UID", "s%d_%d" % (i, k)) for k, p in enumerate(chunk))
        mods.append({"name": "syn_%03d.py" % i, "src": src, "kind": "synprog"})
    mods += corpus_files(seed, ncorp)
    return mods


def support_files():
    d = corpus_dir()
    if not os.path.isdir(d):
        return []
    return [os.path.join(d, x) for x in sorted(os.listdir(d)) if x.endswith((".pxd", ".pxi", ".h"))]


# ----------------------------------------------------------------------------------------------
# cells

def cell_specs(seed, group_index, n, tier="thorough"):
    """[(cell name, family, cfg)]; the first of each family is the baseline."""
    hs = [1, 2, 3, 42, hyp.derive(seed, "c42hs", group_index) % (2 ** 32)]
    perm = hyp.draw_many(st.permutations(list(range(n))), 2, seed, "c42perm", group_index)[-1]
    return [
        ("c0", "compile", {"hashseed": 0, "order": list(range(n)), "sub": "a"}),
        ("c1-hashseed+reversed", "compile", {"hashseed": hs[group_index % 2], "order": list(range(n))[::-1], "sub": "a"}),
        ("c2-hashseed+permuted+dir+malloc", "compile", {"hashseed": hs[4] if group_index % 2 else hs[3],
                                                         "order": list(perm) if tier != "quick" else list(perm)[:(n + 1) // 2],
                                                  "sub": "deeper/nested/dir", "malloc": True}),
        ("c3-fresh-process+malloc", "compile", {"hashseed": hs[2], "order": [perm[0], perm[-1]] if n > 1 else [0], "sub": "a",
                                         "isolated": True, "malloc": True}),
        ("z0", "cythonize", {"hashseed": 0, "order": list(range(n)), "sub": "a", "nthreads": 0}),
        ("z1-hashseed+nthreads4", "cythonize", {"hashseed": hs[(group_index + 1) % 2], "order": list(range(n))[::-1],
                                                 "sub": "a", "nthreads": 4}),
    ]


def run_cell(root, mods, family, cfg, timeout=1500):
    """Write the modules into <root>/<sub>/ and run one cell process there. Returns (result dict | None, dir)."""
    d = os.path.join(root, cfg["sub"])
    os.makedirs(d, exist_ok=True)
    for p in support_files():
        shutil.copy(p, d)
    for m in mods:
        with open(os.path.join(d, m["name"]), "w", encoding="utf-8", errors="surrogateescape", newline="") as f:
            f.write(m["src"])
    out = os.path.join(root, "result.json")
    job = {"dir": d, "modules": [mods[i]["name"] for i in cfg["order"]], "mode": family,
           "nthreads": cfg.get("nthreads", 0), "isolated": cfg.get("isolated", False), "out": out}
    jobp = os.path.join(root, "job.json")
    with open(jobp, "w") as f:
        json.dump(job, f)
    env = dict(os.environ)
    env["PYTHONHASHSEED"] = str(cfg["hashseed"])
    env["PYTHONPATH"] = os.environ["CYVERIF_VIEW"]
    env["PYTHONDONTWRITEBYTECODE"] = "1"
    if cfg.get("malloc"):
        # system allocator instead of pymalloc: object addresses (= default hashes of objects kept in sets / used
        # as dict keys) change completely, which exposes id()-ordered emission
        env["PYTHONMALLOC"] = "malloc"
    try:
        p = subprocess.run([sys.executable, CELL, jobp], env=env, cwd=d, timeout=timeout,
                           stdout=subprocess.PIPE, stderr=subprocess.STDOUT, text=True, errors="replace")
        tail = p.stdout[-800:]
    except subprocess.TimeoutExpired:
        return None, d, "timeout"
    try:
        with open(out) as f:
            return json.load(f)["modules"], d, tail
    except (OSError, ValueError):
        return None, d, tail


def _cell_job(job):
    work, gi, cname, family, cfg, mods = job
    tree.activate_view()
    root = os.path.join(work, "c42", "g%d" % gi, cname)
    res, d, tail = run_cell(root, mods, family, cfg)
    return (gi, cname, res, d, tail)


def first_diff(dir_a, dir_b, files_a, files_b):
    """(file, line number, line a, line b) of the first differing line of the first differing file."""
    for fn in sorted(set(files_a) | set(files_b)):
        if files_a.get(fn) == files_b.get(fn):
            continue
        try:
            with open(os.path.join(dir_a, fn), errors="replace") as f:
                la = f.read().split("\n")
            with open(os.path.join(dir_b, fn), errors="replace") as f:
                lb = f.read().split("\n")
        except OSError:
            return fn, 0, "<file missing in one cell>", "", ""
        for i, (x, y) in enumerate(zip(la, lb)):
            if x != y:
                # the construct is named from a small window: the first differing line is often a blank or a comment
                return fn, i + 1, x[:200], y[:200], " ".join(la[i:i + 8] + lb[i:i + 8])
        return fn, min(len(la), len(lb)) + 1, "<length %d>" % len(la), "<length %d>" % len(lb), ""
    return None, 0, "", "", ""


def line_kind(a, b, window=""):
    m = re.search(r"__pyx_ctuple|__pyx_scope_struct|__pyx_fuse|__pyx_vtab", window)
    if m:
        return m.group(0)
    for text in (a, b):
        m = re.search(r"__pyx_[a-zA-Z]+_|__Pyx_[A-Za-z]+|Py[A-Z][A-Za-z]+_[A-Za-z]+", text)
        if m:
            return m.group(0).rstrip("_")
    if a.lstrip().startswith(("/*", "*", "//")):
        return "comment"
    return "other"


def diagnose(work, tag, mod, family, cfg, base_cfg):
    """Re-compile the module alone: is the difference explained by the process, the hash seed, or neither (=> order /
    in-process state / nthreads)?"""
    solo = dict(base_cfg, order=[0], sub="a", isolated=False)
    runs = {}
    for name, c in (("solo0", solo), ("solo0-again", solo), ("solo-seed", dict(solo, hashseed=cfg["hashseed"]))):
        res, d, tail = run_cell(os.path.join(work, "c42", "diag", tag, name), [mod], family, c)
        runs[name] = json.dumps(res[mod["name"]], sort_keys=True) if res else None
    if None in runs.values():
        return "undiagnosed"
    if runs["solo0"] != runs["solo0-again"]:
        return "process"
    if runs["solo0"] != runs["solo-seed"]:
        return "hashseed"
    return "order-or-shared-state" if family == "compile" else "cythonize-batch"


def run(ctx):
    tree.activate_view()
    mods = build_corpus(ctx.seed, ctx.tier)
    gsize = 8
    # interleave kinds so that every group mixes generated and corpus modules
    order = hyp.draw_many(st.permutations(list(range(len(mods)))), 2, ctx.seed, "c42groups")[-1]
    groups = [[mods[i] for i in order[k:k + gsize]] for k in range(0, len(order), gsize)]
    jobs = []
    specs = {}
    for gi, g in enumerate(groups):
        specs[gi] = cell_specs(ctx.seed, gi, len(g), ctx.tier)
        for cname, family, cfg in specs[gi]:
            jobs.append((ctx.work, gi, cname, family, cfg, g))
    results = {}
    for gi, cname, res, d, tail in ctx.pmap(_cell_job, jobs):
        results[(gi, cname)] = (res, d, tail)
    ndiag = 0
    for gi, g in enumerate(groups):
        base = {}
        for cname, family, cfg in specs[gi]:
            res, d, tail = results[(gi, cname)]
            if res is None:
                ctx.count("cell_failed_inconclusive")
                ctx.classes["cell-failed:%s: %s" % (cname, tail[-120:].replace("\n", " "))] += 1
                continue
            if family not in base:
                base[family] = (cname, cfg, res, d)
                for m in g:
                    r = res.get(m["name"])
                    ctx.classes["baseline:%s:%s:%s" % (family, m["kind"], r["status"] if r else "missing")] += 1
                continue
            bname, bcfg, bres, bdir = base[family]
            for idx in cfg["order"]:
                m = g[idx]
                a, b = bres.get(m["name"]), res.get(m["name"])
                if a is None or b is None:
                    ctx.count("module_missing_in_cell")
                    continue
                nconst = 0
                cfile = next((f for f in a["files"] if f.endswith((".c", ".cpp"))), None)
                if cfile:
                    with open(os.path.join(bdir, cfile), errors="replace") as f:
                        nconst = len(set(CONST_RE.findall(f.read())))
                nclasses = len(re.findall(r"^\s*(?:cdef\s+)?class\s+\w+", m["src"], re.M))
                nt = a["status"] == "ok" and (nconst >= 20 or nclasses >= 2)
                ctx.case([m["name"], m["src"], cname, cfg["hashseed"]], nt,
                         ["cell:" + cname, "kind:" + m["kind"], "status:" + a["status"],
                          "consts:" + ("0-19" if nconst < 20 else "20-99" if nconst < 100 else "100+")],
                         sample={"module": m["name"], "kind": m["kind"], "cell": cname, "hashseed": cfg["hashseed"],
                                 "order_position": cfg["order"].index(idx), "constants": nconst, "classes": nclasses,
                                 "baseline": a, "cell_result": b})
                if a == b:
                    continue
                if a["status"] != b["status"]:
                    kind, what = "status", "baseline %s: %s, cell %s: %s" % (bname, a["status"], cname, b["status"])
                else:
                    fn, ln, la, lb, window = first_diff(bdir, d, a["files"], b["files"])
                    kind = line_kind(la, lb, window)
                    what = "%s line %d differs: baseline %s %r vs cell %s %r" % (fn, ln, bname, la, cname, lb)
                cause = "undiagnosed"
                if ndiag < 3:
                    ndiag += 1
                    cause = diagnose(ctx.work, "%d_%s_%s" % (gi, cname, m["name"]), m, family, cfg, bcfg)
                case = {"family": family, "target": m["name"], "base_cfg": bcfg, "cell_cfg": cfg}
                if cause in ("process", "hashseed"):
                    case["modules"] = [m]
                    case["base_cfg"] = dict(bcfg, order=[0])
                    case["cell_cfg"] = dict(cfg, order=[0], isolated=False)
                else:
                    case["modules"] = g
                ctx.violation("nondet:%s:%s:%s:%s" % (family, cause, m["kind"], kind), case,
                              "module %s (%s) compiles differently in cell %s (hash seed %s) than in %s (hash seed %s); cause: %s; %s" % (
                                  m["name"], m["kind"], cname, cfg["hashseed"], bname, bcfg["hashseed"], cause, what))
    ctx.counters["modules"] = len(mods)
    ctx.counters["groups"] = len(groups)
    ctx.rule = ("corpus = Hypothesis-generated detmods .pyx modules (names, constants, cdef classes, fused functions, closures, cimports), "
                "pyprog batches (10/16 functions), synprog batches (5 programs) and a seeded sample of tests/run files, shuffled into groups "
                "of 8; each group compiled in cells c0 (Main.compile, hash seed 0), c1 (other hash seed, reversed order, same process), "
                "c2 (other hash seed, permuted order [quick: first half of the permutation], other absolute dir, PYTHONMALLOC=malloc), c3 (two modules, one fresh process image each, PYTHONMALLOC=malloc), z0 "
                "(cythonize nthreads=0, hash seed 0), z1 (cythonize nthreads=4, other hash seed, reversed list); one evaluation per "
                "(module, non-baseline cell) comparing status and bytes of all generated files with the family baseline. non-trivial = "
                "module compiles and has >= 20 distinct interned/constant cnames in its C file or >= 2 classes; distinct by "
                "(module source, cell, hash seed)")
    ctx.assumptions = ["relative file names + same relative layout in every cell; no normalisation of the output is applied",
                       "pure-Python compiler only (no self-compiled compiler cell)"]


def replay(ctx, case):
    tree.activate_view()
    from vlib import cybuild
    root = os.path.join(ctx.work, "c42replay", cybuild.sha12(json.dumps(case, sort_keys=True)))
    a, da, ta = run_cell(os.path.join(root, "base"), case["modules"], case["family"], case["base_cfg"])
    b, db, tb = run_cell(os.path.join(root, "cell"), case["modules"], case["family"], case["cell_cfg"])
    if a is None or b is None:
        return False, "cell process failed (inconclusive): %s" % (ta if a is None else tb)[-300:]
    ra, rb = a.get(case["target"]), b.get(case["target"])
    if ra == rb:
        return False, "identical outputs: %s" % json.dumps(ra)[:200]
    if ra is None or rb is None or ra["status"] != rb["status"]:
        return True, "status differs: %s vs %s" % (ra, rb)
    fn, ln, la, lb, _ = first_diff(da, db, ra["files"], rb["files"])
    return True, "%s line %d: hash seed %s gives %r, hash seed %s gives %r" % (
        fn, ln, case["base_cfg"]["hashseed"], la, case["cell_cfg"]["hashseed"], lb)
