"""C29 - automatic pickling of extension types round-trips (DESIGN §4 C29, engine E2 `.pyx`).

Generated cdef classes (typed / object attributes over 1-2 inheritance levels, optional __dict__, Python
subclass, __cinit__, auto_pickle None/True/False, struct and pointer members) are pickled with every protocol,
copied, deep-copied and reduced by hand; the reconstructed attribute values must equal the original ones and
the outcome of a plain-Python mirror class (same __init__/_state) run through the same canon.  Classes that the
rules of _inject_pickle_methods declare unpicklable must raise TypeError.  Pickle data of a class fed to the
unpickle function of a class with a different member-name layout must raise.
"""
import os
import re

from vlib import cybuild, diffmod, harness, hyp, runner, tree, twin
from vlib.gen import picklegen as pg

PID = "C29"
LEVEL = "exploration"
META = {
    "technique": "property-based round-trip testing of compiled cdef classes (pickle protocols 0-5, copy, deepcopy, manual reduce/setstate) against the original attribute values and a pure-Python mirror class; rule-table oracle for unpicklable types; cross-layout unpickling",
    "level_text": "Exploration: generated extension types (0-4 attributes per level over 1-2 inheritance levels with interleaving names; 16 attribute types incl. all C integer widths, float/double, bint, str/bytes/list/dict/tuple/object, another cdef class, struct, pointer; public/readonly/private; optional cdef __dict__, Python subclass with instance dict, __cinit__, auto_pickle None/True/False) are compiled; drawn in-range values are round-tripped through pickle protocols 0-5, copy.copy, copy.deepcopy and a manual __reduce_cython__/__setstate_cython__ cycle. Every reconstructed attribute (read back through a compiled accessor, so private C attributes are observed too), the instance type and extra __dict__ entries must equal the original and the outcome of the Python mirror. Unpicklable layouts (per the transcribed rules) must raise TypeError; auto_pickle(True) on them must be a compile error. For half of the classes a layout-changed sibling (attribute added/removed/renamed/reordered/retyped) receives the original's checksum+state: changed member names must raise. Sampling, no proof.",
    "level_note": "Trusts CPython's pickle/copy modules and the hand-transcribed unpicklability rules of ParseTreeTransforms._inject_pickle_methods. The layout checksum covers sorted member NAMES only (by design of the implementation): reordered and retyped siblings are only required not to crash and to keep name->value association. auto_pickle(False) classes are only required to raise TypeError or round-trip faithfully. Compiled code runs in isolated runner subprocesses.",
}
N_CLASSES = 20
_ERR = re.compile(r"^\S+?:(\d+):(\d+): (.*)")


def _draw(seed, shard, n):
    cs = hyp.draw_many(pg.pickle_class(), n + 1, seed, "c29", shard)[1:]
    out = []
    for i, c in enumerate(cs):
        c = dict(c, name="K%d" % i)
        vs = hyp.draw_many(pg.value_sets(c), 2, seed, "c29v", shard, i)[-1]
        out.append((c, vs))
    return out


def _feat(c):
    flat = pg.all_attrs(c)
    types = sorted(set(a["type"] for a in flat))
    return "levels=%d;dict=%d;ap=%s;types=%s" % (len(c["levels"]), int(c["dict"]), c["auto_pickle"], ",".join(types) or "-")


def _nontrivial(c, case):
    flat = pg.all_attrs(c)
    return (len(flat) >= 2 and len(c["levels"]) >= 2 and all(c["levels"])) or c["dict"] or case["target"] in ("layout", "P", "dict")


def _state_names(canon_attrs):
    """canon of attrs(x) = tuple(type name, state tuple of (name, value), extras) -> {name: canon value}"""
    try:
        st = canon_attrs[1][1][1]
        return {eval(p[1][0][1]): p[1][1] for p in st}
    except Exception:
        return None


def _judge(c, case, ref, got):
    """-> None or (bucket, what)."""
    reason = pg.expected_unpicklable(c)
    feat = _feat(c)
    if got[0] in ("crash", "timeout"):
        return ("%s;%s;%s:%s;%s" % (case["target"], case["how"], got[0], got[1] if len(got) > 1 else "", feat),
                "compiled run died: %s" % diffmod.json_short(got))
    if case["target"] == "layout":
        kind = c["variant"]["kind"]
        if kind in ("add", "remove", "rename"):
            if got[0] == "exc":
                return None
            return ("layout;%s;accepted;%s" % (kind, feat),
                    "pickle data of %s accepted by the unpickle function of the %s-changed layout: %s" % (
                        c["name"], kind, diffmod.json_short(got)))
        if got[0] == "exc":
            if kind == "reorder":
                return ("layout;reorder;exc:%s;%s" % (got[1], feat), "reordered declaration (same member names) rejected: %s"
                        % diffmod.json_short(got))
            return None
        try:
            a, b = got[1][1][0], got[1][1][1]
        except Exception:
            return ("layout;%s;shape;%s" % (kind, feat), "unexpected result %s" % diffmod.json_short(got))
        na, nb = _state_names(a), _state_names(b)
        if na is None or nb is None or set(na) != set(nb):
            return ("layout;%s;names;%s" % (kind, feat), "member names differ after cross unpickling: %s" % diffmod.json_short(got))
        if kind == "reorder" and na != nb:
            return ("layout;reorder;misassigned;%s" % feat, "values moved between members: %s" % diffmod.json_short(got))
        return None
    if reason is not None:
        if got[0] == "exc" and got[1] == "TypeError":
            return None
        if reason == "auto_pickle-off" and got[0] == "ok":
            try:
                if got[1][1][1] == got[1][1][2]:
                    return None
            except Exception:
                pass
        return ("%s;%s;unpicklable-%s;%s;%s" % (case["target"], case["how"], reason,
                                                got[0] + (":" + got[1] if got[0] == "exc" else ""), feat),
                "class must not be picklable (%s) but: %s" % (reason, diffmod.json_short(got)))
    # picklable: self-consistency and equality with the Python mirror
    if got[0] != "ok":
        return ("%s;%s;%s:%s;%s" % (case["target"], case["how"], got[0], got[1] if len(got) > 1 else "", feat),
                "round trip failed: %s (mirror: %s)" % (diffmod.json_short(got), diffmod.json_short(ref)))
    try:
        fresh, a, b = got[1][1][0], got[1][1][1], got[1][1][2]
    except Exception:
        return ("%s;%s;shape;%s" % (case["target"], case["how"], feat), "unexpected result %s" % diffmod.json_short(got))
    if a != b:
        na, nb = _state_names(a) or {}, _state_names(b) or {}
        diff = sorted(k for k in set(na) | set(nb) if na.get(k) != nb.get(k))
        which = "state:" + ",".join(diff) if diff else ("type" if a[1][0] != b[1][0] else "extras")
        tdiff = sorted(set(x["type"] for x in pg.all_attrs(c) if x["name"] in diff))
        return ("%s;%s;not-preserved;%s;attrtypes=%s;%s" % (case["target"], case["how"], which.split(":")[0], ",".join(tdiff) or "-", feat),
                "reconstructed instance differs from the original (%s): %s" % (which, diffmod.json_short(got, 600)))
    if fresh != ["bool", "True"]:
        return ("%s;%s;same-object;%s" % (case["target"], case["how"], feat), "copy returned the original object")
    if ref[0] == "ok" and ref != got:
        return ("%s;%s;mirror-diff;%s" % (case["target"], case["how"], feat),
                "differs from the Python mirror: mirror %s vs compiled %s" % (diffmod.json_short(ref, 400), diffmod.json_short(got, 400)))
    return None


def _compile(part, items, name, outdir):
    """Cython-compile; classes whose lines carry errors are reported and dropped. -> (items, c_path)"""
    items = list(items)
    for _ in range(5):
        if not items:
            return [], None
        chunks = [pg.render_class(c, True) for c, _ in items]
        src = pg.HEADER_PYX + "\n".join(chunks)
        ranges, line = [], pg.HEADER_PYX.count("\n") + 1
        for ch in chunks:
            n = ch.count("\n") + 1
            ranges.append((line, line + n - 1))
            line += n
        d = os.path.join(outdir, name)
        os.makedirs(d, exist_ok=True)
        path = os.path.join(d, name + ".pyx")
        with open(path, "w") as f:
            f.write(src)
        try:
            return items, cybuild.cython_compile(path)
        except cybuild.CythonError as e:
            bad = {}
            for ln in e.errors:
                m = _ERR.match(ln)
                if m and "warning:" not in ln:
                    for k, (a, b) in enumerate(ranges):
                        if a <= int(m.group(1)) <= b and k not in bad:
                            bad[k] = m.group(3)
            if not bad:
                part.violation("build;cyerror-unattributed", {"kind": "module", "classes": [c for c, _ in items]},
                               "module does not compile: %s" % e.errors[:4])
                return [], None
            for k, msg in sorted(bad.items()):
                c = items[k][0]
                part.violation("build;cyerror;%s;%s" % (re.sub(r"'[^']*'", "'_'", msg)[:70], _feat(c)),
                               {"kind": "build", "class": c}, "valid class rejected by Cython: %s" % msg)
            items = [it for k, it in enumerate(items) if k not in bad]
    return [], None


def _check_compile_errors(part, items, name, outdir):
    d = os.path.join(outdir, name + "_ce")
    os.makedirs(d, exist_ok=True)
    for k, (c, _) in enumerate(items):
        p1 = os.path.join(d, "ce%d.pyx" % k)
        with open(p1, "w") as f:
            f.write(pg.HEADER_PYX + pg.render_class(c, True))
        try:
            cybuild.cython_compile(p1)
        except cybuild.CythonError as e:
            part.case(["ce", c], True, ["verdict:auto_pickle(True)-on-unpicklable-is-compile-error"])
            if e.crashed:
                part.violation("forced-autopickle;compiler-crash;%s" % _feat(c), {"kind": "ce", "class": c}, str(e.errors[:3]))
            continue
        part.case(["ce", c], True, ["verdict:auto_pickle(True)-on-unpicklable-accepted"])
        part.violation("forced-autopickle;accepted;%s;%s" % (pg.expected_unpicklable(c), _feat(c)), {"kind": "ce", "class": c},
                       "@cython.auto_pickle(True) on a class that cannot be pickled (%s) compiled without error"
                       % pg.expected_unpicklable(c))


def _run_module(part, items, name, outdir):
    items, c_path = _compile(part, items, name, outdir)
    if not items:
        return
    d = os.path.join(outdir, name)
    so_dir = os.path.join(d, "so")
    os.makedirs(so_dir, exist_ok=True)
    try:
        so = cybuild.cc(c_path, os.path.join(so_dir, name + cybuild.EXT_SUFFIX))
    except cybuild.CCError as e:
        if len(items) == 1:
            part.violation("build;ccerror;%s" % _feat(items[0][0]), {"kind": "build", "class": items[0][0]},
                           "generated C does not compile: %s" % str(e)[-400:])
        else:
            for k, it in enumerate(items):
                _run_module(part, [it], "%s_s%d" % (name, k), outdir)
        return
    per = [pg.class_cases(c, vs) for c, vs in items]
    flat = [{"expr": cs["expr"]} for p in per for cs in p]
    ref_path = os.path.join(d, "ref", name + ".py")
    os.makedirs(os.path.dirname(ref_path), exist_ok=True)
    with open(ref_path, "w") as f:
        f.write(pg.render_module([c for c, _ in items], False))
    imp_g, got = runner.run_cases("so", so, name, flat, setup=pg.SETUP)
    imp_r, ref = runner.run_cases("py", ref_path, name, flat, setup=pg.SETUP)
    if imp_r[0] != "ok":
        raise RuntimeError("mirror module failed to import: %r" % (imp_r,))
    if imp_g[0] != "ok":
        if len(items) == 1:
            part.violation("import;%s;%s" % (imp_g[1] if len(imp_g) > 1 else "?", _feat(items[0][0])),
                           {"kind": "build", "class": items[0][0]}, "compiled module fails at import: %s" % diffmod.json_short(imp_g))
        else:
            for k, it in enumerate(items):
                _run_module(part, [it], "%s_s%d" % (name, k), outdir)
        return
    i = 0
    for (c, vs), p in zip(items, per):
        reason = pg.expected_unpicklable(c)
        for cs, r, g in zip(p, ref[i:i + len(p)], got[i:i + len(p)]):
            labels = ["how:" + cs["how"], "target:" + cs["target"], "expect:" + (reason or "round-trip"),
                      "got:" + g[0]] + ["attrtype:" + t for t in sorted(set(a["type"] for a in pg.all_attrs(c)))]
            if cs["target"] == "layout":
                labels.append("layout:" + c["variant"]["kind"])
            part.case([c, cs["expr"]], _nontrivial(c, cs), labels,
                      sample={"class": pg.render_class(c, True), "expr": cs["expr"], "compiled": diffmod.json_short(g)})
            v = _judge(c, cs, r, g)
            if v is not None:
                part.violation(v[0], {"kind": "case", "class": c, "expr": cs["expr"], "how": cs["how"], "target": cs["target"]},
                               "%s: %s | %s" % (cs["expr"], v[1], pg.render_class(c, True).replace("\n", " / ")[:600]))
        i += len(p)
    part.count("modules")
    part.count("classes", len(items))


def _shard(arg):
    seed, shard, n = arg
    tree.activate_view()
    part = harness.Part()
    outdir = os.path.join(tree.workdir(), "c29")
    drawn = _draw(seed, shard, n)
    ce = [(c, vs) for c, vs in drawn if pg.compile_error_expected(c)]
    ok = [(c, vs) for c, vs in drawn if not pg.compile_error_expected(c)]
    name = "c29m%d" % shard
    _run_module(part, ok, name, outdir)
    _check_compile_errors(part, ce, name, outdir)
    return part


def run(ctx):
    nshards = 12 if ctx.quick else 120
    ctx.pmap(_shard, [(ctx.seed, s, N_CLASSES) for s in range(nshards)])
    ctx.rule = ("Hypothesis-drawn cdef classes (1-2 inheritance levels, 0-4 attributes each of 16 attribute types + rare struct/"
                "pointer members, public/readonly/private, optional cdef __dict__ / Python subclass / __cinit__ / auto_pickle "
                "setting, 50%% with a layout-changed sibling), %d classes per module; two drawn value sets; operations: pickle "
                "protocols 0-5, copy, deepcopy, manual reduce/setstate on the instance, on a Python-subclass instance with extra "
                "attributes, on an instance with __dict__ entries, and cross-layout unpickling. non-trivial = >= 2 attributes "
                "over 2 non-empty hierarchy levels, or a __dict__/Python-subclass instance, or a layout-change case; distinct "
                "by (class IR, expression)" % N_CLASSES)
    ctx.assumptions = ["pickle/copy of CPython 3.12 and the Python mirror class are the reference for round-trip results",
                       "unpicklability rules transcribed from _inject_pickle_methods (cinit, non-convertible member, struct without opt-in)",
                       "layout checksum is defined over sorted member names: reorder/retype siblings need not be rejected"]


def _replay_one(arg):
    work, case = arg
    tree.activate_view()
    part = harness.Part()
    outdir = os.path.join(work, "c29replay")
    name = "c29r" + harness.khash(case)
    kind = case.get("kind")
    if kind == "module":
        _compile(part, [(c, None) for c in case["classes"]], name, outdir)
    elif kind == "ce":
        _check_compile_errors(part, [(case["class"], None)], name, outdir)
    elif kind == "build":
        c = case["class"]
        items, c_path = _compile(part, [(c, None)], name, outdir)
        if items:
            try:
                so_dir = os.path.join(outdir, name, "so")
                os.makedirs(so_dir, exist_ok=True)
                so = cybuild.cc(c_path, os.path.join(so_dir, name + cybuild.EXT_SUFFIX))
                imp, _ = runner.run_cases("so", so, name, [], setup=pg.SETUP)
                if imp[0] != "ok":
                    return True, "import outcome %s" % diffmod.json_short(imp)
            except cybuild.CCError as e:
                return True, "generated C does not compile: %s" % str(e)[-300:]
    else:
        c = case["class"]
        res = twin.run(pg.render_module([c], True), pg.render_module([c], False), name, outdir,
                       [{"expr": case["expr"]}], setup=pg.SETUP)
        if res.status not in ("ok",):
            return True, "build/import status %s: %s" % (res.status, str(res.detail)[:300])
        v = _judge(c, {"how": case.get("how", "?"), "target": case.get("target", "K")}, res.ref[0], res.got[0])
        if v is None:
            return False, "holds: %s" % diffmod.json_short(res.got[0])
        return True, v[1]
    return bool(part.violations), (part.violations[0][2] if part.violations else "no violation")


def replay(ctx, case):
    return twin.cached_replay(ctx, PID, case, _replay_one)
