"""C44 traceback half - filled in later (see c44_positions)."""


def run(ctx):
    return


def replay(ctx, case):
    return False, "no traceback replay yet"
