"""C44 traceback half: exceptions raised in compiled code carry the same (function, line) traceback entries as
CPython running the same source; code objects of compiled functions carry positions inside the function.
"""
import ast
import os

from hypothesis import strategies as st

from vlib import diffmod, harness, hyp, tree

HEADER = '''LOG = []


class CM_:
    def __enter__(self):
        return self

    def __exit__(self, *a):
        return False

'''

SETUP = r'''
import traceback, os, ast, inspect

def TB(thunk):
    """(exception type, [(function name, line)...]) restricted to frames of the module under test."""
    modfile = os.path.basename(M.__file__).split(".")[0]
    try:
        thunk()
    except BaseException as e:
        out = []
        for fs in traceback.extract_tb(e.__traceback__):
            base = os.path.basename(fs.filename).split(".")[0]
            if base == modfile:
                out.append((fs.name, fs.lineno))
        chain = []
        c = e.__cause__ or (None if e.__suppress_context__ else e.__context__)
        depth = 0
        while c is not None and depth < 4:
            chain.append((type(c).__name__, [(fs.name, fs.lineno) for fs in traceback.extract_tb(c.__traceback__)
                                             if os.path.basename(fs.filename).split(".")[0] == modfile]))
            c = c.__cause__ or (None if c.__suppress_context__ else c.__context__)
            depth += 1
        return (type(e).__name__, out, chain)
    return ("no exception", [], [])

def POS(fname, lo, hi):
    """positions/lines of the code object of M.<fname> must lie inside the function's source span lo..hi."""
    f = getattr(M, fname)
    code = getattr(f, "__code__", None)
    if code is None:
        return ("no __code__",)
    bad = []
    if not (lo <= code.co_firstlineno <= hi):
        bad.append(("firstlineno", code.co_firstlineno))
    try:
        for p in code.co_positions():
            if p[0] is not None and not (lo <= p[0] <= hi):
                bad.append(("pos", p))
                break
        for (_s, _e, ln) in code.co_lines():
            if ln is not None and not (lo <= ln <= hi):
                bad.append(("line", ln))
                break
    except Exception as e:
        bad.append(("decode", type(e).__name__))
    return ("ok", code.co_name, bad)
'''

RAISERS = [
    "raise ValueError({k})",
    "raise KeyError('k{k}')",
    "LOG.append(1 // (x - x))",
    "LOG.append([1, 2][x + 10])",
    "LOG.append({{}}['k{k}'])",
    "LOG.append(None.attr{k})",
    "LOG.append(int('z{k}'))",
    "LOG.append(len(x))",
    "LOG.append(x + 's')",
    "assert x < 0, {k}",
    "LOG.append(next(iter(())))",
]


class TBG:
    def __init__(self, draw, uid):
        self.draw = draw
        self.uid = uid
        self.n = 0
        self.feats = set()
        self.funcs = []      # names of generated top-level functions (callable with (x, sel))

    def pick(self, seq):
        return self.draw(st.sampled_from(list(seq)))

    def irange(self, a, b):
        return self.draw(st.integers(a, b))

    def fresh(self, p="t"):
        self.n += 1
        return "%s%d" % (p, self.n)

    def filler(self, ind):
        return ind + self.pick(["y = x + 1", "LOG.append(x)", "z = [x, x]", "pass", "y = str(x)", "z = (x, 1)"])

    def raise_stmt(self, ind, k, callee):
        """One single-line statement that raises when sel == k."""
        if callee and self.draw(st.booleans()):
            self.feats.add("chain")
            op = "%s(x, sel // 10)" % callee
            return [ind + "if sel %% 10 == %d: %s" % (k, self.pick(["LOG.append(%s)" % op, "y = %s" % op, "return %s" % op]))]
        r = self.pick(RAISERS).format(k=k)
        return [ind + "if sel %% 10 == %d: %s" % (k, r)]

    def body(self, ind, callee, nraise):
        lines = []
        ks = list(range(1, nraise + 1))
        for k in ks:
            for _ in range(self.irange(0, 2)):
                lines.append(self.filler(ind))
            ctx = self.irange(0, 8)
            rs = self.raise_stmt(ind + "    ", k, callee) if ctx in (1, 2, 3, 4, 5, 6) else self.raise_stmt(ind, k, callee)
            if ctx == 1:
                self.feats.add("for")
                lines += [ind + "for i%d in range(2):" % k] + rs
            elif ctx == 2:
                self.feats.add("tryfinally")
                lines += [ind + "try:"] + rs + [ind + "finally:", ind + "    LOG.append('fin%d')" % k]
            elif ctx == 3:
                self.feats.add("with")
                lines += [ind + "with CM_():"] + rs
            elif ctx == 4:
                self.feats.add("reraise")
                lines += [ind + "try:"] + rs + [ind + "except ValueError:", ind + "    raise"]
            elif ctx == 5:
                self.feats.add("raisefrom")
                lines += [ind + "try:"] + rs + [ind + "except (ValueError, KeyError, TypeError) as e%d:" % k,
                                                 ind + "    raise RuntimeError(%d) from e%d" % (k, k)]
            elif ctx == 6:
                self.feats.add("while")
                lines += [ind + "while x is not None:"] + rs + [ind + "    break"]
            else:
                lines += rs
        lines.append(self.filler(ind))
        lines.append(ind + "return x")
        return lines

    def function(self, callee):
        name = "f%s_%s" % (self.fresh(""), self.uid)
        kind = self.pick(["plain", "plain", "closure", "method", "generator", "nested", "staticmethod"])
        nraise = self.irange(1, 4)
        self.feats.add("kind:" + kind)
        if kind == "plain":
            src = ["def %s(x, sel):" % name] + self.body("    ", callee, nraise)
        elif kind == "closure":
            src = ["def %s(x, sel):" % name, "    k = x", "    def inner(sel):", "        x = k"]
            src += self.body("        ", callee, nraise)
            src += ["    return inner(sel)"]
        elif kind == "nested":
            src = ["def %s(x, sel):" % name, "    def level1(x, sel):", "        def level2(x, sel):"]
            src += self.body("            ", callee, nraise)
            src += ["        return level2(x, sel)", "    return level1(x, sel)"]
        elif kind == "method":
            cname = "C%s_%s" % (self.fresh(""), self.uid)
            src = ["class %s:" % cname, "    def meth(self, x, sel):"] + self.body("        ", callee, nraise)
            src += ["def %s(x, sel):" % name, "    return %s().meth(x, sel)" % cname]
        elif kind == "staticmethod":
            cname = "C%s_%s" % (self.fresh(""), self.uid)
            src = ["class %s:" % cname, "    @staticmethod", "    def smeth(x, sel):"] + self.body("        ", callee, nraise)
            src += ["def %s(x, sel):" % name, "    return %s.smeth(x, sel)" % cname]
        else:  # generator
            gname = "g%s_%s" % (self.fresh(""), self.uid)
            body = self.body("    ", callee, nraise)
            body = [l.replace("return x", "yield x") if l.strip() == "return x" else l for l in body]
            body = [l.replace(": return ", ": yield ") for l in body]
            src = ["def %s(x, sel):" % gname, "    yield 0"] + body
            src += ["def %s(x, sel):" % name, "    return list(%s(x, sel))" % gname]
        return name, src, nraise


@st.composite
def tb_item(draw, uid="U"):
    g = TBG(draw, uid)
    depth = draw(st.integers(1, 4))
    src = []
    callee = None
    sels = [0]
    top = None
    for level in range(depth):
        name, fsrc, nraise = g.function(callee)
        src += fsrc + [""]
        callee = name
        top = name
    # selectors: digits (least significant = outermost function) choosing which raise fires per level
    cases = []
    for _ in range(draw(st.integers(3, 6))):
        sel = 0
        for lvl in range(depth):
            sel = sel * 10 + draw(st.integers(0, 4))
        cases.append(sel)
    return {"src": "\n".join(src), "top": top, "sels": cases, "depth": depth, "features": sorted(g.feats)}


def _spans(module_src):
    """name -> (first line, last line) for every def (innermost name; unique names by construction)."""
    out = {}
    for node in ast.walk(ast.parse(module_src)):
        if isinstance(node, (ast.FunctionDef, ast.AsyncFunctionDef)):
            lo = min([node.lineno] + [d.lineno for d in node.decorator_list])
            out.setdefault(node.name, []).append((lo, node.end_lineno))
    return out


def _shard(arg):
    seed, shard, nmods, K = arg
    tree.activate_view()
    part = harness.Part()
    outdir = os.path.join(tree.workdir(), "c44tb", "s%d" % shard)
    for m in range(nmods):
        raw = hyp.draw_many(tb_item(), K + 1, seed, "c44tb", shard, m)[1:]
        items = []
        for i, it in enumerate(raw):
            uid = "%d_%d_%d" % (shard, m, i)
            src = it["src"].replace("_U", "_" + uid)
            top = it["top"].replace("_U", "_" + uid)
            cases = [{"expr": "TB(lambda: M.%s(%s, %d))" % (top, xv, sel)}
                     for sel in it["sels"] for xv in ("3",)]
            items.append({"src": src, "cases": cases, "meta": it, "top": top})
        name = "c44m_%d_%d" % (shard, m)
        modsrc = diffmod.render(items, HEADER)
        spans = _spans(modsrc)
        # position cases for every top-level function of the module (compiled side only judged by invariant)
        poscases = []
        for fname, sp in spans.items():
            if len(sp) == 1 and fname.startswith("f") and "_" in fname:
                poscases.append((fname, sp[0]))
        pos_item = {"src": "", "cases": [{"expr": "POS(%r, %d, %d)" % (fn, lo, hi)} for fn, (lo, hi) in poscases], "meta": None}
        for sub, res in diffmod.run_batch_isolating(items + [pos_item], name, outdir, header=HEADER, setup=SETUP,
                                                    directives={"binding": True}):
            if res.status in ("cyerror", "ccerror"):
                part.count("build_" + res.status, len(sub))
                continue
            if res.status == "import-diff":
                part.count("import_diff")
                continue
            for it, refs, gots in zip(sub, res.ref, res.got):
                if it["meta"] is None:
                    if len(sub) != len(items) + 1:
                        continue   # line numbers shifted by dropped items: spans no longer valid
                    for (fn, span), g in zip(poscases, gots):
                        ok = g[0] == "ok" and g[1][0] == "tuple" and g[1][1][0] == ["str", "'ok'"] and g[1][1][2] == ["list", []]
                        part.case(["pos", name, fn], True, "codeobj:" + ("ok" if ok else "bad"))
                        if not ok:
                            part.violation("codeobj-positions", {"kind": "tb", "header": HEADER, "src": modsrc[len(HEADER):],
                                                                 "exprs": ["POS(%r, %d, %d)" % (fn, span[0], span[1])], "posonly": True},
                                           "code object of %s has positions outside its source span %s: %s" % (fn, span, diffmod.json_short(g)))
                    continue
                meta = it["meta"]
                for c, r, g in zip(it["cases"], refs, gots):
                    raised = r[0] == "ok" and r[1][1][0] != ["str", "'no exception'"]
                    nt = raised and (meta["depth"] >= 2 or any(f in meta["features"] for f in ("tryfinally", "with", "reraise", "raisefrom")))
                    part.case([it["src"], c["expr"]], nt, ["tb:depth%d" % meta["depth"]] + ["tb:" + f for f in meta["features"]],
                              sample={"kind": "traceback", "src": it["src"][:1200], "call": c["expr"], "cpython": diffmod.json_short(r, 400)})
                    cls = _classify(r, g) if "timeout" not in (r[0], g[0]) else None
                    if cls is not None:
                        part.violation("tb:" + cls, {"kind": "tb", "header": HEADER, "src": it["src"], "exprs": [c["expr"]]},
                                       "%s: CPython %s vs compiled %s" % (c["expr"], diffmod.json_short(r, 500), diffmod.json_short(g, 500)))
    return part


def _norm(o):
    """Normalise a TB() outcome: function names -> last dotted component (Cython reports 'module.qualname',
    CPython co_name; both name the same function)."""
    try:
        if o[0] != "ok":
            return o
        import copy
        o = copy.deepcopy(o)
        t = o[1][1]

        def fix(frames):
            for fr in frames[1]:
                nm = fr[1][0]
                if nm[0] == "str":
                    fr[1][0] = ["str", repr(eval(nm[1]).split(".")[-1])]
        fix(t[1])
        for ch in t[2][1]:
            fix(ch[1][1])
        return o
    except Exception:
        return o


def _frames(o):
    return [(eval(fr[1][0][1]), int(fr[1][1][1])) for fr in o[1][1][1][1]]


def _dedup(frames):
    out = []
    for f in frames:
        if out and out[-1][0] == f[0]:
            out[-1] = f
        else:
            out.append(f)
    return out


def _classify(r, g):
    """None if equivalent, else a class string."""
    r, g = _norm(r), _norm(g)
    if r == g:
        return None
    try:
        if r[0] != "ok" or g[0] != "ok":
            return "outcome:%s->%s" % (r[0], g[0])
        rt, gt = r[1][1], g[1][1]
        if rt[0] != gt[0]:
            return "exctype"
        rf, gf = _frames(r), _frames(g)
        if rt[0] == ["str", "'RuntimeError'"] and "StopIteration" in str(rt[2]) and rf != gf:
            return "pep479"         # StopIteration -> RuntimeError conversion inside a generator
        if rf != gf:
            if _dedup(gf) == rf:
                return "dupframe"       # extra entries for a function that already has one (re-raise / finally)
            if len(rf) != len(gf):
                return "frames"
            for a, b in zip(rf, gf):
                if a[0] != b[0]:
                    return "funcname"
                if a[1] != b[1]:
                    return "lineno"
        if rt[2] != gt[2]:
            try:        # the same duplicate-entry difference inside a chained (__cause__/__context__) exception
                rc = [(ce[1][0], [(eval(fr[1][0][1]), int(fr[1][1][1])) for fr in ce[1][1][1]]) for ce in rt[2][1]]
                gc = [(ce[1][0], [(eval(fr[1][0][1]), int(fr[1][1][1])) for fr in ce[1][1][1]]) for ce in gt[2][1]]
                if len(rc) == len(gc) and all(a[0] == b[0] and _dedup(b[1]) == a[1] for a, b in zip(rc, gc)):
                    return "dupframe"
            except Exception:
                pass
            return "chain"
        return "log"
    except Exception:
        return "other"


def run(ctx):
    nmods = 1 if ctx.quick else 12
    ctx.pmap(_shard, [(ctx.seed, s, nmods, 14) for s in range(8)])
    ctx.rule += (" || tracebacks: Hypothesis call chains of 1-4 generated functions (plain/closure/nested/method/staticmethod/"
                 "generator) with 1-4 single-line raising statements each (explicit raise, failing call/index/attribute/division, "
                 "assert) inside for/while/with/try-finally/re-raise/raise-from contexts; the selector digits choose which "
                 "statement fires at which level; oracle = same source under CPython: exception type, [(function, line)] of the "
                 "module's traceback entries in order, and the same for the __cause__/__context__ chain; plus an invariant on every "
                 "compiled top-level function: co_firstlineno, co_positions() and co_lines() lie inside the function's ast span. "
                 "non-trivial traceback case = an exception was raised and depth>=2 or raise inside try/finally/with/re-raise")


def replay(ctx, case):
    outdir = os.path.join(ctx.work, "c44tbreplay")
    items = [{"src": case["src"], "cases": [{"expr": e} for e in case["exprs"]]}]
    res = diffmod.run_batch(items, "c44replay", outdir, header=case.get("header", HEADER), setup=SETUP,
                            directives={"binding": True})
    if res.status != "ok":
        return True, "build status %s: %s" % (res.status, str(res.detail)[:300])
    for e, r, g in zip(case["exprs"], res.ref[0], res.got[0]):
        if case.get("posonly"):
            ok = g[0] == "ok" and g[1][1][0] == ["str", "'ok'"] and g[1][1][2] == ["list", []]
            if not ok:
                return True, "%s -> %s" % (e, diffmod.json_short(g))
        elif _classify(r, g) is not None:
            return True, "%s: CPython %s vs compiled %s" % (e, diffmod.json_short(r, 500), diffmod.json_short(g, 500))
    return False, "tracebacks agree"
