"""C39 - behaviour is identical across build configurations (DESIGN §4 C39, engine E4).

Donor programs (vlib/gen/cfgkernels: 41 hand-written kernels sitting on the macro-selected helpers, driven by
Hypothesis-drawn boundary values; vlib/gen/pyprog function items; and - when importable - vlib/gen/excprog and
vlib/gen/evalorder items) are batched into modules.  Each module is translated by Cython ONCE to C (and once to C++), then the same
generated file is compiled under a matrix of cells: -O0 / -O2, C / C++17, Limited API, feature macros one at a
time (thorough) or in drawn subsets (quick), plus a few semantics-neutral directives (these need their own
Cython run).  Every generated call is executed in every cell; the canonical outcome (value, exception type +
args, side-effect log) must equal the baseline cell's (C, -O0, no defines).  The CPython outcome of the same
source is recorded as reference and reported with each difference.
"""
import os

from hypothesis import strategies as st

from vlib import cybuild, diffmod, harness, hyp, runner, tree
from vlib.gen import cfgkernels, pyprog

PID = "C39"
LEVEL = "exploration"
META = {
    "technique": "configuration-matrix differential testing: one Cython output per generated module compiled under C-level feature macros, optimisation levels, C++ and Limited API, plus semantics-neutral directives; outcomes compared with the baseline cell and with CPython",
    "level_text": "Exploration: generated donor modules (pure-Python function items with closures, classes, unpacking, builtins; exception-handling and evaluation-order items when those generators are present) are compiled once by Cython from the working tree and the generated C/C++ is built in up to ~25 configuration cells (each feature macro of ModuleSetupCode.c flipped alone in the thorough tier, drawn subsets of 3-5 macros in the quick tier, -O2, C++17, Limited API, CYTHON_COMPRESS_STRINGS 0/1/2/90, directives binding/optimize.*/always_allow_keywords). Thousands of (call, cell) comparisons per run against the baseline cell; a difference in a multi-macro cell is attributed by rebuilding the single item with each macro alone. Sampling of programs and macro combinations; no proof.",
    "level_note": "Donors are pure-Python programs, so typed-C conversion helpers, memoryviews and cdef classes (type slots/specs, freelists) are only lightly touched; a cell is counted non-trivial only if its preprocessed translation unit differs from the baseline's. Differences between the baseline cell and CPython are the donor property's business (C01 etc.) and are only counted here. gcc/g++ 12 only.",
}

MACROS = ["CYTHON_USE_PYLONG_INTERNALS=0", "CYTHON_USE_UNICODE_INTERNALS=0", "CYTHON_VECTORCALL=0",
          "CYTHON_AVOID_BORROWED_REFS=1", "CYTHON_ASSUME_SAFE_MACROS=0", "CYTHON_ASSUME_SAFE_SIZE=0",
          "CYTHON_USE_TYPE_SLOTS=0", "CYTHON_USE_TYPE_SPECS=1", "CYTHON_FAST_THREAD_STATE=0",
          "CYTHON_UNPACK_METHODS=0", "CYTHON_USE_PYLIST_INTERNALS=0", "CYTHON_USE_TP_FINALIZE=0",
          "CYTHON_USE_AM_SEND=0", "CYTHON_UPDATE_DESCRIPTOR_DOC=0", "CYTHON_USE_MODULE_STATE=1",
          "CYTHON_USE_FREELISTS=0", "CYTHON_USE_UNICODE_WRITER=0", "CYTHON_USE_PYTYPE_LOOKUP=0",
          "CYTHON_USE_DICT_VERSIONS=1", "CYTHON_COMPRESS_STRINGS=0", "CYTHON_COMPRESS_STRINGS=1",
          "CYTHON_COMPRESS_STRINGS=2"]
# not in the list: CYTHON_USE_EXC_INFO_STACK=0 (does not compile on CPython >= 3.7: PyThreadState.exc_type is gone; the
# macro only exists to be switched on), CYTHON_IMMORTAL_CONSTANTS=1 (needs 3.13 headers), CYTHON_METH_FASTCALL (merged
# into CYTHON_VECTORCALL in this tree)
LIMITED = ["CYTHON_LIMITED_API=1", "Py_LIMITED_API=0x030c0000"]
O0 = ["-O0", "-w", "-fPIC", "-fwrapv", "-fno-strict-aliasing"]
O2 = ["-O2", "-w", "-fPIC", "-fno-strict-aliasing"]
O3 = ["-O3", "-w", "-fPIC", "-fno-strict-aliasing"]
# semantics-neutral directives (DESIGN); always_allow_keywords=False changes single-argument functions by
# documentation, donors always call positionally so the observable behaviour must stay the same
DIRECTIVES = [{"binding": False}, {"optimize.use_switch": False}, {"optimize.unpack_method_calls": False},
              {"always_allow_keywords": False}, {"optimize.inline_defnode_calls": False}]


# Directives that are NOT behaviour-neutral for a donor, by documentation:
# * binding=False: functions become non-binding builtin-like callables; the evalorder header installs the operator
#   methods of its logging class with setattr(Px, "__lt__", <function>), which then no longer bind ("fwd() takes exactly
#   2 positional arguments (1 given)").
# * always_allow_keywords=False: one-argument functions take no keyword arguments; the kernel donor calls f1(x=b).
NOT_NEUTRAL_FOR = {"evalorder": {"binding"}, "cfgkernels": {"always_allow_keywords"}}


def donors():
    out = [("pyprog", pyprog, {"header": pyprog.HEADER, "setup": None, "always_log": False, "kw": {"max_depth": 3}}),
           ("cfgkernels", cfgkernels, {"header": cfgkernels.HEADER, "setup": "Box = M.Box\n", "always_log": False, "kw": {}})]
    try:
        from vlib.gen import excprog
        out.append(("excprog", excprog, {"header": excprog.HEADER, "setup": excprog.SETUP, "always_log": True, "kw": {}}))
    except Exception:
        pass
    try:
        from vlib.gen import evalorder
        out.append(("evalorder", evalorder, {"header": evalorder.HEADER, "setup": None, "always_log": False, "kw": {}}))
    except Exception:
        pass
    return out


def macro_key(defines):
    return "+".join(d.replace("CYTHON_", "") for d in defines) or "none"


def cells_for(seed, tier, mi):
    """[(cell name, cplus, flags, defines, directives)] besides the baseline."""
    if tier == "quick":
        # 4 jobs per run: the kernel donor twice (job 0: macro subsets 0-2, job 1: macro subsets 3-5; the 6 drawn
        # subsets of 4 macros together cover all macro settings), job 2: C++ + one neutral directive, job 3: Limited API and -O2
        cells = [[], [], [("cpp", True, O0, [], None)],
                 [("limited", False, O0, list(LIMITED), None), ("O2", False, O2, [], None)]][mi % 4]
        perm = hyp.draw_many(st.permutations(MACROS), 2, seed, "c39macros")[-1]
        per = 4
        for j in {0: (0, 1, 2), 1: (3, 4, 5), 2: (), 3: ()}[mi % 4]:
            start = (j * per) % len(perm)
            sub = [perm[(start + i) % len(perm)] for i in range(per)]
            names = set()
            sub = [d for d in sub if not (d.split("=")[0] in names or names.add(d.split("=")[0]))]
            cells.append(("macros:" + macro_key(sub), False, O0, sub, None))
        if mi % 4 == 2:
            d = DIRECTIVES[seed % len(DIRECTIVES)]
            cells.append(("directive:" + ",".join("%s=%s" % kv for kv in d.items()), False, O0, [], d))
    else:
        cells = [("O2", False, O2, [], None), ("cpp", True, O0, [], None), ("limited", False, O0, list(LIMITED), None)]
        for m in MACROS:
            cells.append(("macros:" + macro_key([m]), False, O0, [m], None))
        cells.append(("macros:COMPRESS_STRINGS=90", False, O0, ["CYTHON_COMPRESS_STRINGS=90"], None))
        cells.append(("cpp-O2", True, O2, [], None))
        cells.append(("O3", False, O3, [], None))
        cells.append(("limited-O2", False, O2, list(LIMITED), None))
        pairs = hyp.draw_many(st.lists(st.sampled_from(MACROS), min_size=2, max_size=5, unique_by=lambda d: d.split("=")[0]),
                              4, seed, "c39pairs", mi)[1:]
        for sub in pairs:
            cells.append(("macros:" + macro_key(sub), False, O0, list(sub), None))
        for d in DIRECTIVES:
            cells.append(("directive:" + ",".join("%s=%s" % kv for kv in d.items()), False, O0, [], d))
    return cells


def preprocessed_sha(c_path, defines, cplus):
    import subprocess
    cmd = ["g++" if cplus else "gcc", "-E", "-P", "-w", "-I", cybuild.PY_INC] + ["-D" + d for d in defines]
    if cplus:
        cmd += ["-std=c++17"]
    p = subprocess.run(cmd + [c_path], stdout=subprocess.PIPE, stderr=subprocess.DEVNULL)
    return cybuild.sha12(p.stdout) if p.returncode == 0 else None


class Built:
    """Cython outputs of one module (C, C++, per-directive C) cached; cells compiled on demand."""
    def __init__(self, src, name, outdir):
        self.src, self.name, self.outdir = src, name, outdir
        self.cfiles = {}

    def cfile(self, cplus, directives):
        key = (cplus, tuple(sorted((directives or {}).items())))
        if key not in self.cfiles:
            d = os.path.join(self.outdir, "cy_%s_%d" % ("cpp" if cplus else "c", len(self.cfiles)))
            os.makedirs(d, exist_ok=True)
            p = os.path.join(d, self.name + ".py")
            with open(p, "w", encoding="utf-8", newline="") as f:
                f.write(self.src)
            self.cfiles[key] = cybuild.cython_compile(p, cplus=cplus, directives=directives)
        return self.cfiles[key]

    def so(self, cellname, cplus, flags, defines, directives):
        c = self.cfile(cplus, directives)
        d = os.path.join(self.outdir, "so_" + cybuild.sha12(cellname))
        os.makedirs(d, exist_ok=True)
        return cybuild.cc(c, os.path.join(d, self.name + cybuild.EXT_SUFFIX), flags=flags, defines=defines, cplus=cplus)


def filter_compilable(items, header, outdir, part):
    """Drop items Cython rejects (C43's business) so that the module builds."""
    src = diffmod.render(items, header)
    try:
        b = Built(src, "probe", os.path.join(outdir, "probe_all"))
        b.cfile(False, None)
        return items
    except Exception:
        pass
    good = []
    for j, it in enumerate(items):
        try:
            Built(diffmod.render([it], header), "probe", os.path.join(outdir, "probe_%d" % j)).cfile(False, None)
            good.append(it)
        except Exception:
            part.count("cython_rejected_items")
    return good


def run_cell(built, cellname, cplus, flags, defines, directives, cases, dinfo):
    so = built.so(cellname, cplus, flags, defines, directives)
    return runner.run_cases("so", so, built.name, cases, setup=dinfo["setup"], always_log=dinfo["always_log"])


def attribute(item, expr, dinfo, cell, cls, outdir):
    """For a multi-macro cell: which single macro reproduces the difference on the single item?"""
    name, cplus, flags, defines, directives = cell
    if len(defines) < 2 or name.startswith("limited"):
        return None
    src = diffmod.render([item], dinfo["header"])
    b = Built(src, "attr", outdir)
    cases = [{"expr": expr.replace("M.", "M.")}]
    try:
        imp, base = run_cell(b, "base", False, O0, [], None, cases, dinfo)
        for m in defines:
            imp, got = run_cell(b, "one_" + m, cplus, flags, [m], None, cases, dinfo)
            if diffmod.compare(base[0], got[0], "full") is not None:
                return m
    except Exception:
        return None
    return None


def _module_job(job):
    seed, tier, mi, dname, work = job
    tree.activate_view()
    part = harness.Part()
    dmap = {n: (mod, info) for n, mod, info in donors()}
    if dname not in dmap:
        part.count("donor_missing:" + dname)
        return part
    gen, dinfo = dmap[dname]
    k = 10 if tier == "quick" else 20
    name = "c39_%s_%d" % (dname, mi)
    outdir = os.path.join(work, "c39", name)
    try:
        items = gen.draw_items(k, seed, ("c39", dname, mi), "%s%d" % (dname[0], mi), **dinfo["kw"])
    except Exception as e:
        part.count("donor_generator_failed:%s:%s" % (dname, type(e).__name__))
        return part
    items = filter_compilable(items, dinfo["header"], outdir, part)
    if not items:
        return part
    src = diffmod.render(items, dinfo["header"])
    built = Built(src, name, outdir)
    cases = diffmod.flat_cases(items)
    pypath = os.path.join(outdir, name + "_ref.py")
    with open(pypath, "w", encoding="utf-8", newline="") as f:
        f.write(src)
    imp_r, ref = runner.run_cases("py", pypath, name, cases, setup=dinfo["setup"], always_log=dinfo["always_log"])
    try:
        imp_b, base = run_cell(built, "base", False, O0, [], None, cases, dinfo)
    except (cybuild.CythonError, cybuild.CCError) as e:
        part.count("baseline_build_failed")
        part.classes["baseline-build-failed: " + str(e)[-100:].replace("\n", " ")] += 1
        return part
    base_pre = {}
    attributed = {}
    for cell in cells_for(seed, tier, mi):
        if cell[4] and set(cell[4]) & NOT_NEUTRAL_FOR.get(dname, set()):
            # the directive is documented to change exactly what this donor does (see NOT_NEUTRAL_FOR)
            part.count("cells_skipped:directive-not-neutral-for-donor")
            continue
        cname, cplus, flags, defines, directives = cell
        ccase = {"header": dinfo["header"], "setup": dinfo["setup"], "always_log": dinfo["always_log"], "cplus": cplus,
                 "flags": flags, "defines": defines, "directives": directives, "cell": cname}
        try:
            imp_c, got = run_cell(built, cname, cplus, flags, defines, directives, cases, dinfo)
        except cybuild.CCError as e:
            part.violation("build:%s:ccerror" % cname, dict(ccase, src=src, exprs=[]),
                           "generated code does not compile in cell %s: %s" % (cname, str(e)[-500:]))
            continue
        except cybuild.CythonError as e:
            part.violation("build:%s:cyerror" % cname, dict(ccase, src=src, exprs=[]),
                           "Cython rejects the module in cell %s although it accepts it in the baseline: %s" % (cname, str(e)[-300:]))
            continue
        if imp_c != imp_b:
            part.violation("import:%s" % cname, dict(ccase, src=src, exprs=[]),
                           "module import outcome differs: baseline %s, cell %s: %s" % (imp_b, cname, diffmod.json_short(imp_c, 400)))
            continue
        # non-trivial cell: the preprocessed translation unit differs from the baseline's (macro is consulted), or
        # it is an optimisation / language / directive cell (different code by construction)
        if defines and not directives and not cplus:
            c_path = built.cfile(False, None)
            if "base" not in base_pre:
                base_pre["base"] = preprocessed_sha(c_path, [], False)
            effective = preprocessed_sha(c_path, defines, False) != base_pre["base"]
        else:
            effective = True
        idx = 0
        for it in items:
            feats = it.get("meta", {}).get("features", []) if isinstance(it.get("meta"), dict) else []
            for c in it["cases"]:
                r, b, g = ref[idx], base[idx], got[idx]
                idx += 1
                if "timeout" in (b[0], g[0]) or "notrun" in (b[0], g[0]):
                    part.count("timeouts")
                    continue
                part.case([it["src"], c["expr"], cname], effective, ["cell:" + cname.split(":")[0], "donor:" + dname,
                                                                  "outcome:" + b[0], "cellname:" + cname],
                          sample={"donor": dname, "cell": cname, "call": c["expr"], "baseline": diffmod.json_short(b, 120),
                                  "cell_outcome": diffmod.json_short(g, 120), "cpython": diffmod.json_short(r, 120)})
                if diffmod.compare(r, b, "full") is not None:
                    part.count("baseline_differs_from_cpython(donor property)")
                cls = diffmod.compare(b, g, "full")
                if cls is None:
                    continue
                akey = (it["src"], cname)
                if akey not in attributed and len(attributed) < 6:      # bounded: each attribution costs up to 5 small builds
                    attributed[akey] = attribute(it, c["expr"], dinfo, cell, cls, os.path.join(outdir, "attr_%d" % idx))
                culprit = attributed.get(akey)
                label = ("macros:" + macro_key([culprit])) if culprit else cname
                agrees = "cell agrees with CPython" if diffmod.compare(r, g, "full") is None else (
                    "baseline agrees with CPython" if diffmod.compare(r, b, "full") is None else "neither agrees with CPython")
                if cls.startswith("excmsg:"):      # same exception type, different text: name the two texts in the bucket
                    cls += ":%s=>%s" % (diffmod.msg_template(b[2])[:80], diffmod.msg_template(g[2])[:80])
                part.violation("cell:%s:%s:%s" % (label, dname, cls),
                               dict(ccase, src=it["src"], exprs=[c["expr"]], defines=[culprit] if culprit else defines),
                               "%s: baseline (C, -O0) %s vs cell %s %s; CPython %s (%s)" % (
                                   c["expr"], diffmod.json_short(b), label, diffmod.json_short(g), diffmod.json_short(r), agrees))
    return part


def run(ctx):
    ds = [n for n, _, _ in donors()]
    if ctx.quick:
        others = [n for n in ds if n not in ("pyprog", "cfgkernels")]
        plan = [("cfgkernels", 0), ("cfgkernels", 1), (others[ctx.seed % len(others)] if others else "pyprog", 2), ("pyprog", 3)]
    else:
        plan = [(n, i) for n in ds for i in range(8 if n == "pyprog" else 3 if n == "cfgkernels" else 4)]
    if os.environ.get("VERIF_C39_MODS"):        # development aid only
        plan = plan[:int(os.environ["VERIF_C39_MODS"])]
    ctx.pmap(_module_job, [(ctx.seed, ctx.tier, mi, dn, ctx.work) for dn, mi in plan])
    ctx.extra["donors"] = ds
    ctx.rule = ("donor modules (cfgkernels: 41 kernels x 14 drawn argument tuples; others 10/20 generated items; quick: cfgkernels x2, excprog|evalorder, pyprog) translated once by Cython and built "
                "in cells: quick: kernels: 6 drawn subsets of 4 feature macros (the deal covers all 22 macro settings per run), "
                "excprog|evalorder: C++17 + 1 neutral directive, pyprog: Limited API and -O2; thorough: -O2, C++17, Limited API, every macro alone, COMPRESS_STRINGS 0/1/2/90, -O3, C++ -O2, Limited -O2, "
                "3 drawn 2-5 macro combinations, 5 directives. One evaluation per (call, cell): canonical outcome equal to the baseline "
                "cell (C, -O0). non-trivial = the cell's preprocessed translation unit differs from the baseline's (-E -P hash) or the "
                "cell changes optimisation level / language / directives; distinct by (item source, call, cell)")
    ctx.assumptions = ["the baseline cell (C, -O0, default macros) is the comparison point; its own agreement with CPython is judged by the donor properties",
                       "donor calls are positional, so always_allow_keywords=False is behaviour-neutral for them (the kernel donor, which calls f1(x=b), and the evalorder donor under binding=False are skipped: NOT_NEUTRAL_FOR)"]


def replay(ctx, case):
    tree.activate_view()
    dinfo = {"header": case["header"], "setup": case.get("setup"), "always_log": case.get("always_log", False)}
    items = [{"src": case["src"], "cases": [{"expr": e} for e in case["exprs"]]}]
    src = diffmod.render(items, case["header"]) if case["exprs"] else case["src"]
    name = "c39r"
    outdir = os.path.join(ctx.work, "c39replay", cybuild.sha12(src + repr(sorted(case.items(), key=str))))
    built = Built(src, name, outdir)
    cases = diffmod.flat_cases(items) or [{"expr": "1"}]
    imp_b, base = run_cell(built, "base", False, O0, [], None, cases, dinfo)
    try:
        imp_c, got = run_cell(built, "cell", case["cplus"], case["flags"], case["defines"], case["directives"], cases, dinfo)
    except (cybuild.CCError, cybuild.CythonError) as e:
        return True, "does not build in cell %s: %s" % (case.get("cell"), str(e)[-300:])
    if imp_b != imp_c:
        return True, "import differs: %s vs %s" % (imp_b, imp_c)
    for e, b, g in zip(case["exprs"], base, got):
        cls = diffmod.compare(b, g, "full")
        if cls is not None:
            return True, "%s: %s: baseline %s vs cell %s %s" % (e, cls, diffmod.json_short(b), case.get("cell"), diffmod.json_short(g))
    ctx.extra.setdefault("replays_not_reproduced", []).append({"cell": case.get("cell"), "defines": case.get("defines"),
                                                                "exprs": case["exprs"], "src": case["src"][:1500]})
    return False, "outcomes agree with the baseline cell"
