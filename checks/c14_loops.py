"""C14 - optimised loops iterate exactly like Python loops (DESIGN §4 C14, engine E2)."""
import os

from vlib import diffmod, e2util, harness, tree
from vlib.gen import loopprog

PID = "C14"
LEVEL = "exploration"
META = {
    "technique": "property-based differential testing: generated loop skeletons x body templates (range with typed/untyped targets and bounds, reversed, enumerate, dict/set/list/tuple/str/bytes iteration with break/continue/else, target and bound modification, container mutation histories) run on boundary inputs; iteration log, final target value, else execution and RuntimeError compared with CPython",
    "level_text": "Exploration: Hypothesis-seeded generator of (a) for-loops over range(b) / range(a, b) / range(a, b, c) with literal steps {1, -1, 2, -3} or a run-time step, targets untyped or typed int / unsigned int / long / Py_ssize_t / short / char, typed or object bounds, optionally wrapped in reversed(), enumerate(.., start) or list(); bodies log the target and optionally break / continue at a chosen iteration, assign to the target, or modify the bounds; optional else clause; the function returns the trip count, the final target value (or 'unbound') and the bound; inputs are ~22 (start, stop, step) triples per function: small values, zero and negative steps, empty ranges, values next to the C type bounds, big ints (trip count <= 40 and no overflow of the typed target by construction); (b) loops over dict / .keys() / .values() / .items() (dict typed, untyped, dict subclass, non-dict mapping; tuple, nested enumerate targets), set / frozenset, list / list subclass / tuple / str / bytes / bytearray (plain, reversed, enumerate with start near 2**31) with a run-time selected action at iteration j: break, continue, insert / delete / same-size replace / value update for dicts, add / discard / replace for sets, append / pop / insert for lists and bytearrays. Iteration LOG, result tuple and exception type are compared with CPython on the same source. Sampling, no proof.",
    "level_note": "Trusts CPython 3.12 as reference; exception message texts are not compared; C arrays / pointer slices (not expressible in pure-Python mode) and the check that the loop was actually rewritten (C marker grep) are not part of this check; the documented convert_range overflow caveat of typed targets is excluded by input construction.",
}
K = 30


def case_of(it, exprs):
    return {"header": loopprog.HEADER, "src": it["src"], "exprs": list(exprs)}


def _compare(r, g):
    cls = diffmod.compare(r, g, "full")
    if cls is not None and cls.startswith("excmsg:"):
        return None
    return cls


def _loopkind(feats):
    main = [f for f in feats if f.startswith(("range:target:", "dict", "set:", "list:", "tuple:", "str:", "bytes:", "bytearray:", "enumerate-start:"))]
    extra = [f for f in feats if f in ("reversed(range)", "enumerate(range)", "range:typed-bounds", "nested-target", "enumerate(set)")]
    step = [f for f in feats if f.startswith("range:step:")]
    return "+".join(sorted(main) + sorted(extra) + step)


def bucket_of(feats, cls, r, g, icls):
    kind = cls.split(":")[0]
    if kind.startswith("crash") or kind in ("timeout", "notrun"):
        return "%s|%s|%s" % (_loopkind(feats), cls, icls)
    k = cls if kind in ("exc->ok", "ok->exc", "exctype") else kind
    body = "+".join(sorted(f for f in feats if f.startswith("body:") or f == "loop-else" or f == "target-maybe-unbound"))
    return "%s|%s|%s|%s" % (_loopkind(feats), k, icls, body)


def _shard(arg):
    seed, shard, nmods = arg
    tree.activate_view()
    part = harness.Part()
    outdir = os.path.join(tree.workdir(), "c14", "s%d" % shard)

    def on_item(it, refs, gots):
        feats = it["meta"]["features"]
        has_body = any(f in ("body:break", "body:continue") for f in feats)
        for c, r, g in zip(it["cases"], refs, gots):
            icls = c.get("cls", "?")
            nt = has_body or icls not in ("plain", "op:none", "start:int")
            part.case([it["src"], c["expr"]], nt, ["input:" + icls, "outcome:" + r[0] + (":" + r[1] if r[0] == "exc" else "")] + ["feat:" + f for f in feats],
                      sample={"src": it["src"], "call": c["expr"], "cpython": diffmod.json_short(r, 300), "compiled": diffmod.json_short(g, 300)})
            if r[0] == "timeout" or g[0] == "timeout":
                part.count("timeouts")
            cls = _compare(r, g)
            if cls is not None:
                part.violation(bucket_of(feats, cls, r, g, icls), dict(case_of(it, [c["expr"]]), feats=feats, icls=icls),
                               "%s: %s: CPython %s vs compiled %s" % (c["expr"], cls, diffmod.json_short(r, 500), diffmod.json_short(g, 500)))

    for m in range(nmods):
        items = loopprog.draw_items(K, seed, ("c14", shard, m), "%d_%d" % (shard, m))
        e2util.process(part, items, "c14m_%d_%d" % (shard, m), outdir, loopprog.HEADER, on_item, case_of)
    return part


def run(ctx):
    nmods = 1 if ctx.quick else 20
    ctx.pmap(_shard, [(ctx.seed, s, nmods) for s in range(16)])
    ctx.rule = ("Hypothesis-seeded loop functions: 50% range loops (1-3 arguments, literal or run-time step, 7 target typings, typed/object bounds, "
                "reversed/enumerate/list wrappers, 4 body variants, else) with ~22 generated (start, stop, step, k) inputs each incl. zero/negative steps, "
                "empty ranges, C type boundaries and big ints; 40% container loops (dict views x dict kinds, sets, lists, tuples, str, bytes, bytearray; "
                "reversed/enumerate) with <= 40 (container, iteration j, action) inputs each; 10% enumerate(x, start) loops over int / bool / __index__ / non-int start objects x empty and non-empty iterables; 30 functions per module; oracle = same source under CPython "
                "(iteration LOG, (trip count, final target, bound/len) result, exception type). non-trivial = zero/negative step, empty range, boundary or "
                "big-int input, break/continue, or a mutation action; distinct by (source, call)")
    ctx.assumptions = ["CPython 3.12 is the reference", "exception message texts are not compared",
                       "typed loop targets never overflow (documented convert_range caveat excluded by construction)"]


def replay(ctx, case):
    items = [{"src": case["src"], "cases": [{"expr": e} for e in case["exprs"]]}]
    res = diffmod.run_batch(items, "c14r", os.path.join(ctx.work, "c14replay"), header=case["header"])
    if res.status != "ok":
        return True, "build status %s: %s" % (res.status, str(res.detail)[:300])
    for e, r, g in zip(case["exprs"], res.ref[0], res.got[0]):
        c = _compare(r, g)
        if c is not None:
            return True, "%s: %s: CPython %s vs compiled %s" % (e, bucket_of(case.get("feats", []), c, r, g, case.get("icls", "?")),
                                                               diffmod.json_short(r, 500), diffmod.json_short(g, 500))
    return False, "outcomes agree"
