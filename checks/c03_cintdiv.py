"""C03 - C integer // and % follow Python semantics; cdivision gives C semantics (DESIGN §4 C03, engine E3).

One .pyx module per C integer type with ~80 tiny kernels (operator x divisor form x directive form x call-site
form); every kernel is driven over exhaustive (8-bit), exhaustive-in-a / boundary^2 / random (16-bit) or
boundary^2 + random (32/64-bit) inputs inside a runner subprocess and judged there against Python big-int
arithmetic (vlib/cintmodel.py, judge "divmod").
"""
import json
import os

from hypothesis import strategies as st

from vlib import cintmodel as cm
from vlib import cybuild, harness, hyp, ktable, runner, tree

PID = "C03"
LEVEL = "exploration"
META = {
    "technique": "typed kernel tables: generated C-integer //, % kernels (13 types x runtime/constant divisors x cdivision off/decorator/with-block x call-site forms) driven exhaustively for 8-bit operands and with boundary^2 + random operands for wider types, judged against Python big-int floor/truncating division",
    "level_text": "Exploration, with one exhaustively enumerated finite sub-space: every (a, b) pair of the three 8-bit types is fed to every runtime-divisor kernel and every a to every constant-divisor kernel (also all 16-bit a for constant divisors). 16/32/64-bit pair kernels see the square of a boundary set (0, +-1, +-2, bounds, 2^k+-1) plus seeded magnitude-uniform random pairs. The result type of each kernel is read back from the compiler (cython.typeof) and the oracle is exact integer arithmetic: floor quotient / remainder with the divisor's sign and ZeroDivisionError when cdivision is off, C99 truncation when on. Sampling beyond 8 bits, no proof.",
    "level_note": "Trusts CPython int arithmetic as the oracle, gcc -O0 -fwrapv on x86-64 (LP64) as the C implementation, and the kernel call boundary (C05's conversions) for passing in-range values. Inputs that are undefined behaviour in C (b == 0 or MIN / -1 under cdivision; MIN // -1 whose result does not fit, handed to C04) are excluded, MIN % -1 with cdivision off is included as its own crash-isolated case.",
}

TYPES = ["signed char", "unsigned char", "char", "short", "unsigned short", "int", "unsigned int", "long",
         "unsigned long", "long long", "unsigned long long", "Py_ssize_t", "size_t"]
CONSTS = [1, 2, 3, 7, -1, -2, -7, "max", "min"]
WITH_CONSTS = [3, -7, "max"]

HEADER = "# cython: language_level=3\ncimport cython\n"


def _const_value(c, T):
    lo, hi = cm.bounds(*cm.CTYPES[T])
    return hi if c == "max" else lo if c == "min" else c


def kernels_for(T):
    """Return (module source, kernel descriptors).  Descriptor: dict(k, text, op, mode, form, div, constb,
    target (type the result is stored to, or None), atype, btype, tyexpr)."""
    bits, signed = cm.CTYPES[T]
    wide = "long long" if signed else "unsigned long long"
    extdecl = "long" if signed else "unsigned long"
    pre = [HEADER,
           "ctypedef %s td_t\n" % T,
           'cdef extern from *:\n    """\n    typedef %s ext_t;\n    """\n    ctypedef %s ext_t\n' % (T, extdecl)]
    ks = []
    tyexprs = []

    def add(text, op, mode, form, div, constb=None, target=None, atype=T, btype=T, tyexpr=None):
        k = "k%d" % len(ks)
        text = text.replace("KNAME", k)
        ks.append(dict(k=k, text=text, op=op, mode=mode, form=form, div=div, constb=constb, target=target,
                       atype=atype, btype=btype))
        tyexprs.append((k, tyexpr))

    for mode, deco in (("py", ""), ("c", "@cython.cdivision(True)\n")):
        for op in ("//", "%"):
            sym = op
            add("%sdef KNAME(%s a, %s b):\n    return a %s b\n" % (deco, T, T, sym), op, mode, "expr", "var",
                tyexpr=("a %s b" % sym, T, T))
            add("%sdef KNAME(%s a, %s b):\n    a %s= b\n    return a\n" % (deco, T, T, sym), op, mode, "inplace", "var",
                target=T, tyexpr=("a %s b" % sym, T, T))
            add("%sdef KNAME(%s a, %s b):\n    cdef %s r\n    with nogil:\n        r = a %s b\n    return r\n" % (deco, T, T, T, sym),
                op, mode, "nogil", "var", target=T, tyexpr=("a %s b" % sym, T, T))
            add("%sdef KNAME(td_t a, td_t b):\n    return a %s b\n" % (deco, sym), op, mode, "typedef", "var",
                tyexpr=("a %s b" % sym, "td_t", "td_t"))
            add("%sdef KNAME(ext_t a, ext_t b):\n    return a %s b\n" % (deco, sym), op, mode, "exttypedef", "var",
                target=T, tyexpr=("a %s b" % sym, "ext_t", "ext_t"))
            add("%sdef KNAME(%s a, %s b):\n    return a %s b\n" % (deco, T, wide, sym), op, mode, "mixedwidth", "var",
                btype=wide, tyexpr=("a %s b" % sym, T, wide))
            add("%sdef KNAME(a, b):\n    cdef %s x = a\n    cdef %s y = b\n    return x %s y\n" % (deco, T, T, sym), op, mode,
                "cdeflocal", "var", tyexpr=("a %s b" % sym, T, T))
            for c in CONSTS:
                v = _const_value(c, T)
                add("%sdef KNAME(%s a):\n    return a %s %d\n" % (deco, T, sym, v), op, mode, "expr", "const:%s" % c, constb=v,
                    tyexpr=("a %s %d" % (sym, v), T, None))
        add("%sdef KNAME(%s a, %s b):\n    return (a // b, a %% b)\n" % (deco, T, T), "dm", mode, "pair", "var",
            tyexpr=("a // b", T, T))
    for op in ("//", "%"):
        add("def KNAME(%s a, %s b):\n    with cython.cdivision(True):\n        return a %s b\n" % (T, T, op), op, "c", "withblock", "var",
            tyexpr=("a %s b" % op, T, T))
        add("@cython.cdivision(True)\ndef KNAME(%s a, %s b):\n    with cython.cdivision(False):\n        return a %s b\n" % (T, T, op),
            op, "py", "withblock-off", "var", tyexpr=("a %s b" % op, T, T))
        for c in WITH_CONSTS:
            v = _const_value(c, T)
            add("def KNAME(%s a):\n    with cython.cdivision(True):\n        return a %s %d\n" % (T, op, v), op, "c", "withblock",
                "const:%s" % c, constb=v, tyexpr=("a %s %d" % (op, v), T, None))
    # type read-back: one function per distinct operand typing
    groups = {}
    for k, (expr, ta, tb) in tyexprs:
        groups.setdefault((ta, tb), []).append((k, expr))
    tfun = ["def TYPEOFS():\n    out = {}\n"]
    body = []
    for gi, ((ta, tb), items) in enumerate(sorted(groups.items(), key=lambda kv: str(kv[0]))):
        fn = ["def _ty%d(out):\n    cdef %s a = 1\n" % (gi, ta)]
        if tb:
            fn.append("    cdef %s b = 1\n" % tb)
        for k, expr in items:
            fn.append("    out[%r] = cython.typeof(%s)\n" % (k, expr))
        body.append("".join(fn))
        tfun.append("    _ty%d(out)\n" % gi)
    tfun.append("    return out\n")
    sizes = ("def SIZEOFS():\n    return {%s}\n" % ", ".join(
        "%r: (sizeof(%s), (<%s>-1) < 0)" % (t, t, t) for t in TYPES))
    src = "".join(pre) + "\n".join(d["text"] for d in ks) + "\n" + "\n".join(body) + "".join(tfun) + sizes
    return src, ks


def single_source(T, d):
    """Self-contained one-kernel module for replay files."""
    bits, signed = cm.CTYPES[T]
    extdecl = "long" if signed else "unsigned long"
    pre = HEADER
    if "td_t" in d["text"]:
        pre += "ctypedef %s td_t\n" % T
    if "ext_t" in d["text"]:
        pre += 'cdef extern from *:\n    """\n    typedef %s ext_t;\n    """\n    ctypedef %s ext_t\n' % (T, extdecl)
    return pre + d["text"]


def _range_of_typeof(ty, T):
    if ty in ("td_t", "ext_t"):
        ty = T
    return cm.type_range(ty)


def _isect(r1, r2):
    if r1 is None:
        return r2
    if r2 is None:
        return r1
    return [max(r1[0], r2[0]), min(r1[1], r2[1])]


def hypothesis_pairs(ra, rb, n, seed, *parts):
    strat = st.tuples(st.integers(ra[0], ra[1]), st.integers(rb[0], rb[1]))
    return [list(t) for t in hyp.draw_many(strat, n + 1, seed, *parts)[1:]]


def _isolated(d, params, candidates):
    """(drop list, isolated specs): inputs that can kill the process get their own runner case; inputs that
    the statement excludes (judge says SKIP) are not run at all."""
    jf = cm.JUDGES["divmod"](params)
    drop, iso = [], []
    for args in candidates:
        drop.append(list(args))
        if jf.want(args) is cm.SKIP:
            continue
        iso.append(({"kind": "list", "items": [list(args)]}, True, "input=MIN%s-1" % d["op"]))
    return drop, iso


MINS = (-2 ** 31, -2 ** 63)


def input_specs(T, d, params, seed, quick):
    """Input spec(s) for kernel d: list of (inputs, risky, crash_class)."""
    ra = cm.bounds(*cm.CTYPES[d["atype"]])
    rb = cm.bounds(*cm.CTYPES[d["btype"]])
    bits = cm.CTYPES[T][0]
    if d["constb"] is not None:
        if bits <= 16:
            return [({"kind": "grid", "ranges": [list(ra)]}, False, None)]
        bv = cm.boundary_values(ra[0], ra[1], dense=True)
        parts = [{"kind": "product", "axes": [bv]},
                 {"kind": "rand", "seed": hyp.derive(seed, "c03", T, "const"), "n": 4000 if quick else 100000, "ranges": [list(ra)]}]
        spec = {"kind": "cat", "parts": parts}
        iso = []
        if d["constb"] == -1:
            spec["drop"], iso = _isolated(d, params, [[m] for m in MINS if ra[0] <= m])
        return [(spec, False, None)] + iso
    # runtime divisor
    if bits == 8 and d["form"] != "mixedwidth":
        return [({"kind": "grid", "ranges": [list(ra), list(rb)]}, False, None)]
    dense = not quick
    bva = cm.boundary_values(ra[0], ra[1], dense=dense)
    bvb = cm.boundary_values(rb[0], rb[1], dense=dense)
    main_form = d["form"] in ("expr", "pair")
    nrand = (6000 if main_form else 1500) if quick else (200000 if main_form else 40000)
    parts = [{"kind": "product", "axes": [bva, bvb]},
             {"kind": "list", "items": hypothesis_pairs(ra, rb, 150 if quick else 2000, seed, "c03", T, d["atype"], d["btype"])},
             {"kind": "rand", "seed": hyp.derive(seed, "c03", T, d["form"], d["op"], d["mode"]), "n": nrand,
              "ranges": [list(ra), list(rb)], "small_b": True}]
    if bits == 16 and main_form:
        # all a x a few divisors (quick) / 64 boundary divisors (thorough)
        bs = [b for b in [3, -7, rb[1], rb[0], -1, 255, -256] if rb[0] <= b <= rb[1]][:4 if quick else 7]
        if not quick:
            bs = sorted(set(bs + cm.boundary_values(rb[0], rb[1], dense=False)))[:64]
        parts.append({"kind": "product", "axes": [list(range(ra[0], ra[1] + 1)), bs]})
    spec = {"kind": "cat", "parts": parts}
    spec["drop"], iso = _isolated(d, params, [[m, -1] for m in MINS if ra[0] <= m and rb[0] < 0])
    return [(spec, False, None)] + iso


def build_specs(T, ks, typeofs, seed, quick):
    specs = []
    for d in ks:
        ty = typeofs[d["k"]]
        opnd = _range_of_typeof(ty, T)
        res = opnd
        if d["target"]:
            res = _isect(res, list(cm.bounds(*cm.CTYPES[d["target"]])))
        params = {"op": d["op"], "mode": d["mode"], "opnd": list(opnd) if opnd else None,
                  "res": list(res) if res else None, "constb": d["constb"]}
        label = "T=%s|op=%s|cdivision=%s|form=%s|div=%s|restype=%s" % (
            T, d["op"], "off" if d["mode"] == "py" else "on", d["form"], d["div"].split(":")[0], ty)
        bucket = "op=%s|cdivision=%s|form=%s|div=%s|T=%s" % (
            d["op"], "off" if d["mode"] == "py" else "on", d["form"], d["div"], T)
        for inp, risky, crash_class in input_specs(T, d, params, seed, quick):
            specs.append({"k": d["k"], "judge": ["divmod", params], "inputs": inp, "label": label, "bucket": bucket,
                          "src": single_source(T, d), "build": {"ext": ".pyx"}, "risky": risky, "crash_class": crash_class,
                          "ktext": d["text"], "maxnt": 6 if d["constb"] is not None else 16})
    return specs


def _build(arg):
    T, work = arg
    tree.activate_view()
    src, ks = kernels_for(T)
    name = "c03_" + cm.ident(T)
    so = cybuild.build(src, name, os.path.join(work, "c03", cm.ident(T)), ext=".pyx")
    imp, outs = runner.run_cases("so", so, name, [{"expr": "M.TYPEOFS()"}, {"expr": "M.SIZEOFS()"}])
    if imp[0] != "ok" or outs[0][0] != "ok" or outs[1][0] != "ok":
        raise RuntimeError("C03 module for %s unusable: %r %r" % (T, imp, outs))
    typeofs = {kv[0][1].strip("'"): kv[1][1].strip("'") for kv in outs[0][1][1]}
    sizes = {kv[0][1].strip("'"): (int(kv[1][1][0][1]), kv[1][1][1][1] == "True") for kv in outs[1][1][1]}
    for t, (sz, sg) in sizes.items():
        if (sz * 8, sg) != cm.CTYPES[t]:
            raise RuntimeError("data model mismatch for %s: sizeof=%d signed=%s" % (t, sz, sg))
    return ("built", T, so, name, typeofs)


def _drive(arg):
    T, so, name, typeofs, seed, quick, chunk, nchunks = arg
    tree.activate_view()
    part = harness.Part()
    src, ks = kernels_for(T)
    specs = build_specs(T, ks, typeofs, seed, quick)
    mine = [s for i, s in enumerate(specs) if i % nchunks == chunk]
    ktable.run_specs(so, name, mine, part, keyprefix="c03")
    part.count("kernels", len({s["k"] for s in mine}) if chunk == 0 else 0)
    return part


def run(ctx):
    built = ctx.pmap(_build, [(T, ctx.work) for T in TYPES])
    nchunks = 2 if ctx.quick else 8
    jobs = []
    nk = 0
    for _, T, so, name, typeofs in built:
        nk += len(typeofs)
        for c in range(nchunks):
            jobs.append((T, so, name, typeofs, ctx.seed, ctx.quick, c, nchunks))
    ctx.pmap(_drive, jobs)
    ctx.counters["kernels"] = nk
    ctx.extra["distinct_nontrivial_exact"] = int(ctx.counters.get("nt_exact", 0))
    ctx.extra["exhaustive_subspace"] = ("all 65536 (a, b) pairs for signed/unsigned/plain char runtime-divisor kernels; all a for "
                                        "constant-divisor kernels of 8- and 16-bit types")
    ctx.rule = ("kernels = {//, %, (a//b, a%b)} x 13 C integer types x divisor {runtime, constants 1,2,3,7,-1,-2,-7,max,min} x "
                "{cdivision off, @cdivision(True), with cdivision(True), with cdivision(False) inside @cdivision(True)} x call-site form "
                "{expression, in-place, nogil block, ctypedef, extern ctypedef, mixed-width divisor, cdef locals}; inputs: all pairs for "
                "8-bit, all a for constant divisors up to 16 bit, otherwise boundary-set^2 + Hypothesis pairs + seeded magnitude-uniform "
                "random pairs (30% small divisors); oracle: Python int divmod (cdivision off: floor, ZeroDivisionError) / C99 truncation "
                "(cdivision on) on the result type read back with cython.typeof. non-trivial = operand signs differ and remainder != 0, "
                "or b == 0 with cdivision off; distinct by (kernel, a, b). distinct_nontrivial is a bounded hashed SAMPLE of those cases "
                "(<= 16 per kernel batch); the exact number is coverage.distinct_nontrivial_exact (inputs are de-duplicated per kernel)")
    ctx.assumptions = ["LP64 data model, char signed (verified at run time through sizeof / sign probes in every module)",
                       "CPython int arithmetic is the exact oracle",
                       "excluded as outside the statement: b == 0 and MIN/-1 under cdivision (C undefined behaviour), MIN // -1 "
                       "(result does not fit; C04), operands whose conversion to the C result type changes their value (e.g. size_t // -1)"]


def replay(ctx, case):
    return ktable.replay(ctx, case)
